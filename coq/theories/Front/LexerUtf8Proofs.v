(* The positive theorems for the FIXED tokenizer ([fx = true], fixes/C09-lexer-non-ascii.patch):
   on every valid UTF-8 input no step panics and every reported span lies on character
   boundaries.  Invariant: between sub-lexer calls the remaining input is itself valid UTF-8
   (i.e. the position is a character boundary). *)
From Coq Require Import List NArith ZArith Bool Arith Lia.
From GV Require Import Base.Utf8N Front.Lexer Front.LexerProofs.
Import ListNotations.
Local Open Scope N_scope.

(* ------------------------------------------------------------------------------------------ *)
(* UTF-8 facts                                                                                 *)
(* ------------------------------------------------------------------------------------------ *)

Lemma valid_ascii_tail : forall b t, utf8_valid (b :: t) = true -> (b <? 128) = true -> utf8_valid t = true.
Proof. intros b t H A. cbn [utf8_valid] in H. rewrite A in H. exact H. Qed.

Lemma in_range_spec : forall lo hi b, in_range lo hi b = true <-> lo <= b /\ b <= hi.
Proof.
  intros lo hi b. unfold in_range. rewrite andb_true_iff, !N.leb_le. tauto.
Qed.

Lemma is_cont_spec : forall b, is_cont b = true <-> 128 <= b /\ b <= 191.
Proof. intros b. unfold is_cont. rewrite andb_true_iff, !N.leb_le. tauto. Qed.

Lemma cont_not_boundary : forall b, is_cont b = true -> is_boundary_byte b = false.
Proof.
  intros b H. apply is_cont_spec in H. unfold is_boundary_byte.
  apply orb_false_iff. split; [apply N.ltb_ge | apply N.leb_gt]; lia.
Qed.

Lemma ascii_boundary_byte : forall b, (b <? 128) = true -> is_boundary_byte b = true.
Proof. intros b H. unfold is_boundary_byte. rewrite H. reflexivity. Qed.

(* the shape of a valid string that starts with a non-ASCII byte *)
Inductive lead_shape (b : byte) (r : list byte) : Prop :=
| Lead2 b1 t : r = b1 :: t -> 194 <= b -> b <= 223 -> is_cont b1 = true -> utf8_valid t = true -> lead_shape b r
| Lead3 b1 b2 t : r = b1 :: b2 :: t -> 224 <= b -> b <= 239 ->
    (if b =? 224 then in_range 160 191 b1 else if b =? 237 then in_range 128 159 b1 else is_cont b1) = true ->
    is_cont b2 = true -> utf8_valid t = true -> lead_shape b r
| Lead4 b1 b2 b3 t : r = b1 :: b2 :: b3 :: t -> 240 <= b -> b <= 244 ->
    (if b =? 240 then in_range 144 191 b1 else if b =? 244 then in_range 128 143 b1 else is_cont b1) = true ->
    is_cont b2 = true -> is_cont b3 = true -> utf8_valid t = true -> lead_shape b r.

Lemma valid_lead : forall b r, utf8_valid (b :: r) = true -> (b <? 128) = false -> lead_shape b r.
Proof.
  intros b r H A. cbn [utf8_valid] in H. rewrite A in H.
  destruct (in_range 194 223 b) eqn:R2.
  { apply in_range_spec in R2. destruct r as [|b1 t]; [discriminate|].
    apply andb_true_iff in H. destruct H as [H1 H2]. eapply Lead2; eauto; lia. }
  destruct (in_range 224 239 b) eqn:R3.
  { apply in_range_spec in R3. destruct r as [|b1 [|b2 t]]; try discriminate.
    apply andb_true_iff in H. destruct H as [H12 H3]. apply andb_true_iff in H12. destruct H12 as [H1 H2].
    eapply Lead3; eauto; lia. }
  destruct (in_range 240 244 b) eqn:R4; [|discriminate].
  apply in_range_spec in R4. destruct r as [|b1 [|b2 [|b3 t]]]; try discriminate.
  apply andb_true_iff in H. destruct H as [H123 H4]. apply andb_true_iff in H123. destruct H123 as [H12 H3].
  apply andb_true_iff in H12. destruct H12 as [H1 H2].
  eapply Lead4; eauto; lia.
Qed.

Lemma valid_head_boundary : forall b t, utf8_valid (b :: t) = true -> is_boundary_byte b = true.
Proof.
  intros b t H. destruct (b <? 128) eqn:A; [apply ascii_boundary_byte; exact A|].
  unfold is_boundary_byte. rewrite A. cbn. apply N.leb_le.
  destruct (valid_lead b t H A); lia.
Qed.

Lemma valid_head_not_ws : forall b t, utf8_valid (b :: t) = true -> (b <? 128) = false -> is_ws_byte b = false.
Proof.
  intros b t H A. assert (194 <= b) by (destruct (valid_lead b t H A); lia).
  unfold is_ws_byte, in_range.
  repeat (apply orb_false_iff; split); try (apply andb_false_iff; right; apply N.leb_gt; lia);
    apply N.eqb_neq; lia.
Qed.

(* first-branch of a range-dependent continuation test is a continuation byte in all cases *)
Lemma second_byte_cont3 : forall b b1,
  (if b =? 224 then in_range 160 191 b1 else if b =? 237 then in_range 128 159 b1 else is_cont b1) = true ->
  is_cont b1 = true.
Proof.
  intros b b1 H. apply is_cont_spec.
  destruct (b =? 224); [apply in_range_spec in H; lia|].
  destruct (b =? 237); [apply in_range_spec in H; lia|]. apply is_cont_spec in H. lia.
Qed.

Lemma second_byte_cont4 : forall b b1,
  (if b =? 240 then in_range 144 191 b1 else if b =? 244 then in_range 128 143 b1 else is_cont b1) = true ->
  is_cont b1 = true.
Proof.
  intros b b1 H. apply is_cont_spec.
  destruct (b =? 240); [apply in_range_spec in H; lia|].
  destruct (b =? 244); [apply in_range_spec in H; lia|]. apply is_cont_spec in H. lia.
Qed.

Lemma bytes_prefix_valid_tail : forall t, utf8_valid t = true -> bytes_prefix true t = [].
Proof.
  intros [|b t] H; [reflexivity|]. cbn [bytes_prefix]. rewrite (valid_head_boundary b t H). reflexivity.
Qed.

(* restore_char in the fixed tree, at the first byte of a character of a valid string: it succeeds,
   and dropping the len_utf8 - 1 following bytes leaves a valid string *)
Lemma restore_char_valid : forall b r,
  utf8_valid (b :: r) = true ->
  exists c, restore_char true b r = Ok c /\
            (len_utf8 c - 1 <= length r)%nat /\
            utf8_valid (skipn (len_utf8 c - 1) r) = true.
Proof.
  intros b r H. destruct (b <? 128) eqn:A.
  - (* ASCII *)
    pose proof (valid_ascii_tail b r H A) as T.
    exists b. unfold restore_char. rewrite (bytes_prefix_valid_tail r T). cbn [app length repeat Nat.sub].
    cbn [utf8_valid]. rewrite A. cbn. rewrite A.
    unfold len_utf8. rewrite A. cbn. split; [reflexivity | split; [lia | exact T]].
  - destruct (valid_lead b r H A) as [b1 t -> L1 L2 C1 T | b1 b2 t -> L1 L2 C1 C2 T | b1 b2 b3 t -> L1 L2 C1 C2 C3 T].
    + (* two bytes *)
      assert (P : bytes_prefix true (b1 :: t) = [b1]).
      { cbn [bytes_prefix]. rewrite (cont_not_boundary b1 C1).
        destruct t as [|b2 t']; [reflexivity|]. rewrite (valid_head_boundary b2 t' T). reflexivity. }
      unfold restore_char. rewrite P. cbn [app length repeat Nat.sub].
      assert (V : utf8_valid [b; b1; 0; 0] = true).
      { cbn [utf8_valid]. rewrite A. assert (R : in_range 194 223 b = true) by (apply in_range_spec; lia).
        rewrite R, C1. reflexivity. }
      rewrite V. eexists. split; [reflexivity|].
      assert (Lc : len_utf8 (decode_first [b; b1; 0; 0]) = 2%nat).
      { cbn [decode_first]. rewrite A. assert (B2 : (b <? 224) = true) by (apply N.ltb_lt; lia). rewrite B2.
        apply is_cont_spec in C1. unfold len_utf8.
        assert (X : ((b - 192) * 64 + (b1 - 128) <? 128) = false) by (apply N.ltb_ge; lia).
        assert (Y : ((b - 192) * 64 + (b1 - 128) <? 2048) = true) by (apply N.ltb_lt; lia).
        rewrite X, Y. reflexivity. }
      rewrite Lc. cbn. split; [lia | exact T].
    + (* three bytes *)
      pose proof (second_byte_cont3 b b1 C1) as C1'.
      assert (P : bytes_prefix true (b1 :: b2 :: t) = [b1; b2]).
      { cbn [bytes_prefix]. rewrite (cont_not_boundary b1 C1'), (cont_not_boundary b2 C2).
        destruct t as [|b3 t']; [reflexivity|]. rewrite (valid_head_boundary b3 t' T). reflexivity. }
      unfold restore_char. rewrite P. cbn [app length repeat Nat.sub].
      assert (V : utf8_valid [b; b1; b2; 0] = true).
      { cbn [utf8_valid]. rewrite A.
        assert (R2 : in_range 194 223 b = false).
        { unfold in_range. apply andb_false_iff. right. apply N.leb_gt. lia. }
        assert (R3 : in_range 224 239 b = true) by (apply in_range_spec; lia).
        rewrite R2, R3, C1, C2. reflexivity. }
      rewrite V. eexists. split; [reflexivity|].
      assert (Lc : len_utf8 (decode_first [b; b1; b2; 0]) = 3%nat).
      { cbn [decode_first]. rewrite A.
        assert (B2 : (b <? 224) = false) by (apply N.ltb_ge; lia).
        assert (B3 : (b <? 240) = true) by (apply N.ltb_lt; lia). rewrite B2, B3.
        apply is_cont_spec in C1'. apply is_cont_spec in C2. unfold len_utf8.
        assert (Lo : 2048 <= (b - 224) * 4096 + (b1 - 128) * 64 + (b2 - 128)).
        { destruct (b =? 224) eqn:E.
          - apply N.eqb_eq in E. apply in_range_spec in C1. lia.
          - apply N.eqb_neq in E. lia. }
        assert (X : ((b - 224) * 4096 + (b1 - 128) * 64 + (b2 - 128) <? 128) = false) by (apply N.ltb_ge; lia).
        assert (Y : ((b - 224) * 4096 + (b1 - 128) * 64 + (b2 - 128) <? 2048) = false) by (apply N.ltb_ge; lia).
        assert (Z : ((b - 224) * 4096 + (b1 - 128) * 64 + (b2 - 128) <? 65536) = true) by (apply N.ltb_lt; lia).
        rewrite X, Y, Z. reflexivity. }
      rewrite Lc. cbn. split; [lia | exact T].
    + (* four bytes *)
      pose proof (second_byte_cont4 b b1 C1) as C1'.
      assert (P : bytes_prefix true (b1 :: b2 :: b3 :: t) = [b1; b2; b3]).
      { cbn [bytes_prefix]. rewrite (cont_not_boundary b1 C1'), (cont_not_boundary b2 C2), (cont_not_boundary b3 C3).
        reflexivity. }
      unfold restore_char. rewrite P. cbn [app length repeat Nat.sub].
      assert (V : utf8_valid [b; b1; b2; b3] = true).
      { cbn [utf8_valid]. rewrite A.
        assert (R2 : in_range 194 223 b = false).
        { unfold in_range. apply andb_false_iff. right. apply N.leb_gt. lia. }
        assert (R3 : in_range 224 239 b = false).
        { unfold in_range. apply andb_false_iff. right. apply N.leb_gt. lia. }
        assert (R4 : in_range 240 244 b = true) by (apply in_range_spec; lia).
        rewrite R2, R3, R4, C1, C2, C3. reflexivity. }
      match goal with |- context [utf8_valid ?l] => replace (utf8_valid l) with true by (symmetry; exact V) end.
      eexists. split; [reflexivity|].
      assert (Lc : len_utf8 (decode_first [b; b1; b2; b3]) = 4%nat).
      { cbn [decode_first]. rewrite A.
        assert (B2 : (b <? 224) = false) by (apply N.ltb_ge; lia).
        assert (B3 : (b <? 240) = false) by (apply N.ltb_ge; lia). rewrite B2, B3.
        apply is_cont_spec in C1'. apply is_cont_spec in C2. apply is_cont_spec in C3. unfold len_utf8.
        assert (Lo : 65536 <= (b - 240) * 262144 + (b1 - 128) * 4096 + (b2 - 128) * 64 + (b3 - 128)).
        { destruct (b =? 240) eqn:E.
          - apply N.eqb_eq in E. apply in_range_spec in C1. lia.
          - apply N.eqb_neq in E. lia. }
        assert (X : ((b - 240) * 262144 + (b1 - 128) * 4096 + (b2 - 128) * 64 + (b3 - 128) <? 128) = false) by (apply N.ltb_ge; lia).
        assert (Y : ((b - 240) * 262144 + (b1 - 128) * 4096 + (b2 - 128) * 64 + (b3 - 128) <? 2048) = false) by (apply N.ltb_ge; lia).
        assert (Z : ((b - 240) * 262144 + (b1 - 128) * 4096 + (b2 - 128) * 64 + (b3 - 128) <? 65536) = false) by (apply N.ltb_ge; lia).
        rewrite X, Y, Z. reflexivity. }
      match goal with |- context [len_utf8 (decode_first ?l)] =>
        replace (len_utf8 (decode_first l)) with 4%nat by (symmetry; exact Lc) end.
      cbn. split; [lia | exact T].
Qed.

(* scanning to an ASCII terminator (or the end) lands on a character boundary *)
Lemma scan_valid_term : forall term, (forall b, term b = true -> (b <? 128) = true) ->
  forall n l p p' r', (length l <= n)%nat -> utf8_valid l = true -> scan_until term p l = (p', r') ->
  utf8_valid r' = true.
Proof.
  intros term HT. induction n as [|n IH]; intros l p p' r' L V Sc.
  - destruct l; [|cbn in L; lia]. cbn in Sc. injection Sc as <- <-. reflexivity.
  - destruct l as [|b t]; [cbn in Sc; injection Sc as <- <-; reflexivity|].
    cbn [scan_until] in Sc. destruct (term b) eqn:Tb.
    + injection Sc as <- <-. exact V.
    + destruct (b <? 128) eqn:A.
      * apply (IH t (S p) p' r'); [cbn in L; lia | eapply valid_ascii_tail; eauto | exact Sc].
      * assert (NT : forall x, is_cont x = true -> term x = false).
        { intros x Cx. destruct (term x) eqn:Tx; [|reflexivity]. apply HT in Tx. apply N.ltb_lt in Tx.
          apply is_cont_spec in Cx. lia. }
        destruct (valid_lead b t V A) as [b1 t' -> L1 L2 C1 T | b1 b2 t' -> L1 L2 C1 C2 T | b1 b2 b3 t' -> L1 L2 C1 C2 C3 T].
        -- cbn [scan_until] in Sc. rewrite (NT b1 C1) in Sc.
           eapply (IH t'); [cbn in L; lia | exact T | exact Sc].
        -- cbn [scan_until] in Sc. rewrite (NT b1 (second_byte_cont3 b b1 C1)), (NT b2 C2) in Sc.
           eapply (IH t'); [cbn in L; lia | exact T | exact Sc].
        -- cbn [scan_until] in Sc. rewrite (NT b1 (second_byte_cont4 b b1 C1)), (NT b2 C2), (NT b3 C3) in Sc.
           eapply (IH t'); [cbn in L; lia | exact T | exact Sc].
Qed.

(* scanning over ASCII-only bytes stays on character boundaries *)
Lemma scan_valid_keep : forall keep, (forall b, keep b = true -> (b <? 128) = true) ->
  forall l p p' r', utf8_valid l = true -> scan_until (fun b => negb (keep b)) p l = (p', r') ->
  utf8_valid r' = true.
Proof.
  intros keep HK. induction l as [|b t IH]; intros p p' r' V Sc.
  - cbn in Sc. injection Sc as <- <-. reflexivity.
  - cbn [scan_until] in Sc. destruct (keep b) eqn:Kb; cbn in Sc.
    + apply (IH (S p) p' r'); [eapply valid_ascii_tail; eauto | exact Sc].
    + injection Sc as <- <-. exact V.
Qed.

(* ------------------------------------------------------------------------------------------ *)
(* state invariant: the remaining input is valid UTF-8                                         *)
(* ------------------------------------------------------------------------------------------ *)

Definition bnd (input : list byte) (p : nat) : Prop := is_char_boundary input p = true.
Definition errb (input : list byte) (e : sp_err) : Prop := bnd input (e_start e) /\ bnd input (e_end e).
Definition wv (input : list byte) (s : st) : Prop :=
  wf input s /\ utf8_valid (rest s) = true /\ Forall (errb input) (errs s).

Lemma nth_error_skipn_hd : forall (A : Type) i (l : list A), nth_error l i = hd_error (skipn i l).
Proof.
  induction i as [|i IH]; intros [|x l]; cbn; auto.
Qed.

Lemma wf_bnd_head : forall input s, wf input s ->
  match rest s with [] => True | b :: _ => is_boundary_byte b = true end -> bnd input (pos s).
Proof.
  intros input s (H & Hp & _) Hh. unfold bnd, is_char_boundary.
  destruct (Nat.eqb (pos s) 0); [reflexivity|].
  rewrite nth_error_skipn_hd, <- H. destruct (rest s) as [|b r] eqn:E; cbn.
  - symmetry in H. apply skipn_nil_len in H. apply Nat.eqb_eq. lia.
  - exact Hh.
Qed.

Lemma wv_bnd : forall input s, wv input s -> bnd input (pos s).
Proof.
  intros input s (W & V & _). apply wf_bnd_head; auto.
  destruct (rest s) as [|b r]; auto. eapply valid_head_boundary; eauto.
Qed.

Lemma wv_wf : forall input s, wv input s -> wf input s.
Proof. intros input s (W & _). exact W. Qed.

Lemma slice_bnd : forall input a b, bnd input a -> bnd input b -> (a <= b)%nat -> (b <= length input)%nat ->
  exists t, slice input a b = Ok t.
Proof.
  intros input a b Ba Bb Hab Hb. unfold slice, slice_ok. unfold bnd in *. rewrite Ba, Bb.
  apply Nat.leb_le in Hab. apply Nat.leb_le in Hb. rewrite Hab, Hb. eexists; reflexivity.
Qed.

Lemma wv_init : forall input, utf8_valid input = true -> wv input (init input).
Proof. intros input V. split; [apply wf_init | split; [exact V | constructor]]. Qed.

Lemma wv_bump : forall input s p b s1,
  wv input s -> bump s = Some (p, b, s1) -> (b <? 128) = true ->
  wv input s1 /\ p = pos s /\ pos s1 = S (pos s).
Proof.
  intros input s p b s1 (W & V & E) B A.
  destruct (wf_bump _ _ _ _ _ W B) as (W1 & -> & P1 & R1 & E1 & _).
  split; [|split; auto]. split; [exact W1 | split].
  - rewrite R1 in V. eapply valid_ascii_tail; eauto.
  - rewrite E1. exact E.
Qed.

(* any first byte: the state after it, together with the byte, is still described *)
Lemma wv_bump_any : forall input s p b s1,
  wv input s -> bump s = Some (p, b, s1) ->
  wf input s1 /\ p = pos s /\ pos s1 = S (pos s) /\ utf8_valid (b :: rest s1) = true /\ errs s1 = errs s /\
  rest s = b :: rest s1.
Proof.
  intros input s p b s1 (W & V & E) B.
  destruct (wf_bump _ _ _ _ _ W B) as (W1 & -> & P1 & R1 & E1 & _).
  rewrite R1 in V. spl; auto.
Qed.

Lemma wv_bump_ : forall input s b, wv input s -> lookahead s = Some b -> (b <? 128) = true ->
  wv input (bump_ s) /\ pos (bump_ s) = S (pos s).
Proof.
  intros input s b WV L A. unfold lookahead in L. destruct (rest s) as [|x r] eqn:R; [discriminate|].
  injection L as ->.
  assert (B : bump s = Some (pos s, b, bump_ s)).
  { unfold bump, bump_. rewrite R. reflexivity. }
  destruct (wv_bump _ _ _ _ _ WV B A) as (X & _ & Y). auto.
Qed.

Lemma wv_push : forall input s a b c,
  wv input s -> bnd input a -> bnd input b -> (a <= b)%nat -> (b <= length input)%nat ->
  wv input (push_err a b c s).
Proof.
  intros input s a b c (W & V & E) Ba Bb Hab Hb. split; [apply wf_push; auto|]. split; [exact V|].
  cbn. constructor; auto. split; auto.
Qed.

Lemma bnd_len : forall input, bnd input (length input).
Proof.
  intros input. unfold bnd, is_char_boundary. destruct (Nat.eqb (length input) 0); [reflexivity|].
  assert (N : nth_error input (length input) = None) by (apply nth_error_None; lia).
  rewrite N. apply Nat.eqb_refl.
Qed.

Lemma wv_skip_to_end : forall input s, wv input s -> wv input (skip_to_end s) /\ (pos s <= pos (skip_to_end s))%nat.
Proof.
  intros input s (W & V & E). destruct (wf_skip_to_end input s W) as (W2 & P2).
  split; auto. split; [exact W2 | split; [reflexivity | exact E]].
Qed.

Lemma bump_n_rest : forall k s, rest (bump_n k s) = skipn k (rest s).
Proof.
  induction k as [|k IH]; intros s; cbn; [reflexivity|].
  rewrite IH. unfold bump_. destruct (rest s) as [|x r] eqn:R; cbn.
  - rewrite R. destruct k; reflexivity.
  - reflexivity.
Qed.

(* the fixed `bump_char_rest`: from a state whose previous byte b starts a character *)
Lemma restore_and_skip_valid : forall input s b,
  wf input s -> utf8_valid (b :: rest s) = true -> Forall (errb input) (errs s) ->
  exists c s', restore_and_skip true b s = Ok (c, s') /\ wv input s' /\ (pos s <= pos s')%nat.
Proof.
  intros input s b W V E. unfold restore_and_skip.
  destruct (restore_char_valid b (rest s) V) as (c & RC & L & VS). rewrite RC.
  exists c, (bump_n (len_utf8 c - 1) s). split; [reflexivity|].
  destruct (wf_bump_n input (len_utf8 c - 1) s W) as (W2 & P2 & E2).
  split; [|exact P2]. split; [exact W2 | split].
  - rewrite bump_n_rest. exact VS.
  - rewrite E2. exact E.
Qed.

(* ------------------------------------------------------------------------------------------ *)
(* take_until / take_while                                                                     *)
(* ------------------------------------------------------------------------------------------ *)

Definition ascii_pred (f : byte -> bool) : Prop := forall b, f b = true -> (b <? 128) = true.

Lemma take_until_valid : forall input term start s,
  ascii_pred term -> wv input s -> bnd input start -> (start <= pos s)%nat ->
  exists e t s', take_until input term start s = Ok (e, t, s') /\
    wv input s' /\ (pos s <= pos s')%nat /\ e = pos s' /\
    match rest s' with [] => True | b :: _ => term b = true end.
Proof.
  intros input term start s HT (W & V & E) Bs Hs. unfold take_until.
  destruct (scan_until term (pos s) (rest s)) as [p r] eqn:Sc.
  pose proof W as (H & Hp & He).
  destruct (scan_until_spec term input (rest s) (pos s) p r H Hp Sc) as (A & B & C & D & F).
  assert (VR : utf8_valid r = true) by (eapply (scan_valid_term term HT (length (rest s)) (rest s)); [apply le_n | exact V | exact Sc]).
  assert (WV' : wv input (mkSt p r (errs s))).
  { split; [unfold wf; cbn; auto | split; [exact VR | exact E]]. }
  destruct (slice_bnd input start p Bs (wv_bnd _ _ WV') ltac:(lia) C) as (t & St). rewrite St.
  exists p, t, (mkSt p r (errs s)). cbn. auto.
Qed.

Lemma take_while_valid : forall input keep start s,
  ascii_pred keep -> wv input s -> bnd input start -> (start <= pos s)%nat ->
  exists e t s', take_while input keep start s = Ok (e, t, s') /\
    wv input s' /\ (pos s <= pos s')%nat /\ e = pos s' /\
    match rest s' with [] => True | b :: _ => keep b = false end.
Proof.
  intros input keep start s HK (W & V & E) Bs Hs. unfold take_while, take_until.
  destruct (scan_until (fun b => negb (keep b)) (pos s) (rest s)) as [p r] eqn:Sc.
  pose proof W as (H & Hp & He).
  destruct (scan_until_spec _ input (rest s) (pos s) p r H Hp Sc) as (A & B & C & D & F).
  assert (VR : utf8_valid r = true) by (eapply (scan_valid_keep keep HK (rest s)); [exact V | exact Sc]).
  assert (WV' : wv input (mkSt p r (errs s))).
  { split; [unfold wf; cbn; auto | split; [exact VR | exact E]]. }
  destruct (slice_bnd input start p Bs (wv_bnd _ _ WV') ltac:(lia) C) as (t & St). rewrite St.
  exists p, t, (mkSt p r (errs s)). cbn. spl; auto.
  destruct r; auto. apply negb_true_iff in F. exact F.
Qed.

Lemma eqb_ascii : forall c, c < 128 -> ascii_pred (N.eqb c).
Proof. intros c Hc b H. apply N.eqb_eq in H. subst. apply N.ltb_lt. exact Hc. Qed.

Lemma in_range_ascii : forall lo hi b, hi < 128 -> in_range lo hi b = true -> (b <? 128) = true.
Proof. intros lo hi b Hh H. apply in_range_spec in H. apply N.ltb_lt. lia. Qed.

Lemma is_ident_start_ascii : ascii_pred is_ident_start.
Proof.
  intros b H. unfold is_ident_start in H. apply orb_true_iff in H. destruct H as [H | H].
  - apply orb_true_iff in H. destruct H as [H | H].
    + apply N.eqb_eq in H. subst. reflexivity.
    + eapply in_range_ascii; [|exact H]. lia.
  - eapply in_range_ascii; [|exact H]. lia.
Qed.

Lemma is_digit_ascii : ascii_pred is_digit.
Proof. intros b H. eapply in_range_ascii; [|exact H]. lia. Qed.

Lemma is_ident_continue_ascii : ascii_pred is_ident_continue.
Proof.
  intros b H. unfold is_ident_continue in H. apply orb_true_iff in H. destruct H as [H | H].
  - apply orb_true_iff in H. destruct H as [H | H]; [apply is_digit_ascii; exact H|].
    apply N.eqb_eq in H. subst. reflexivity.
  - apply is_ident_start_ascii; exact H.
Qed.

Lemma is_hex_ascii : ascii_pred is_hex.
Proof.
  intros b H. unfold is_hex in H. apply orb_true_iff in H. destruct H as [H | H].
  - apply orb_true_iff in H. destruct H as [H | H]; [apply is_digit_ascii; exact H|].
    eapply in_range_ascii; [|exact H]. lia.
  - eapply in_range_ascii; [|exact H]. lia.
Qed.

Lemma is_operator_byte_ascii : ascii_pred is_operator_byte.
Proof.
  intros b H. unfold is_operator_byte in H. apply existsb_exists in H. destruct H as (x & Hin & E).
  apply N.eqb_eq in E. subst x. cbn in Hin.
  repeat (destruct Hin as [<- | Hin]; [reflexivity|]). contradiction.
Qed.

Lemma is_quote_or_backslash_ascii : ascii_pred is_quote_or_backslash.
Proof.
  intros b H. unfold is_quote_or_backslash in H. apply orb_true_iff in H.
  destruct H as [H | H]; apply N.eqb_eq in H; subst; reflexivity.
Qed.

(* ------------------------------------------------------------------------------------------ *)
(* sub-lexers of the fixed tree on a valid suffix                                              *)
(* ------------------------------------------------------------------------------------------ *)

Definition itemb (input : list byte) (oi : option item) : Prop :=
  match oi with
  | None => True
  | Some i => bnd input (fst (span i)) /\ bnd input (snd (span i))
  end.

Definition postv (input : list byte) (lo' : nat) (r : res (option item * st)) : Prop :=
  match r with
  | Ok (oi, s') => wv input s' /\ (lo' <= pos s')%nat /\ itemb input oi
  | _ => False
  end.

Ltac facts :=
  repeat match goal with
  | WV : wv ?i ?s |- _ =>
    lazymatch goal with
    | _ : bnd i (pos s) |- _ => fail
    | _ => pose proof (wv_bnd i s WV); pose proof (wf_pos_le i s (wv_wf i s WV))
    end
  end.

Ltac tku HA :=
  match goal with
  | WV : wv ?input ?s |- context [take_until ?input ?term ?start ?s] =>
    let e := fresh "e" in let t := fresh "t" in let s' := fresh "s" in
    let Q := fresh "Q" in let WV' := fresh "WV" in let P := fresh "P" in let F := fresh "F" in
    destruct (take_until_valid input term start s HA WV ltac:(assumption) ltac:(lia)) as (e & t & s' & Q & WV' & P & -> & F);
    rewrite Q; clear Q; cbn beta iota
  end.

Ltac tkw HA :=
  match goal with
  | WV : wv ?input ?s |- context [take_while ?input ?keep ?start ?s] =>
    let e := fresh "e" in let t := fresh "t" in let s' := fresh "s" in
    let Q := fresh "Q" in let WV' := fresh "WV" in let P := fresh "P" in let F := fresh "F" in
    destruct (take_while_valid input keep start s HA WV ltac:(assumption) ltac:(lia)) as (e & t & s' & Q & WV' & P & -> & F);
    rewrite Q; clear Q; cbn beta iota
  end.

Ltac slc a b :=
  match goal with
  | |- context [slice ?input a b] =>
    let t := fresh "t" in let Q := fresh "Q" in
    destruct (slice_bnd input a b ltac:(assumption) ltac:(assumption) ltac:(lia) ltac:(lia)) as (t & Q);
    rewrite Q; clear Q; cbn beta iota
  end.

Ltac finv := cbn; spl; auto; try lia.

Lemma line_comment_v : forall input start s,
  wv input s -> bnd input start -> (start <= pos s)%nat -> postv input (pos s) (line_comment input start s).
Proof.
  intros input start s WV Bs Hs. unfold line_comment. tku (eqb_ascii 10 ltac:(lia)). facts.
  destruct (starts_with _ _); finv.
Qed.

Lemma shebang_line_v : forall input start s,
  wv input s -> bnd input start -> (start <= pos s)%nat -> postv input (pos s) (shebang_line input start s).
Proof.
  intros input start s WV Bs Hs. unfold shebang_line. tku (eqb_ascii 10 ltac:(lia)). facts.
  destruct (starts_with _ _); finv.
Qed.

Lemma wv_bump__head : forall input s,
  wv input s -> match rest s with [] => True | b :: _ => (b <? 128) = true end ->
  wv input (bump_ s) /\ (pos s <= pos (bump_ s))%nat /\ (rest s <> [] -> pos (bump_ s) = S (pos s)).
Proof.
  intros input s WV H. destruct (rest s) as [|b r] eqn:R.
  - unfold bump_. rewrite R. spl; auto. intro C; exfalso; apply C; reflexivity.
  - destruct (wv_bump_ input s b WV) as (X & Y); auto.
    { unfold lookahead. rewrite R. reflexivity. }
    spl; auto; lia.
Qed.

Lemma block_loop_v : forall fuel input start s,
  wv input s -> bnd input start -> (start <= pos s)%nat -> (length input < fuel + pos s)%nat ->
  postv input (pos s) (block_loop fuel input start s).
Proof.
  induction fuel as [|fuel IH]; intros input start s WV Bs Hs Hf.
  - facts. lia.
  - cbn [block_loop]. tku (eqb_ascii 42 ltac:(lia)).
    destruct (wv_bump__head input s0 WV0) as (WV2 & P2 & P2').
    { destruct (rest s0); auto. apply (eqb_ascii 42 ltac:(lia)). exact F. }
    destruct (lookahead (bump_ s0)) as [b|] eqn:L.
    + destruct (b =? 47) eqn:E.
      * apply N.eqb_eq in E. subst b.
        destruct (wv_bump_ input _ 47 WV2 L eq_refl) as (WV3 & P3). facts.
        destruct (_ && _); finv.
      * assert (PS : pos (bump_ s0) = S (pos s0)).
        { apply P2'. intro C. unfold lookahead, bump_ in L. rewrite C in L. rewrite C in L. discriminate. }
        specialize (IH input start (bump_ s0) WV2 Bs ltac:(lia) ltac:(lia)).
        destruct (block_loop fuel input start (bump_ s0)) as [[oi s']| |]; cbn in *; auto.
        destruct IH as (A & B & C). spl; auto; lia.
    + destruct (wv_skip_to_end input _ WV2) as (WV3 & P3). facts. finv.
Qed.

Lemma block_comment_v : forall input start s,
  wv input s -> bnd input start -> (start <= pos s)%nat -> lookahead s = Some 42 ->
  postv input (pos s) (block_comment input start s).
Proof.
  intros input start s WV Bs Hs L. unfold block_comment.
  destruct (wv_bump_ input s 42 WV L eq_refl) as (WV2 & P2).
  pose proof (wf_len _ _ (wv_wf _ _ WV)) as Ln.
  pose proof (block_loop_v (S (length (rest s))) input start (bump_ s) WV2 Bs ltac:(lia) ltac:(lia)) as B.
  destruct (block_loop _ _ _ _) as [[oi s']| |]; cbn in *; auto.
  destruct B as (A & B & C). spl; auto; lia.
Qed.

Lemma operator_v : forall ob input start s,
  wv input s -> bnd input start -> (start <= pos s)%nat -> postv input (pos s) (operator ob input start s).
Proof.
  intros ob input start s WV Bs Hs. unfold operator. tkw is_operator_byte_ascii. facts.
  repeat (match goal with |- context [if list_eqb ?a ?b then _ else _] => destruct (list_eqb a b) end; try solve [finv]).
  tkw is_ident_start_ascii. tkw is_operator_byte_ascii. facts. destruct ob; finv.
Qed.

Lemma identifier_v : forall input start s,
  wv input s -> bnd input start -> (start <= pos s)%nat -> postv input (pos s) (identifier input start s).
Proof.
  intros input start s WV Bs Hs. unfold identifier. tkw is_ident_continue_ascii. facts.
  destruct (test_lookahead (N.eqb 33) s0) eqn:TL.
  - assert (L : lookahead s0 = Some 33).
    { unfold test_lookahead in TL. unfold lookahead. destruct (rest s0) as [|b r]; [discriminate|].
      apply N.eqb_eq in TL. subst. reflexivity. }
    destruct (wv_bump_ input s0 33 WV0 L eq_refl) as (WV2 & P2). facts.
    rewrite <- P2. slc start (pos (bump_ s0)). finv.
  - finv.
Qed.

Lemma simple_escape_ascii : forall b v, simple_escape b = Some v -> (b <? 128) = true.
Proof.
  intros b v H. unfold simple_escape in H.
  repeat (match type of H with (if ?c then _ else _) = _ => destruct c eqn:? end;
          try (match goal with E : (b =? _) = true |- _ => apply N.eqb_eq in E; subst; reflexivity end)).
  discriminate.
Qed.

Lemma wv_of_ascii : forall input s1 b,
  wf input s1 -> utf8_valid (b :: rest s1) = true -> Forall (errb input) (errs s1) -> (b <? 128) = true ->
  wv input s1.
Proof.
  intros input s1 b W V E A. split; [exact W | split; [|exact E]]. eapply valid_ascii_tail; eauto.
Qed.

Lemma escape_code_v : forall input start s,
  wv input s -> bnd input start -> (start <= pos s)%nat ->
  exists c s', escape_code true start s = Ok (inr c, s') /\ wv input s' /\ (pos s <= pos s')%nat.
Proof.
  intros input start s WV Bs Hs. unfold escape_code. facts.
  destruct (bump s) as [[[e b] s1]|] eqn:B.
  - destruct (wv_bump_any _ _ _ _ _ WV B) as (W1 & -> & P1 & V1 & E1 & R1).
    assert (Er : Forall (errb input) (errs s1)) by (rewrite E1; apply WV).
    destruct (simple_escape b) as [v|] eqn:SE.
    + exists v, s1. spl; auto; try lia. eapply wv_of_ascii; eauto. eapply simple_escape_ascii; eauto.
    + destruct (restore_and_skip_valid input s1 b W1 V1 Er) as (c & s2 & Q & WV2 & P2). rewrite Q. cbn.
      exists c, (push_err start (pos s) (EUnexpectedEscapeCode c) s2). facts.
      spl; auto; try (cbn; lia). apply wv_push; auto; lia.
  - exists 0, (push_err (pos s) (pos s) EUnexpectedEof s). spl; auto. apply wv_push; auto; lia.
Qed.

Lemma string_loop_v : forall fuel input start cs s,
  wv input s -> bnd input start -> bnd input cs -> (start <= cs)%nat -> (cs <= pos s)%nat ->
  (length input < fuel + pos s)%nat ->
  postv input (pos s) (string_loop fuel true input start cs s).
Proof.
  induction fuel as [|fuel IH]; intros input start cs s WV Bs Bc Hs Hc Hf.
  - facts. lia.
  - cbn [string_loop]. facts. tku is_quote_or_backslash_ascii. facts.
    destruct (bump s0) as [[[p b] s2]|] eqn:B.
    + destruct (wv_bump_any _ _ _ _ _ WV0 B) as (W2 & -> & P2 & V2 & E2 & R2).
      assert (Fb : is_quote_or_backslash b = true) by (rewrite R2 in F; exact F).
      assert (WV2 : wv input s2).
      { eapply wv_of_ascii; eauto; [rewrite E2; apply WV0 | apply is_quote_or_backslash_ascii; exact Fb]. }
      facts.
      destruct (b =? 92) eqn:E92.
      * destruct (escape_code_v input (pos s0) s2 WV2 ltac:(assumption) ltac:(lia)) as (c & s3 & Q & WV3 & P3).
        rewrite Q. cbn beta iota.
        specialize (IH input start cs s3 WV3 Bs Bc Hs ltac:(lia) ltac:(lia)).
        destruct (string_loop fuel true input start cs s3) as [[oi s']| |]; cbn in *; auto.
        destruct IH as (A & B' & C). spl; auto; lia.
      * destruct (b =? 34) eqn:E34.
        -- replace (pos s2 - 1)%nat with (pos s0) by lia. slc cs (pos s0). finv.
        -- unfold is_quote_or_backslash in Fb. rewrite E92, E34 in Fb. discriminate.
    + slc cs (pos s0). cbn. spl; auto; try (cbn; lia). apply wv_push; auto; lia.
Qed.

Lemma string_literal_v : forall input start s,
  wv input s -> bnd input start -> (start <= pos s)%nat -> postv input (pos s) (string_literal true input start s).
Proof.
  intros input start s WV Bs Hs. unfold string_literal.
  pose proof (wf_len _ _ (wv_wf _ _ WV)). facts. apply string_loop_v; auto; lia.
Qed.

(* a suffix of a valid string that starts with a non-continuation byte is valid *)
Lemma valid_suffix : forall n l k, (length l <= n)%nat -> utf8_valid l = true ->
  match skipn k l with [] => True | b :: _ => is_boundary_byte b = true end ->
  utf8_valid (skipn k l) = true.
Proof.
  induction n as [|n IH]; intros l k L V H.
  - destruct l; [|cbn in L; lia]. destruct k; reflexivity.
  - destruct k as [|k]; [exact V|]. destruct l as [|b t]; [reflexivity|].
    cbn [skipn] in *. cbn [length] in L.
    destruct (b <? 128) eqn:A.
    + apply IH; [lia | eapply valid_ascii_tail; eauto | exact H].
    + destruct (valid_lead b t V A) as [b1 t' -> L1 L2 C1 T | b1 b2 t' -> L1 L2 C1 C2 T | b1 b2 b3 t' -> L1 L2 C1 C2 C3 T].
      * destruct k as [|k]; cbn [skipn] in *.
        { rewrite (cont_not_boundary b1 C1) in H. discriminate. }
        apply IH; [cbn [length] in L; lia | exact T | exact H].
      * pose proof (second_byte_cont3 b b1 C1) as C1'.
        destruct k as [|[|k]]; cbn [skipn] in *.
        { rewrite (cont_not_boundary b1 C1') in H. discriminate. }
        { rewrite (cont_not_boundary b2 C2) in H. discriminate. }
        apply IH; [cbn [length] in L; lia | exact T | exact H].
      * pose proof (second_byte_cont4 b b1 C1) as C1'.
        destruct k as [|[|[|k]]]; cbn [skipn] in *.
        { rewrite (cont_not_boundary b1 C1') in H. discriminate. }
        { rewrite (cont_not_boundary b2 C2) in H. discriminate. }
        { rewrite (cont_not_boundary b3 C3) in H. discriminate. }
        apply IH; [cbn [length] in L; lia | exact T | exact H].
Qed.

Lemma bnd_skipn_head : forall input p r,
  r = skipn p input -> (p <= length input)%nat ->
  match r with [] => True | b :: _ => is_boundary_byte b = true end -> bnd input p.
Proof.
  intros input p r H Hp Hh.
  apply (wf_bnd_head input (mkSt p r [])); cbn; auto. unfold wf; cbn. spl; auto.
Qed.

Lemma slice_ok_bnd : forall input a b, bnd input a -> bnd input b -> (a <= b)%nat -> (b <= length input)%nat ->
  slice_ok input a b = true.
Proof.
  intros input a b Ba Bb Hab Hb. unfold slice_ok. unfold bnd in *. rewrite Ba, Bb.
  apply Nat.leb_le in Hab. apply Nat.leb_le in Hb. rewrite Hab, Hb. reflexivity.
Qed.

Lemma raw_delims_v : forall r n p d p' r',
  utf8_valid r = true -> raw_delims n p r = Some (d, p', r') -> utf8_valid r' = true.
Proof.
  induction r as [|b r IH]; intros n p d p' r' V H; cbn in H.
  - injection H as <- <- <-. reflexivity.
  - destruct (b =? 35) eqn:E35.
    + apply N.eqb_eq in E35. subst b. eapply IH; [|exact H]. eapply valid_ascii_tail; eauto.
    + destruct (b =? 34) eqn:E34; [|discriminate]. apply N.eqb_eq in E34. subst b.
      injection H as <- <- <-. eapply valid_ascii_tail; eauto.
Qed.

Definition raw_invv (input : list byte) (cs delims : nat) (found : option nat) (p : nat) (r : list byte) : Prop :=
  match found with
  | Some k => (k <= delims /\ k + 1 + cs <= p)%nat /\ utf8_valid r = true /\ bnd input (p - k - 1)
  | None => (cs <= p)%nat
  end.

Lemma raw_body_v : forall input cs delims,
  utf8_valid input = true -> bnd input cs ->
  forall r found p, r = skipn p input -> (p <= length input)%nat -> raw_invv input cs delims found p r ->
  match raw_body input cs delims found p r with
  | RClosed e r' => utf8_valid r' = true /\ bnd input (e - (delims + 1))
  | REof e => True
  | RPanic => False
  end.
Proof.
  intros input cs delims Vin Bc. induction r as [|b r IH]; intros found p H Hp Inv.
  - assert (E : p = length input).
    { symmetry in H. apply skipn_nil_len in H. lia. }
    assert (SO : (cs <= p)%nat -> slice_ok input cs p = true).
    { intro Hc. apply slice_ok_bnd; auto; try lia. rewrite E. apply bnd_len. }
    destruct found as [k|]; cbn [raw_body]; unfold raw_invv in Inv.
    + destruct Inv as ((I1 & I2) & I3 & I4).
      destruct (Nat.eqb k delims) eqn:K.
      * apply Nat.eqb_eq in K. subst k. split; auto. replace (p - (delims + 1))%nat with (p - delims - 1)%nat by lia. exact I4.
      * rewrite SO by lia. exact I.
    + rewrite SO by lia. exact I.
  - pose proof H as H'. symmetry in H'. pose proof (skipn_cons_inv _ _ _ _ _ H') as [H1 H2].
    assert (Bp : is_boundary_byte b = true -> bnd input p).
    { intro Hb. apply (bnd_skipn_head input p (b :: r)); auto. }
    assert (Vr : is_boundary_byte b = true -> utf8_valid (b :: r) = true).
    { intro Hb. rewrite H. apply (valid_suffix (length input)); auto. rewrite <- H. exact Hb. }
    destruct found as [k|]; cbn [raw_body]; unfold raw_invv in Inv.
    + destruct Inv as ((I1 & I2) & I3 & I4).
      destruct (Nat.eqb k delims) eqn:K.
      * apply Nat.eqb_eq in K. subst k. split; auto. replace (p - (delims + 1))%nat with (p - delims - 1)%nat by lia. exact I4.
      * apply Nat.eqb_neq in K.
        destruct (b =? 35) eqn:E35.
        { apply N.eqb_eq in E35. subst b. apply IH; auto; try lia. unfold raw_invv. spl; try lia.
          - eapply valid_ascii_tail; eauto.
          - replace (S p - S k - 1)%nat with (p - k - 1)%nat by lia. exact I4. }
        destruct (b =? 34) eqn:E34.
        { apply N.eqb_eq in E34. subst b. apply IH; auto; try lia. unfold raw_invv. spl; try lia.
          - eapply valid_ascii_tail; eauto.
          - replace (S p - 0 - 1)%nat with p by lia. apply Bp. reflexivity. }
        apply IH; auto; try lia. unfold raw_invv. lia.
    + destruct (b =? 34) eqn:E34.
      * apply N.eqb_eq in E34. subst b.
        rewrite (slice_ok_bnd input cs p Bc (Bp eq_refl)) by lia.
        apply IH; auto; try lia. unfold raw_invv. spl; try lia.
        -- eapply valid_ascii_tail; [apply Vr|]; reflexivity.
        -- replace (S p - 0 - 1)%nat with p by lia. apply Bp. reflexivity.
      * apply IH; auto; try lia. unfold raw_invv. lia.
Qed.

Lemma raw_string_literal_v : forall input start s,
  utf8_valid input = true ->
  wv input s -> bnd input start -> (start <= pos s)%nat -> postv input (pos s) (raw_string_literal input start s).
Proof.
  intros input start s Vin WV Bs Hs. unfold raw_string_literal.
  pose proof WV as (W & V & E). pose proof W as (H & Hp & He).
  destruct (raw_delims 0 (pos s) (rest s)) as [[[delims cs] r]|] eqn:D.
  - destruct (raw_delims_spec input (rest s) 0%nat (pos s) delims cs r H Hp D) as (A & B & C).
    pose proof (raw_delims_v _ _ _ _ _ _ V D) as Vr.
    assert (Bc : bnd input cs).
    { apply (bnd_skipn_head input cs r); auto. destruct r as [|x r']; auto. eapply valid_head_boundary; eauto. }
    pose proof (raw_body_spec input cs delims r None cs A C ltac:(cbn; lia)) as R.
    pose proof (raw_body_v input cs delims Vin Bc r None cs A C ltac:(unfold raw_invv; lia)) as R'.
    destruct (raw_body input cs delims None cs r) as [e r'|e|].
    + destruct R as (R1 & R2 & R3 & R4). destruct R' as (V' & Bq).
      assert (WV' : wv input (mkSt e r' (errs s))).
      { split; [unfold wf; cbn; auto | split; [exact V' | exact E]]. }
      facts. cbn [pos] in *.
      slc cs (e - (delims + 1))%nat. cbn. spl; auto; lia.
    + destruct R as (R1 & R2 & R3). subst e.
      pose proof (bnd_len input) as Bl.
      slc cs (length input). cbn.
      assert (WV' : wv input (mkSt (length input) [] (errs s))).
      { split; [unfold wf; cbn; spl; auto; symmetry; apply skipn_all | split; [reflexivity | exact E]]. }
      spl; auto; try lia. apply wv_push; auto; lia.
    + contradiction.
  - destruct (wv_skip_to_end input s WV) as (WV2 & P2). finv.
Qed.

Lemma eof_char_v : forall input s, wv input s -> postv input (pos s) (eof_char s).
Proof.
  intros input s WV. unfold eof_char. facts. cbn. spl; auto. apply wv_push; auto; lia.
Qed.

Lemma char_close_v : forall input start c s,
  wv input s -> bnd input start -> (start <= pos s)%nat ->
  postv input (pos s) (char_close true start (inr c) s).
Proof.
  intros input start c s WV Bs Hs. unfold char_close. facts.
  destruct (bump s) as [[[e b] s1]|] eqn:B.
  - destruct (wv_bump_any _ _ _ _ _ WV B) as (W1 & -> & P1 & V1 & E1 & R1).
    assert (Er : Forall (errb input) (errs s1)) by (rewrite E1; apply WV).
    destruct (b =? 39) eqn:E39.
    + apply N.eqb_eq in E39. subst b.
      assert (WV1 : wv input s1) by (eapply wv_of_ascii; eauto). facts. finv.
    + cbn [finish_char].
      destruct (restore_and_skip_valid input s1 b W1 V1 Er) as (c' & s2 & Q & WV2 & P2). rewrite Q. cbn.
      facts. spl; auto; try lia. apply wv_push; auto; lia.
  - apply eof_char_v; auto.
Qed.

Lemma char_literal_v : forall input start s,
  wv input s -> bnd input start -> (start <= pos s)%nat ->
  postv input (pos s) (char_literal true start s).
Proof.
  intros input start s WV Bs Hs. unfold char_literal. facts.
  destruct (bump s) as [[[p b] s1]|] eqn:B.
  - destruct (wv_bump_any _ _ _ _ _ WV B) as (W1 & -> & P1 & V1 & E1 & R1).
    assert (Er : Forall (errb input) (errs s1)) by (rewrite E1; apply WV).
    destruct (b =? 92) eqn:E92.
    + apply N.eqb_eq in E92. subst b.
      assert (WV1 : wv input s1) by (eapply wv_of_ascii; eauto).
      destruct (escape_code_v input (pos s) s1 WV1 ltac:(assumption) ltac:(lia)) as (c & s2 & Q & WV2 & P2).
      rewrite Q. cbn beta iota.
      pose proof (char_close_v input start c s2 WV2 Bs ltac:(lia)) as C.
      destruct (char_close true start (inr c) s2) as [[oi s']| |]; cbn in *; auto.
      destruct C as (A & B' & C). spl; auto; lia.
    + destruct (b =? 39) eqn:E39.
      * apply N.eqb_eq in E39. subst b.
        assert (WV1 : wv input s1) by (eapply wv_of_ascii; eauto). facts.
        cbn. spl; auto; try lia. apply wv_push; auto; lia.
      * destruct (restore_and_skip_valid input s1 b W1 V1 Er) as (c & s2 & Q & WV2 & P2). rewrite Q. cbn beta iota.
        pose proof (char_close_v input start c s2 WV2 Bs ltac:(lia)) as C.
        destruct (char_close true start (inr c) s2) as [[oi s']| |]; cbn in *; auto.
        destruct C as (A & B' & C). spl; auto; lia.
  - pose proof (eof_char_v input s WV) as C. exact C.
Qed.

Lemma uis_v : forall input a s,
  wv input s -> bnd input a -> (a <= pos s)%nat ->
  exists s', unexpected_ident_start true a s = Ok s' /\ wv input s' /\ pos s' = pos s.
Proof.
  intros input a s WV Ba Ha. unfold unexpected_ident_start. facts.
  destruct (rest s) as [|b r] eqn:R; [exists s; auto|].
  destruct (is_ident_start b) eqn:I; [|exists s; auto].
  pose proof (is_ident_start_ascii b I) as A.
  assert (Q : restore_char true b (b :: r) = Ok b).
  { unfold restore_char. cbn [bytes_prefix]. rewrite (ascii_boundary_byte b A). cbn [app length repeat Nat.sub].
    cbn [utf8_valid]. rewrite A. cbn. rewrite A. reflexivity. }
  rewrite Q. eexists. split; [reflexivity|]. split; [|reflexivity]. apply wv_push; auto; lia.
Qed.

Lemma int_token_v : forall input lo t a b s,
  wv input s -> bnd input a -> bnd input b -> (a <= b)%nat -> (b <= pos s)%nat ->
  postv input lo (int_token t a b s) \/ (lo > pos s)%nat.
Proof.
  intros input lo t a b s WV Ba Bb H1 H2. destruct (Nat.le_gt_cases lo (pos s)) as [L | L]; [left | right; lia].
  unfold int_token. facts. destruct (parse_i64 t); cbn; spl; auto. apply wv_push; auto; lia.
Qed.

Ltac uisv :=
  match goal with
  | WV : wv ?input ?s |- context [unexpected_ident_start true ?a ?s] =>
    let s' := fresh "s" in let Q := fresh "Q" in let WV' := fresh "WV" in let P := fresh "P" in
    destruct (uis_v input a s WV ltac:(assumption) ltac:(lia)) as (s' & Q & WV' & P);
    rewrite Q; clear Q; cbn beta iota
  end.

Ltac intv lo :=
  match goal with
  | WV : wv ?input ?s |- context [int_token ?t ?a ?b ?s] =>
    let IT := fresh "IT" in
    destruct (int_token_v input lo t a b s WV ltac:(assumption) ltac:(assumption) ltac:(lia) ltac:(lia)) as [IT | IT]; [|lia];
    destruct (int_token t a b s) as [[? ?]| |]; cbn in *; auto;
    destruct IT as (? & ? & ?); spl; auto; lia
  end.

Lemma numeric_literal_v : forall sp input start s,
  wv input s -> bnd input start -> (start <= pos s)%nat ->
  postv input (pos s) (numeric_literal true sp input start s).
Proof.
  intros sp input start s WV Bs Hs. unfold numeric_literal. tkw is_digit_ascii. facts.
  destruct (lookahead s0) as [b|] eqn:LA.
  - destruct (b =? 46) eqn:E46.
    { apply N.eqb_eq in E46. subst b. destruct (wv_bump_ input s0 46 WV0 LA eq_refl) as (WV2 & P2). facts.
      tkw is_digit_ascii. facts. uisv. facts. finv. }
    destruct (b =? 120) eqn:E120.
    { apply N.eqb_eq in E120. subst b. destruct (wv_bump_ input s0 120 WV0 LA eq_refl) as (WV2 & P2). facts.
      tkw is_hex_ascii. facts.
      destruct (_ || _).
      - uisv. facts.
        destruct t0.
        + cbn. spl; auto; try lia. apply wv_push; auto; lia.
        + destruct (i64_from_hex _ _ _); cbn; spl; auto; try lia. apply wv_push; auto; lia.
      - cbn. spl; auto; try lia. apply wv_push; auto; lia. }
    destruct (b =? 98) eqn:E98.
    { apply N.eqb_eq in E98. subst b. destruct (wv_bump_ input s0 98 WV0 LA eq_refl) as (WV2 & P2). facts.
      uisv. facts.
      destruct (parse_u8 t); cbn; spl; auto; try lia. apply wv_push; auto; lia. }
    destruct (is_ident_start b).
    { uisv. facts. destruct sp; intv (pos s). }
    intv (pos s).
  - intv (pos s).
Qed.

(* ------------------------------------------------------------------------------------------ *)
(* one iteration of Tokenizer::next, the whole stream                                          *)
(* ------------------------------------------------------------------------------------------ *)

Definition stepv (input : list byte) (s : st) (r : res (option item * st)) : Prop :=
  match r with
  | Ok (oi, s') => wv input s' /\ (pos s < pos s')%nat /\ itemb input oi
  | _ => False
  end.

Lemma postv_stepv : forall input s s1 r, pos s1 = S (pos s) -> postv input (pos s1) r -> stepv input s r.
Proof.
  intros input s s1 r P H. destruct r as [[oi s']| |]; cbn in *; auto.
  destruct H as (A & B & C). spl; auto; lia.
Qed.

Lemma test_lookahead_eqb : forall c s, test_lookahead (N.eqb c) s = true -> lookahead s = Some c.
Proof.
  intros c s H. unfold test_lookahead in H. unfold lookahead. destruct (rest s) as [|b r]; [discriminate|].
  apply N.eqb_eq in H. subst. reflexivity.
Qed.

Lemma hi_eqb : forall ch, (ch <? 128) = false -> forall k, k < 128 -> (ch =? k) = false.
Proof. intros ch A k Hk. apply N.ltb_ge in A. apply N.eqb_neq. lia. Qed.

Lemma hi_pred : forall f ch, ascii_pred f -> (ch <? 128) = false -> f ch = false.
Proof. intros f ch HA A. destruct (f ch) eqn:E; [|reflexivity]. apply HA in E. congruence. Qed.

Lemma step_v : forall sp ob input s,
  utf8_valid input = true -> wv input s -> rest s <> [] -> stepv input s (step true sp ob input s).
Proof.
  intros sp ob input s Vin WV NE. unfold step. facts.
  destruct (bump s) as [[[start ch] s1]|] eqn:B.
  2:{ unfold bump in B. destruct (rest s); [contradiction | discriminate]. }
  destruct (wv_bump_any _ _ _ _ _ WV B) as (W1 & -> & P1 & V1 & E1 & R1).
  assert (Er : Forall (errb input) (errs s1)) by (rewrite E1; apply WV).
  destruct (ch <? 128) eqn:A.
  - assert (WV1 : wv input s1) by (eapply wv_of_ascii; eauto). facts.
    assert (Single : forall k, stepv input s (single k (pos s) s1)).
    { intro k. unfold single. cbn. spl; auto; lia. }
    repeat (match goal with |- stepv _ _ (if ?c then _ else _) => destruct c eqn:? end;
            try solve [apply Single]).
    + apply (postv_stepv input s s1); auto. apply raw_string_literal_v; auto; lia.
    + apply (postv_stepv input s s1); auto. apply string_literal_v; auto; lia.
    + apply (postv_stepv input s s1); auto. apply char_literal_v; auto; lia.
    + apply (postv_stepv input s s1); auto. apply line_comment_v; auto; lia.
    + apply (postv_stepv input s s1); auto. apply block_comment_v; auto; try lia.
      match goal with H : (_ && test_lookahead (N.eqb 42) s1) = true |- _ =>
        apply andb_true_iff in H; destruct H as [_ H]; apply test_lookahead_eqb; exact H end.
    + apply (postv_stepv input s s1); auto. apply shebang_line_v; auto; lia.
    + match goal with H : (_ && test_lookahead (N.eqb 91) s1) = true |- _ =>
        apply andb_true_iff in H; destruct H as [_ H]; apply test_lookahead_eqb in H;
        destruct (wv_bump_ input s1 91 WV1 H eq_refl) as (WV2 & P2) end.
      facts. unfold single. cbn. spl; auto; lia.
    + apply (postv_stepv input s s1); auto. apply identifier_v; auto; lia.
    + apply (postv_stepv input s s1); auto. apply numeric_literal_v; auto; lia.
    + apply (postv_stepv input s s1); auto. apply operator_v; auto; lia.
    + cbn. spl; auto; lia.
    + destruct (restore_and_skip_valid input s1 ch W1 V1 Er) as (c & s2 & Q & WV2 & P2). rewrite Q. cbn.
      facts. spl; auto; try lia. apply wv_push; auto; lia.
  - (* a non-ASCII first byte: every test fails, the fall-back consumes the whole character *)
    rewrite !(hi_eqb ch A) by lia.
    rewrite (hi_pred is_ident_start ch is_ident_start_ascii A), (hi_pred is_digit ch is_digit_ascii A),
            (hi_pred is_operator_byte ch is_operator_byte_ascii A), (valid_head_not_ws ch (rest s1) V1 A).
    cbn [andb orb]. cbv beta iota.
    destruct (restore_and_skip_valid input s1 ch W1 V1 Er) as (c & s2 & Q & WV2 & P2). rewrite Q. cbn.
    facts. spl; auto; try lia. apply wv_push; auto; lia.
Qed.

Definition allv (input : list byte) (r : res (list item * st)) : Prop :=
  match r with
  | Ok (items, s') =>
    Forall (fun i => bnd input (fst (span i)) /\ bnd input (snd (span i))) items /\ wv input s'
  | _ => False
  end.

Lemma lex_all_v : forall fuel sp ob input s acc,
  utf8_valid input = true -> wv input s ->
  Forall (fun i => bnd input (fst (span i)) /\ bnd input (snd (span i))) acc ->
  (length input < fuel + pos s)%nat ->
  allv input (lex_all fuel true sp ob input s acc).
Proof.
  induction fuel as [|fuel IH]; intros sp ob input s acc Vin WV R Hf.
  - facts. lia.
  - cbn [lex_all]. facts.
    destruct (rest s) as [|b r] eqn:E.
    + cbn. split; auto. apply Forall_app. split; [apply Forall_rev; exact R | constructor; [cbn; auto | constructor]].
    + pose proof (step_v sp ob input s Vin WV ltac:(rewrite E; discriminate)) as S.
      destruct (step true sp ob input s) as [[oi s']| |]; cbn in *; auto.
      destruct S as (WV' & P' & I').
      apply IH; auto; try lia.
      destruct oi as [i|]; auto.
Qed.

(* In the fixed tree no step panics on valid UTF-8 input ... *)
Theorem lex_no_panic_fixed : forall sp ob input,
  utf8_valid input = true -> exists r, lex true sp ob input = Ok r.
Proof.
  intros sp ob input V. unfold lex.
  pose proof (lex_all_v (S (length input)) sp ob input (init input) [] V (wv_init input V) ltac:(constructor) ltac:(cbn; lia)) as H.
  destruct (lex_all _ _ _ _ _ _) as [[items s]| |]; cbn in *; try contradiction.
  eexists; reflexivity.
Qed.

(* ... and every span end-point (tokens, fatal errors, side errors) is a character boundary. *)
Theorem lex_spans_on_boundaries_fixed : forall sp ob input items errs,
  utf8_valid input = true -> lex true sp ob input = Ok (items, errs) ->
  Forall (fun i => span_on_boundaries input (fst (span i)) (snd (span i))) items /\
  Forall (fun e => span_on_boundaries input (e_start e) (e_end e)) errs.
Proof.
  intros sp ob input items errs V H. unfold lex in H.
  pose proof (lex_all_v (S (length input)) sp ob input (init input) [] V (wv_init input V) ltac:(constructor) ltac:(cbn; lia)) as L.
  destruct (lex_all _ _ _ _ _ _) as [[items' s]| |]; cbn in *; try contradiction.
  injection H as <- <-. destruct L as (A & (_ & _ & B)). split; [exact A|].
  apply Forall_rev. exact B.
Qed.

Corollary lex_no_panic_full_fixed : forall sp ob, lex_no_panic_full_stmt true sp ob.
Proof. intros sp ob input V. apply lex_no_panic_fixed; exact V. Qed.

Corollary lex_spans_on_boundaries_full_fixed : forall sp ob, lex_spans_on_boundaries_full_stmt true sp ob.
Proof. intros sp ob input items errs V H. eapply lex_spans_on_boundaries_fixed; eauto. Qed.
