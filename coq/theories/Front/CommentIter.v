(* Byte-level model of the comment scanners of base/src/source.rs:
     impl Iterator for CommentIter            (source.rs:349-383)  -> [next]
     impl DoubleEndedIterator for CommentIter (source.rs:385-417)  -> [next_back]
   Definitions only (executable, extracted by coq/extract/c10); proofs are in CommentIterProofs.v.

   The Rust iterator owns a string slice [src]; every call replaces it by a sub-slice and
   returns [Some item] or [None].  The model makes the three outcomes explicit:
     Yield item rest | Stop rest | Panic
   [Panic] is produced exactly where the Rust code slices out of range (or, for the usize
   subtraction in next_back, underflows: a panic in debug builds and an out-of-range slice in
   release builds).

   Bytes are [N].  `char::is_whitespace` is modelled for ASCII (9-13 and 32); the multi-byte
   Unicode blanks are not modelled (the tokenizer rejects them outside strings and comments).

   The parameter [guard] selects between the code as it is (guard = false) and the code with the
   end-of-file repair of fixes/C10-commentiter-eof.patch (guard = true): a `//` comment that is
   not followed by a newline is yielded and the iterator becomes empty, instead of slicing
   `&src[1..]` of the empty string.  The correspondence check determines which variant the
   implementation follows. *)
From Coq Require Import List NArith Bool Arith.
Import ListNotations.

Definition bytes := list N.

Definition NL : N := 10.
Definition CR : N := 13.
Definition SLASH : N := 47.
Definition STAR : N := 42.

(* char::is_whitespace restricted to ASCII *)
Definition is_ws (b : N) : bool := (N.leb 9 b && N.leb b 13) || N.eqb b 32.
(* the trim predicate |c| c.is_whitespace() && c != '\n'  (source.rs:357, 393) *)
Definition is_blank (b : N) : bool := is_ws b && negb (N.eqb b NL).

Fixpoint trim_start (s : bytes) : bytes :=
  match s with
  | b :: r => if is_blank b then trim_start r else s
  | [] => []
  end.

Fixpoint trim_end (s : bytes) : bytes :=
  match s with
  | [] => []
  | b :: r => match trim_end r with
              | [] => if is_blank b then [] else [b]
              | r' => b :: r'
              end
  end.

(* str::trim_start (all white space) *)
Fixpoint trim_start_ws (s : bytes) : bytes :=
  match s with
  | b :: r => if is_ws b then trim_start_ws r else s
  | [] => []
  end.

Fixpoint starts_with (p s : bytes) : bool :=
  match p, s with
  | [], _ => true
  | a :: p', b :: s' => N.eqb a b && starts_with p' s'
  | _ :: _, [] => false
  end.

Definition ends_with (p s : bytes) : bool := starts_with (rev p) (rev s).

(* str::find / str::rfind for a non-empty pattern: byte offset of the first / last occurrence *)
Fixpoint find_sub (p s : bytes) : option nat :=
  match s with
  | [] => None
  | _ :: r => if starts_with p s then Some 0 else option_map S (find_sub p r)
  end.

Fixpoint rfind_sub (p s : bytes) : option nat :=
  match s with
  | [] => None
  | _ :: r => match rfind_sub p r with
              | Some i => Some (S i)
              | None => if starts_with p s then Some 0 else None
              end
  end.

(* the prefix before the first '\n' *)
Fixpoint until_nl (s : bytes) : bytes :=
  match s with
  | [] => []
  | b :: r => if N.eqb b NL then [] else b :: until_nl r
  end.

Fixpoint has_nl (s : bytes) : bool :=
  match s with [] => false | b :: r => N.eqb b NL || has_nl r end.

(* strip one trailing '\r' *)
Fixpoint strip_cr (s : bytes) : bytes :=
  match s with
  | [] => []
  | [b] => if N.eqb b CR then [] else [b]
  | b :: r => b :: strip_cr r
  end.

(* str::lines().next() of a non-empty string: up to the first '\n'; the '\r' of a "\r\n" ending
   is removed; a last line without '\n' is returned as it is. *)
Definition first_line (s : bytes) : bytes :=
  if has_nl s then strip_cr (until_nl s) else s.

(* str::lines().next_back(): [None] for the empty string.  A final '\n' belongs to the last
   line (split_inclusive), whose "\n" / "\r\n" ending is removed. *)
Definition last_line (s : bytes) : option bytes :=
  match rev s with
  | [] => None
  | b :: r => if N.eqb b NL then Some (strip_cr (rev (until_nl r)))
              else Some (rev (until_nl (b :: r)))
  end.

Inductive step :=
| Yield (item rest : bytes)
| Stop (rest : bytes)
| Panic.

Definition SS : bytes := [SLASH; SLASH].
Definition SSS : bytes := [SLASH; SLASH; SLASH].
Definition OPEN : bytes := [SLASH; STAR].
Definition CLOSE : bytes := [STAR; SLASH].

Definition is_line_comment (s : bytes) : bool := starts_with SS s && negb (starts_with SSS s).

(* source.rs:352-382 *)
Definition next (guard : bool) (src : bytes) : step :=
  match src with
  | [] => Stop []
  | _ =>
    let s := trim_end (trim_start src) in                       (* :355-357 trim_matches *)
    if is_line_comment s then                                    (* :358 *)
      let line := first_line s in                                (* :359 *)
      let rest := skipn (length line) s in                       (* :360 *)
      if starts_with [CR; NL] rest then Yield line (skipn 2 rest)  (* :361-362 *)
      else match rest with
           | [] => if guard then Yield line [] else Panic        (* :365  &""[1..] *)
           | _ :: r => Yield line r
           end
    else if starts_with OPEN s then                              (* :368 *)
      match find_sub CLOSE s with                                (* :369 *)
      | Some i => Yield (firstn (i + 2) s) (skipn (i + 2) s)
      | None => Stop s
      end
    else match s with
         | b :: r => if N.eqb b NL then Yield [] r else Stop s   (* :374-376 *)
         | [] => Stop s
         end
  end.

(* source.rs:386-416 *)
Definition next_back (src : bytes) : step :=
  match src with
  | [] => Stop []
  | _ =>
    let s := trim_end src in                                     (* :390-392 *)
    if ends_with [NL] s then                                     (* :393 *)
      match last_line (removelast s) with                        (* :394  `?` *)
      | None => Stop s
      | Some comment_line =>
        let trimmed := trim_start_ws comment_line in             (* :395 *)
        let newline_len := if ends_with [CR; NL] s then 2 else 1 in   (* :397 *)
        let s' := firstn (length s - newline_len) s in           (* :398 *)
        if is_line_comment trimmed then                          (* :400 *)
          let need := 2 + length trimmed + 1 in                  (* :401 len - 2 - trimmed.len() - 1 *)
          if need <=? length s' then Yield trimmed (firstn (length s' - need) s')
          else Panic
        else Yield [] s'                                         (* :404 *)
      end
    else if ends_with CLOSE s then                               (* :406 *)
      match rfind_sub OPEN s with                                (* :407 *)
      | Some i => Yield (skipn i s) (firstn i s)
      | None => Stop s
      end
    else Stop s
  end.

(* Driving the iterator to the end (`for c in iter`, `.rev()`): items in the order yielded. *)
Inductive outcome :=
| Done (items : list bytes) (rest : bytes)
| Panicked (items : list bytes).

Definition push (i : bytes) (o : outcome) : outcome :=
  match o with
  | Done l r => Done (i :: l) r
  | Panicked l => Panicked (i :: l)
  end.

Fixpoint iterate (f : bytes -> step) (fuel : nat) (src : bytes) : outcome :=
  match fuel with
  | O => Done [] src
  | S fuel' =>
    match f src with
    | Yield i r => push i (iterate f fuel' r)
    | Stop r => Done [] r
    | Panic => Panicked []
    end
  end.

(* every Yield of [next] consumes at least one byte and every Yield of [next_back] too
   (CommentIterProofs.next_decreases / next_back_decreases), so this fuel is never exhausted *)
Definition forward (guard : bool) (src : bytes) : outcome := iterate (next guard) (S (length src)) src.
Definition backward (src : bytes) : outcome := iterate next_back (S (length src)) src.

Definition items_of (o : outcome) : list bytes :=
  match o with Done l _ => l | Panicked l => l end.
Definition panicked (o : outcome) : bool :=
  match o with Done _ _ => false | Panicked _ => true end.

Definition nonempty (b : bytes) : bool := match b with [] => false | _ => true end.
(* the comments among the items: blank lines are yielded as empty items *)
Definition comments_in (l : list bytes) : list bytes := filter nonempty l.
