From Coq Require Import List ZArith NArith Bool Lia.
From GV Require Import Front.Infix Front.InfixProofs Front.OpLookup.
From GVgen Require Import OpTableGen.
Import ListNotations.

Lemma assoc_in k t m : assoc k t = Some m -> In m (map snd t).
Proof.
  induction t as [|[k' m'] t IH]; cbn; [discriminate|].
  destruct (name_eqb k' k); intros H; [inversion H; auto|auto].
Qed.

Lemma builtin_lookup_in n m : builtin_lookup n = Some m -> In m (map snd builtin_ops).
Proof.
  unfold builtin_lookup. destruct n as [|c n]; [discriminate|].
  destruct (_ || _ || _); [|discriminate]. apply assoc_in.
Qed.

(* The generated built-in table never assigns two fixities to one precedence level.
   Proved by evaluation on the table regenerated from infix.rs on every run. *)
Lemma builtin_consistent : metas_consistent (map snd builtin_ops) = true.
Proof. vm_compute. reflexivity. Qed.

(* Every chain that only uses built-in operators (`#Int+`, `#Float*`, `&&`, ...) is
   re-associated without a fixity conflict, whatever its length. *)
Theorem builtin_chains_never_conflict (names : nat -> name) a0 rest tbl :
  (forall o, In o (rops rest) -> builtin_lookup (names o) = Some (tbl o)) ->
  exists t, reparse tbl a0 rest = Ok t.
Proof.
  intros H. eapply consistent_table_never_conflicts with (ms := map snd builtin_ops).
  - exact builtin_consistent.
  - intros o Ho. eapply builtin_lookup_in. apply H. exact Ho.
Qed.

(* Non-vacuity: `#Int+` resolves to the `+` row and `&&` to its own row. *)
Example lookup_int_plus : builtin_lookup [35; 73; 110; 116; 43]%N = assoc [43]%N builtin_ops.
Proof. reflexivity. Qed.
Example lookup_amp : builtin_lookup [38; 38]%N = assoc [38; 38]%N builtin_ops.
Proof. reflexivity. Qed.
Example builtin_nonempty : exists m, builtin_lookup [35; 73; 110; 116; 43]%N = Some m.
Proof. vm_compute. eauto. Qed.
