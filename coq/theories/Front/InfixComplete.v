(* C08 — exactness of the conflict error and idempotence of re-association.

   [conflict_means_no_wf_tree]: when [reparse] reports conflicting fixities, NO well-bracketed tree
   has the chain as its yield (so the error is not an artefact of the left-to-right algorithm).
   [wf_complete] / [reparse_idempotent]: conversely, whenever a well-bracketed tree exists,
   [reparse] returns it; in particular re-associating the flattening of an already re-associated
   tree gives the tree back (parser/src/infix.rs visits sub-expressions again and relies on this). *)
From Coq Require Import List ZArith Lia Bool.
From GV Require Import Front.Infix Front.InfixProofs.
Import ListNotations.

Section S.
Variable tbl : nat -> meta.
Notation decide := (decide tbl).
Notation push_op := (push_op tbl).
Notation go := (go tbl).
Notation reparse := (reparse tbl).
Notation wf := (wf tbl).
Notation okL := (okL tbl).
Notation okR := (okR tbl).
Notation stinv := (stinv tbl).
Notation conflicting := (conflicting tbl).

Lemma conflicting_not_okR s o : conflicting s o -> okR s o -> False.
Proof. unfold InfixProofs.conflicting, InfixProofs.okR. intros [E D] [H|(H1&H2&H3)]; [lia|congruence]. Qed.
Lemma conflicting_not_okL s o : conflicting s o -> okL o s -> False.
Proof. unfold InfixProofs.conflicting, InfixProofs.okL. intros [E D] [H|(H1&H2&H3)]; [lia|congruence]. Qed.
Lemma between_absurd s r o : conflicting s o -> okR s r -> okL r s -> okR r o -> False.
Proof.
  unfold InfixProofs.conflicting, InfixProofs.okL, InfixProofs.okR.
  intros [E D] [A|(A1&A2&A3)] [B|(B1&B2&B3)] [C|(C1&C2&C3)]; try lia; congruence.
Qed.

Lemma in_mid (x : tok) pre post : In x (pre ++ x :: post).
Proof. apply in_or_app. right. left. reflexivity. Qed.

(* No well-bracketed tree can have  .. s mid o ..  in its yield when s and o conflict and every
   operator of [mid] binds tighter than s on s's right. *)
Lemma no_wf_tree_with_conflict : forall t pre s mid o post,
  wf t -> conflicting s o ->
  (forall c, In (TOp c) mid -> okR s c) ->
  yield t = pre ++ TOp s :: mid ++ TOp o :: post -> False.
Proof.
  induction t as [a|L IHL r R IHR]; intros pre s mid o post W C M Y.
  - cbn in Y. destruct pre as [|x pre]; cbn in Y; [discriminate|]. inversion Y. destruct pre; discriminate.
  - cbn [yield] in Y. cbn in W. destruct W as (WL & WR & DL & DR).
    pose proof (proj1 (wf_dominates tbl L WL r) DL) as domL.
    pose proof (proj2 (wf_dominates tbl R WR r) DR) as domR.
    apply app_eq_app in Y. destruct Y as [k [[Y1 Y2]|[Y1 Y2]]].
    + (* yield L = pre ++ k *)
      destruct k as [|x k'].
      * cbn in Y2. inversion Y2; subst r. 
        eapply conflicting_not_okR; [exact C|]. apply domR. rewrite <- H1. apply in_mid.
      * cbn in Y2. inversion Y2; subst x. clear Y2. rename H1 into Y2.
        apply app_eq_app in Y2. destruct Y2 as [k2 [[Z1 Z2]|[Z1 Z2]]].
        -- (* mid = k' ++ k2,  TOp r :: yield R = k2 ++ TOp o :: post *)
           destruct k2 as [|y k2'].
           ++ cbn in Z2. inversion Z2; subst r.
              eapply conflicting_not_okL; [exact C|]. apply domL. rewrite Y1. apply in_mid.
           ++ cbn in Z2. inversion Z2; subst y.
              eapply (between_absurd s r o C).
              ** apply M. rewrite Z1. apply in_mid.
              ** apply domL. rewrite Y1. apply in_mid.
              ** apply domR. rewrite H1. apply in_mid.
        -- (* k' = mid ++ k2,  TOp o :: post = k2 ++ TOp r :: yield R *)
           destruct k2 as [|y k2'].
           ++ cbn in Z2. inversion Z2; subst r.
              eapply conflicting_not_okL; [exact C|]. apply domL. rewrite Y1. apply in_mid.
           ++ cbn in Z2. inversion Z2; subst y.
              eapply (IHL pre s mid o k2'); eauto. rewrite Y1, Z1. reflexivity.
    + (* pre = yield L ++ k *)
      destruct k as [|x k'].
      * cbn in Y2. inversion Y2; subst r.
        eapply conflicting_not_okR; [exact C|]. apply domR. rewrite H1. apply in_mid.
      * cbn in Y2. inversion Y2; subst x.
        eapply (IHR k' s mid o post); eauto.
Qed.

Lemma push_op_conflict_shape o : forall st cur s n,
  wf cur -> stinv (root cur) st ->
  push_op o cur st = ErrConflict s n ->
  n = o /\ conflicting s n /\
  exists pre mid, syield cur st = pre ++ TOp s :: mid /\ (forall c, In (TOp c) mid -> okR s c).
Proof.
  induction st as [|[l s0] st IH]; intros cur s n W J H; cbn [Infix.push_op] in H; [discriminate|].
  cbn in J. destruct J as (Wl & Ll & Rc & I').
  destruct (decide o s0) eqn:D; try discriminate.
  - (* reduce *)
    assert (W' : wf (Node l s0 cur)) by (cbn; auto).
    destruct (IH (Node l s0 cur) s n W' I' H) as (En & Cf & pre & mid & Ey & Hm).
    split; [exact En|]. split; [exact Cf|]. exists pre, mid. split; [|exact Hm].
    rewrite <- Ey. unfold syield. cbn. rewrite <- !app_assoc. reflexivity.
  - (* conflict *)
    inversion H; subst s n. split; [reflexivity|]. split; [apply decide_conflict; exact D|].
    exists (styield st ++ yield l), (yield cur). split.
    + unfold syield. cbn. rewrite <- !app_assoc. reflexivity.
    + intros c Hc. exact (proj2 (wf_dominates tbl cur W s0) Rc c Hc).
Qed.

Lemma go_conflict_shape : forall rest cur st s n,
  wf cur -> stinv (root cur) st -> root cur = None ->
  go cur st rest = ErrConflict s n ->
  conflicting s n /\
  exists pre mid post, syield cur st ++ ryield rest = pre ++ TOp s :: mid ++ TOp n :: post /\
                       (forall c, In (TOp c) mid -> okR s c).
Proof.
  induction rest as [|[o a] rest IH]; intros cur st s n W J R H; cbn [Infix.go] in H; [discriminate|].
  destruct (push_op o cur st) as [[cur' st']|s' n'] eqn:E.
  - pose proof (push_op_yield tbl o st cur cur' st' E) as Y.
    eapply push_op_inv in E; eauto; [|rewrite R; exact I].
    destruct E as (W' & L' & S').
    assert (Inv : stinv (root (Leaf a)) ((cur', o) :: st')) by (cbn; auto).
    destruct (IH (Leaf a) ((cur', o) :: st') s n I Inv eq_refl H) as (Cf & pre & mid & post & Ey & Hm).
    split; [exact Cf|]. exists pre, mid, post. split; [|exact Hm].
    rewrite <- Ey. cbn [ryield]. rewrite <- Y. unfold syield. cbn. rewrite <- !app_assoc. reflexivity.
  - inversion H; subst s' n'. apply push_op_conflict_shape in E; auto.
    destruct E as (En & Cf & pre & mid & Ey & Hm). subst n.
    split; [exact Cf|]. exists pre, mid, (TArg a :: ryield rest). split; [|exact Hm].
    cbn [ryield]. rewrite Ey. rewrite <- app_assoc. reflexivity.
Qed.

(* The conflict error is exact: no well-bracketed tree has this chain as its yield. *)
Theorem conflict_means_no_wf_tree a0 rest s n :
  reparse a0 rest = ErrConflict s n ->
  ~ exists t, wf t /\ yield t = TArg a0 :: ryield rest.
Proof.
  intros H [t [W Y]]. unfold Infix.reparse in H.
  apply go_conflict_shape in H; cbn; auto.
  destruct H as (Cf & pre & mid & post & Ey & Hm).
  eapply (no_wf_tree_with_conflict t pre s mid n post W Cf Hm).
  rewrite Y. exact Ey.
Qed.

(* Completeness w.r.t. well-bracketed trees: if one exists, reparse finds it. *)
Theorem wf_complete a0 rest t :
  wf t -> yield t = TArg a0 :: ryield rest -> reparse a0 rest = Ok t.
Proof.
  intros W Y. destruct (reparse a0 rest) as [t'|s n] eqn:E.
  - f_equal. symmetry. eapply reparse_unique_grouping; eauto.
  - exfalso. eapply conflict_means_no_wf_tree; eauto.
Qed.

(* flattening a tree into the chain the parser's right-nested spine represents *)
Fixpoint flat (t : tree) : nat * list (nat * nat) :=
  match t with
  | Leaf a => (a, [])
  | Node l o r => let (a, ls) := flat l in let (b, rs) := flat r in (a, ls ++ (o, b) :: rs)
  end.

Lemma ryield_app : forall x y, ryield (x ++ y) = ryield x ++ ryield y.
Proof. induction x as [|[o a] x IH]; intros y; cbn; [reflexivity|]. rewrite IH. reflexivity. Qed.

Lemma flat_yield : forall t, yield t = TArg (fst (flat t)) :: ryield (snd (flat t)).
Proof.
  induction t as [a|l IHl o r IHr]; cbn [flat yield]; [reflexivity|].
  destruct (flat l) as [a ls]. destruct (flat r) as [b rs]. cbn [fst snd] in *.
  rewrite IHl, IHr. rewrite ryield_app. cbn. reflexivity.
Qed.

(* Re-associating an already well-bracketed tree returns it. *)
Theorem reparse_idempotent t :
  wf t -> reparse (fst (flat t)) (snd (flat t)) = Ok t.
Proof. intros W. apply wf_complete; [exact W|apply flat_yield]. Qed.

(* hence reparse ∘ flatten ∘ reparse = reparse *)
Corollary reparse_reparse a0 rest t :
  reparse a0 rest = Ok t -> reparse (fst (flat t)) (snd (flat t)) = Ok t.
Proof. intros H. apply reparse_idempotent. eapply reparse_wf; eauto. Qed.

End S.
