From Coq Require Import List ZArith Lia Bool.
From GV Require Import Front.Infix.
Import ListNotations.

Section S.
Variable tbl : nat -> meta.
Notation decide := (decide tbl).
Notation push_op := (push_op tbl).
Notation go := (go tbl).
Notation reparse := (reparse tbl).

Fixpoint styield (st : stack) : list tok :=
  match st with [] => [] | (l, s) :: st' => styield st' ++ yield l ++ [TOp s] end.
Definition syield cur st := styield st ++ yield cur.

Lemma push_op_yield o : forall st cur cur' st',
  push_op o cur st = Ok (cur', st') -> syield cur' st' = syield cur st.
Proof.
  induction st as [|[l s] st IH]; intros cur cur' st' H; cbn [Infix.push_op] in H.
  - inversion H; reflexivity.
  - destruct (decide o s); try discriminate.
    + apply IH in H. rewrite H. unfold syield. cbn. rewrite <- !app_assoc. reflexivity.
    + inversion H; reflexivity.
Qed.

Lemma unwind_yield : forall st cur, yield (unwind cur st) = syield cur st.
Proof.
  induction st as [|[l s] st IH]; intros cur; cbn [unwind]; [reflexivity|].
  rewrite IH. unfold syield. cbn. rewrite <- !app_assoc. reflexivity.
Qed.

Lemma go_yield : forall rest cur st t,
  go cur st rest = Ok t -> yield t = syield cur st ++ ryield rest.
Proof.
  induction rest as [|[o a] rest IH]; intros cur st t H; cbn [Infix.go] in H.
  - inversion H; subst. rewrite unwind_yield, app_nil_r. reflexivity.
  - destruct (push_op o cur st) as [[cur' st']|] eqn:E; try discriminate.
    apply IH in H. rewrite H. apply push_op_yield in E. rewrite <- E.
    unfold syield. cbn. rewrite <- !app_assoc. reflexivity.
Qed.

Theorem reparse_yield a0 rest t :
  reparse a0 rest = Ok t -> yield t = TArg a0 :: ryield rest.
Proof. intros H. apply go_yield in H. exact H. Qed.

(* ---- well-bracketedness ---- *)
Definition root (t : tree) : option nat := match t with Leaf _ => None | Node _ o _ => Some o end.
(* o may have child-root c on the left / right *)
Definition okL (o c : nat) : Prop :=
  (prec (tbl c) > prec (tbl o))%Z \/ (prec (tbl c) = prec (tbl o) /\ fix_ (tbl c) = FL /\ fix_ (tbl o) = FL).
Definition okR (o c : nat) : Prop :=
  (prec (tbl c) > prec (tbl o))%Z \/ (prec (tbl c) = prec (tbl o) /\ fix_ (tbl c) = FR /\ fix_ (tbl o) = FR).
Definition optP (P : nat -> Prop) (x : option nat) := match x with None => True | Some c => P c end.
Fixpoint wf (t : tree) : Prop :=
  match t with
  | Leaf _ => True
  | Node l o r => wf l /\ wf r /\ optP (okL o) (root l) /\ optP (okR o) (root r)
  end.

Fixpoint stinv (top : option nat) (st : stack) : Prop :=
  match st with
  | [] => True
  | (l, s) :: st' => wf l /\ optP (okL s) (root l) /\ optP (okR s) top /\ stinv (Some s) st'
  end.

Lemma decide_shift_okR o s : decide o s = Shift -> okR s o.
Proof.
  unfold Infix.decide, okR. destruct (Z.compare_spec (prec (tbl o)) (prec (tbl s))); try discriminate.
  - destruct (fix_ (tbl o)) eqn:?, (fix_ (tbl s)) eqn:?; try discriminate. intros _. right. auto.
  - intros _. left. lia.
Qed.
Lemma decide_reduce_okL o s : decide o s = Reduce -> okL o s.
Proof.
  unfold Infix.decide, okL. destruct (Z.compare_spec (prec (tbl o)) (prec (tbl s))); try discriminate.
  - destruct (fix_ (tbl o)) eqn:?, (fix_ (tbl s)) eqn:?; try discriminate. intros _. right. auto.
  - intros _. left. lia.
Qed.

Lemma stinv_top top top' st :
  (forall l s st', st = (l, s) :: st' -> optP (okR s) top') -> stinv top st -> stinv top' st.
Proof. destruct st as [|[l s] st']; cbn; [auto|]. intros H (A & B & _ & D). repeat split; auto. eapply H; reflexivity. Qed.

Lemma push_op_inv o : forall st cur cur' st',
  wf cur -> stinv (root cur) st -> optP (okL o) (root cur) ->
  push_op o cur st = Ok (cur', st') ->
  wf cur' /\ optP (okL o) (root cur') /\ stinv (Some o) st'.
Proof.
  induction st as [|[l s] st IH]; intros cur cur' st' Hw Hs Ho H; cbn [Infix.push_op] in H.
  - inversion H; subst. cbn. auto.
  - destruct (decide o s) eqn:D; try discriminate.
    + cbn in Hs. destruct Hs as (Wl & Ll & Rc & Hs').
      eapply IH in H; eauto.
      * cbn. auto.
      * cbn. apply decide_reduce_okL; exact D.
    + inversion H; subst. split; [exact Hw|split; [exact Ho|]].
      eapply stinv_top; [|exact Hs]. intros l0 s0 st0 E; inversion E; subst. cbn. apply decide_shift_okR; exact D.
Qed.

Lemma unwind_wf : forall st cur, wf cur -> stinv (root cur) st -> wf (unwind cur st).
Proof.
  induction st as [|[l s] st IH]; intros cur Hw Hs; cbn [unwind]; [exact Hw|].
  cbn in Hs. destruct Hs as (Wl & Ll & Rc & Hs'). apply IH; cbn; auto.
Qed.

Lemma go_wf : forall rest cur st t,
  wf cur -> stinv (root cur) st -> root cur = None ->
  go cur st rest = Ok t -> wf t.
Proof.
  induction rest as [|[o a] rest IH]; intros cur st t Hw Hs Hr H; cbn [Infix.go] in H.
  - inversion H; subst. apply unwind_wf; auto.
  - destruct (push_op o cur st) as [[cur' st']|] eqn:E; try discriminate.
    eapply push_op_inv in E; eauto; [|rewrite Hr; exact I].
    destruct E as (W' & L' & S').
    eapply IH; [| | |exact H]; cbn; auto.
Qed.

Theorem reparse_wf a0 rest t : reparse a0 rest = Ok t -> wf t.
Proof. intros H. eapply go_wf; [| | |exact H]; cbn; auto. Qed.

(* ---- uniqueness of the well-bracketed tree with a given yield ---- *)

Lemma okL_trans_L o c d : okL o c -> okL c d -> okL o d.
Proof. unfold okL. intros [A|(A1&A2&A3)] [B|(B1&B2&B3)]; try (left; lia). right. repeat split; congruence. Qed.
Lemma okL_trans_R o c d : okL o c -> okR c d -> okL o d.
Proof.
  unfold okL, okR. intros [A|(A1&A2&A3)] [B|(B1&B2&B3)]; try (left; lia).
  rewrite A2 in B3. discriminate.
Qed.
Lemma okR_trans_R o c d : okR o c -> okR c d -> okR o d.
Proof. unfold okR. intros [A|(A1&A2&A3)] [B|(B1&B2&B3)]; try (left; lia). right. repeat split; congruence. Qed.
Lemma okR_trans_L o c d : okR o c -> okL c d -> okR o d.
Proof.
  unfold okL, okR. intros [A|(A1&A2&A3)] [B|(B1&B2&B3)]; try (left; lia).
  rewrite A2 in B3. discriminate.
Qed.

Lemma wf_dominates : forall t, wf t ->
  forall o, (optP (okL o) (root t) -> forall c, In (TOp c) (yield t) -> okL o c) /\
            (optP (okR o) (root t) -> forall c, In (TOp c) (yield t) -> okR o c).
Proof.
  induction t as [a|l IHl s r IHr]; intros Hw o.
  - split; intros _ c [H|[]]; discriminate.
  - cbn in Hw. destruct Hw as (Wl & Wr & Ll & Rr).
    specialize (IHl Wl s). specialize (IHr Wr s).
    destruct IHl as [IHl _]. destruct IHr as [_ IHr].
    specialize (IHl Ll). specialize (IHr Rr).
    split; cbn; intros Ho c Hin; apply in_app_or in Hin; destruct Hin as [Hin|[Hin|Hin]].
    + eapply okL_trans_L; eauto.
    + inversion Hin; subst; exact Ho.
    + eapply okL_trans_R; eauto.
    + eapply okR_trans_L; eauto.
    + inversion Hin; subst; exact Ho.
    + eapply okR_trans_R; eauto.
Qed.

Lemma okL_okR_absurd o c : okL o c -> okR c o -> False.
Proof.
  unfold okL, okR. intros [A|(A1&A2&A3)] [B|(B1&B2&B3)]; try lia. rewrite A3 in B2. discriminate.
Qed.

Lemma yield_nonempty t : yield t <> [].
Proof. destruct t; cbn; [discriminate|]. destruct (yield t1); discriminate. Qed.

(* In a yield, elements alternate; an operator is never the first element. *)
Lemma yield_head_arg t : exists a rest, yield t = TArg a :: rest.
Proof.
  induction t as [a|l [a [rest E]] s r _]; cbn; eauto.
  rewrite E. cbn. eauto.
Qed.

Lemma split_same : forall l1 l2 o1 o2 r1 r2,
  wf (Node l1 o1 r1) -> wf (Node l2 o2 r2) ->
  yield l1 ++ TOp o1 :: yield r1 = yield l2 ++ TOp o2 :: yield r2 ->
  yield l1 = yield l2 /\ o1 = o2 /\ yield r1 = yield r2.
Proof.
  intros l1 l2 o1 o2 r1 r2 W1 W2 E.
  apply app_eq_app in E. destruct E as [k [[E1 E2]|[E1 E2]]].
  - (* yield l1 = yield l2 ++ k ; TOp o2 :: yield r2 = k ++ TOp o1 :: yield r1 *)
    destruct k as [|e k].
    + rewrite app_nil_r in E1. cbn in E2. inversion E2; subst. auto.
    + exfalso. cbn in E2. inversion E2; subst e.
      (* o2 occurs in yield l1, o1 occurs in yield r2 *)
      assert (I2 : In (TOp o2) (yield l1)) by (rewrite E1; apply in_or_app; right; left; reflexivity).
      assert (I1 : In (TOp o1) (yield r2)) by (rewrite H1; apply in_or_app; right; left; reflexivity).
      cbn in W1, W2. destruct W1 as (Wl1 & Wr1 & Ll1 & Rr1). destruct W2 as (Wl2 & Wr2 & Ll2 & Rr2).
      pose proof (proj1 (wf_dominates l1 Wl1 o1) Ll1 o2 I2) as A.
      pose proof (proj2 (wf_dominates r2 Wr2 o2) Rr2 o1 I1) as B.
      eapply okL_okR_absurd; eauto.
  - destruct k as [|e k].
    + rewrite app_nil_r in E1. cbn in E2. inversion E2; subst. auto.
    + exfalso. cbn in E2. inversion E2; subst e.
      assert (I1 : In (TOp o1) (yield l2)) by (rewrite E1; apply in_or_app; right; left; reflexivity).
      assert (I2 : In (TOp o2) (yield r1)) by (rewrite H1; apply in_or_app; right; left; reflexivity).
      cbn in W1, W2. destruct W1 as (Wl1 & Wr1 & Ll1 & Rr1). destruct W2 as (Wl2 & Wr2 & Ll2 & Rr2).
      pose proof (proj1 (wf_dominates l2 Wl2 o2) Ll2 o1 I1) as A.
      pose proof (proj2 (wf_dominates r1 Wr1 o1) Rr1 o2 I2) as B.
      eapply okL_okR_absurd; eauto.
Qed.

Theorem wf_unique : forall t1 t2, wf t1 -> wf t2 -> yield t1 = yield t2 -> t1 = t2.
Proof.
  induction t1 as [a|l1 IHl o1 r1 IHr]; intros t2 W1 W2 E.
  - destruct t2 as [b|l2 o2 r2]; cbn in E.
    + inversion E; reflexivity.
    + exfalso. destruct (yield_head_arg l2) as [x [rest Ex]]. rewrite Ex in E. cbn in E.
      inversion E. destruct rest; discriminate.
  - destruct t2 as [b|l2 o2 r2].
    + exfalso. cbn in E. destruct (yield_head_arg l1) as [x [rest Ex]]. rewrite Ex in E. cbn in E.
      inversion E. destruct rest; discriminate.
    + cbn in E. destruct (split_same _ _ _ _ _ _ W1 W2 E) as (El & Eo & Er).
      cbn in W1, W2. destruct W1 as (Wl1 & Wr1 & _). destruct W2 as (Wl2 & Wr2 & _).
      f_equal; auto.
Qed.

(* The grouping is exactly what the fixities dictate. *)
Theorem reparse_unique_grouping a0 rest t :
  reparse a0 rest = Ok t ->
  forall t', wf t' -> yield t' = TArg a0 :: ryield rest -> t' = t.
Proof.
  intros H t' W' Y'. apply wf_unique; auto.
  - eapply reparse_wf; eauto.
  - rewrite Y'. symmetry. eapply reparse_yield; eauto.
Qed.

(* ---- conflicts ---- *)
Definition conflicting (s n : nat) : Prop :=
  prec (tbl s) = prec (tbl n) /\ fix_ (tbl s) <> fix_ (tbl n).

Lemma decide_conflict o s : decide o s = Conflict -> conflicting s o.
Proof.
  unfold Infix.decide, conflicting. destruct (Z.compare_spec (prec (tbl o)) (prec (tbl s))); try discriminate.
  destruct (fix_ (tbl o)) eqn:?, (fix_ (tbl s)) eqn:?; try discriminate; intros _; split; auto; congruence.
Qed.

Definition stops (st : stack) : list nat := map snd st.

Lemma push_op_conflict o : forall st cur s n,
  push_op o cur st = ErrConflict s n -> n = o /\ In s (stops st) /\ conflicting s n.
Proof.
  induction st as [|[l s0] st IH]; intros cur s n H; cbn [Infix.push_op] in H; [discriminate|].
  destruct (decide o s0) eqn:D; try discriminate.
  - apply IH in H. destruct H as (A & B & C). repeat split; auto. cbn. right. exact B. apply C. apply C.
  - inversion H; subst. split; [reflexivity|]. split; [left; reflexivity|]. apply decide_conflict; exact D.
Qed.

Lemma push_op_stops o : forall st cur cur' st',
  push_op o cur st = Ok (cur', st') -> incl (stops st') (stops st).
Proof.
  induction st as [|[l s0] st IH]; intros cur cur' st' H; cbn [Infix.push_op] in H.
  - inversion H; subst. apply incl_refl.
  - destruct (decide o s0); try discriminate.
    + apply IH in H. cbn. apply incl_tl. exact H.
    + inversion H; subst. apply incl_refl.
Qed.

Definition rops (rest : list (nat * nat)) : list nat := map fst rest.

Lemma go_conflict : forall rest cur st s n,
  go cur st rest = ErrConflict s n ->
  In s (stops st ++ rops rest) /\ In n (rops rest) /\ conflicting s n.
Proof.
  induction rest as [|[o a] rest IH]; intros cur st s n H; cbn [Infix.go] in H; [discriminate|].
  destruct (push_op o cur st) as [[cur' st']|s' n'] eqn:E.
  - apply IH in H. destruct H as (A & B & C). split; [|split; [right; exact B|exact C]].
    apply in_app_or in A. destruct A as [A|A].
    + cbn in A. destruct A as [A|A].
      * subst. apply in_or_app. right. left. reflexivity.
      * apply in_or_app. left. eapply push_op_stops; eauto.
    + apply in_or_app. right. right. exact A.
  - inversion H; subst. apply push_op_conflict in E. destruct E as (A & B & C). subst.
    split; [apply in_or_app; left; exact B|]. split; [left; reflexivity|exact C].
Qed.

(* A reported conflict names two operators of the chain at equal precedence with
   different fixity. *)
Theorem reparse_conflict_sound a0 rest s n :
  reparse a0 rest = ErrConflict s n ->
  In s (rops rest) /\ In n (rops rest) /\ conflicting s n.
Proof. intros H. apply go_conflict in H. cbn in H. exact H. Qed.

(* If no two operators of the chain conflict, re-association succeeds. *)
Theorem reparse_complete a0 rest :
  (forall s n, In s (rops rest) -> In n (rops rest) -> ~ conflicting s n) ->
  exists t, reparse a0 rest = Ok t.
Proof.
  intros H. destruct (reparse a0 rest) as [t|s n] eqn:E; [eauto|].
  apply reparse_conflict_sound in E. destruct E as (A & B & C). exfalso. exact (H s n A B C).
Qed.

End S.

(* ---- finite tables ---- *)
Lemma metas_consistent_sound ms :
  metas_consistent ms = true ->
  forall a b, In a ms -> In b ms -> prec a = prec b -> fix_ a = fix_ b.
Proof.
  unfold metas_consistent. intros H a b Ia Ib E.
  rewrite forallb_forall in H. specialize (H a Ia). rewrite forallb_forall in H. specialize (H b Ib).
  apply orb_true_iff in H. destruct H as [H|H].
  - apply negb_true_iff in H. apply Z.eqb_neq in H. contradiction.
  - destruct (fix_ a), (fix_ b); try reflexivity; discriminate.
Qed.

(* Any chain whose operators all take their metadata from a consistent finite table
   re-associates without error. *)
Theorem consistent_table_never_conflicts (tbl : nat -> meta) (ms : list meta) a0 rest :
  metas_consistent ms = true ->
  (forall o, In o (rops rest) -> In (tbl o) ms) ->
  exists t, reparse tbl a0 rest = Ok t.
Proof.
  intros Hc Hin. apply reparse_complete. intros s n Is In_ [E D].
  apply D. eapply metas_consistent_sound; eauto.
Qed.
