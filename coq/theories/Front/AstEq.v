(* C08 — verified comparator for the canonical trees of the round trip.

   Both sides of the round trip (the generated AST and the tree the real parser produced) are
   rendered as s-expressions: an atom is a byte string, a node a list of trees.  [ast_eqb] decides
   equality of two such trees; the extracted function replaces the textual comparison of the two
   renderings (coq/extract/c08rt driver, lines `E`).  Definitions and the correctness proof. *)
From Coq Require Import List NArith Bool.
Import ListNotations.
Local Open Scope N_scope.

Inductive sx : Set := Atom (bytes : list N) | Node (children : list sx).

Fixpoint bytes_eqb (a b : list N) : bool :=
  match a, b with
  | [], [] => true
  | x :: a', y :: b' => (x =? y) && bytes_eqb a' b'
  | _, _ => false
  end.

Fixpoint ast_eqb (a b : sx) : bool :=
  match a, b with
  | Atom x, Atom y => bytes_eqb x y
  | Node xs, Node ys =>
      (fix all2 (xs ys : list sx) {struct xs} : bool :=
         match xs, ys with
         | [], [] => true
         | x :: xs', y :: ys' => ast_eqb x y && all2 xs' ys'
         | _, _ => false
         end) xs ys
  | _, _ => false
  end.

Lemma bytes_eqb_eq : forall a b, bytes_eqb a b = true <-> a = b.
Proof.
  induction a as [|x a IH]; destruct b as [|y b]; cbn; split; try discriminate; try reflexivity.
  - intros H. apply andb_true_iff in H. destruct H as [E H]. apply N.eqb_eq in E. apply IH in H. subst. reflexivity.
  - intros H. inversion H; subst. rewrite N.eqb_refl. cbn. apply IH. reflexivity.
Qed.

Section Ind.
  Variable Q : sx -> Prop.
  Hypothesis HA : forall b, Q (Atom b).
  Hypothesis HN : forall cs, Forall Q cs -> Q (Node cs).
  Fixpoint sx_ind' (t : sx) : Q t :=
    match t with
    | Atom b => HA b
    | Node cs =>
        HN cs ((fix f (cs : list sx) : Forall Q cs :=
                  match cs with
                  | [] => Forall_nil Q
                  | c :: cs' => Forall_cons c (sx_ind' c) (f cs')
                  end) cs)
    end.
End Ind.

Fixpoint all2 (xs ys : list sx) : bool :=
  match xs, ys with
  | [], [] => true
  | x :: xs', y :: ys' => ast_eqb x y && all2 xs' ys'
  | _, _ => false
  end.

Lemma ast_eqb_node xs ys : ast_eqb (Node xs) (Node ys) = all2 xs ys.
Proof. cbn [ast_eqb]. revert ys. induction xs as [|x xs IH]; intros [|y ys]; cbn [all2]; try reflexivity; rewrite <- IH; reflexivity. Qed.

(* the comparator decides equality *)
Theorem ast_eqb_eq : forall a b, ast_eqb a b = true <-> a = b.
Proof.
  induction a as [x|xs IH] using sx_ind'; intros [y|ys].
  - cbn. rewrite bytes_eqb_eq. split; [intros ->; reflexivity|intros H; inversion H; reflexivity].
  - cbn. split; discriminate.
  - cbn. split; discriminate.
  - rewrite ast_eqb_node. revert ys. induction IH as [|x xs Hx _ IHxs]; intros [|y ys]; cbn [all2].
    + split; reflexivity.
    + split; discriminate.
    + split; discriminate.
    + rewrite andb_true_iff, Hx, IHxs. split.
      * intros [-> H]. inversion H; subst. reflexivity.
      * intros H. inversion H; subst. split; reflexivity.
Qed.
