(* C08 — balance of the layout model's output: on clean runs (see [clean_step]) that reach the end of the
   input with no context left, the virtual OpenBlock / CloseBlock tokens are balanced and properly
   nested with the real brackets.  Invariant: the closers the context stack still owes ([cls]) are the
   closers expected after the emitted tokens plus one CloseBlock per queued OpenBlock ([J]). *)
From Coq Require Import List NArith Bool Lia Arith.
From GV Require Import Front.Layout Front.LayoutProofs Front.LayoutModelProofs.
Import ListNotations.

(* ---- the bracket word of an output stream ---- *)
Definition closer (x : tk) : option tk :=
  match x with
  | TOpenBlock => Some TCloseBlock | TLParen => Some TRParen | TLBrace => Some TRBrace
  | TLBracket => Some TRBracket | TAttributeOpen => Some TRBracket | _ => None
  end.
Definition is_rcloser (x : tk) : bool :=
  match x with TCloseBlock | TRParen | TRBrace | TRBracket => true | _ => false end.

(* one token against the stack of closers still expected (innermost first) *)
Definition bstep (cl : list tk) (t : mtok) : option (list tk) :=
  match closer (k t) with
  | Some c => Some (c :: cl)
  | None =>
      if is_rcloser (k t) then
        match cl with c :: cl' => if tk_eqb c (k t) then Some cl' else None | [] => None end
      else Some cl
  end.
Fixpoint bal (cl : list tk) (l : list mtok) : option (list tk) :=
  match l with
  | [] => Some cl
  | t :: l' => match bstep cl t with Some cl' => bal cl' l' | None => None end
  end.

Lemma bal_app : forall a b cl, bal cl (a ++ b) = match bal cl a with Some cl' => bal cl' b | None => None end.
Proof. induction a as [|t a IH]; intros b cl; cbn; [reflexivity|]. destruct (bstep cl t); auto. Qed.

(* ---- the closers a context stack still owes ---- *)
Definition cclose (c : ctx) : option tk :=
  match c with
  | CBlock _ => Some TCloseBlock | CBrace => Some TRBrace | CBracket => Some TRBracket
  | CParen => Some TRParen | CAttribute => Some TRBracket | _ => None
  end.
Fixpoint cls (s : list offside) : list tk :=
  match s with
  | [] => []
  | o :: r => match cclose (octx o) with Some c => c :: cls r | None => cls r end
  end.

Lemma cls_semi b s : cls (set_top_semi b s) = cls s.
Proof. destruct s as [|[l c x] r]; cbn; [reflexivity|]. destruct x; reflexivity. Qed.
Lemma cls_pop_rec s : cls (pop_rec s) = cls s.
Proof. destruct s as [|[l c x] r]; cbn; [reflexivity|]. destruct x; reflexivity. Qed.

(* ---- queued OpenBlock tokens ---- *)
Definition isopen (t : mtok) : bool := tk_eqb (k t) TOpenBlock.
Fixpoint nq (l : list mtok) : nat :=
  match l with t :: l' => if isopen t then S (nq l') else 0 | [] => 0 end.
Fixpoint afterq (l : list mtok) : list mtok :=
  match l with t :: l' => if isopen t then afterq l' else l | [] => [] end.
Definition noopen (l : list mtok) : Prop := Forall (fun t => isopen t = false) l.
Definition U (l : list mtok) : Prop := noopen (afterq l).

(* [cl]: closers expected after the tokens emitted so far; [l]: pending tokens; [s]: contexts *)
Definition J (cl : list tk) (l : list mtok) (s : list offside) : Prop :=
  cls s = repeat TCloseBlock (nq l) ++ cl /\ U l.

Lemma noopen_nq l : noopen l -> nq l = 0.
Proof. destruct 1 as [|t l H _]; cbn; [reflexivity|]. rewrite H. reflexivity. Qed.
Lemma noopen_afterq l : noopen l -> afterq l = l.
Proof. destruct 1 as [|t l H _]; cbn; [reflexivity|]. rewrite H. reflexivity. Qed.
Lemma noopen_U l : noopen l -> U l.
Proof. intros H. unfold U. rewrite (noopen_afterq l H). exact H. Qed.
Lemma J_noopen cl l s : noopen l -> cls s = cl -> J cl l s.
Proof. intros H E. split; [rewrite (noopen_nq l H); exact E|apply noopen_U; exact H]. Qed.

Lemma J_hand cl t l s : isopen t = false -> J cl (t :: l) s -> cls s = cl /\ noopen l.
Proof.
  intros N [A B]. cbn in A. rewrite N in A. cbn in A. split; [exact A|].
  unfold U in B. cbn in B. rewrite N in B. inversion B; assumption.
Qed.

Lemma repeat_snoc (x : tk) n l : repeat x n ++ x :: l = x :: repeat x n ++ l.
Proof. induction n; cbn; [reflexivity|]. rewrite IHn. reflexivity. Qed.

Lemma nq_app_es : forall l es, noopen es -> nq (l ++ es) = nq l.
Proof.
  induction l as [|t l IH]; intros es H; cbn.
  - apply noopen_nq; exact H.
  - destruct (isopen t); [rewrite IH; auto|reflexivity].
Qed.
Lemma U_app_es : forall l es, noopen es -> U l -> U (l ++ es).
Proof.
  unfold U. induction l as [|t l IH]; intros es H HU; cbn.
  - rewrite (noopen_afterq es H). exact H.
  - cbn in HU. destruct (isopen t); [apply IH; assumption|].
    change (noopen ((t :: l) ++ es)). apply Forall_app. split; assumption.
Qed.
Lemma J_app_es cl l es s : noopen es -> J cl l s -> J cl (l ++ es) s.
Proof. intros H [A B]. split; [rewrite nq_app_es; assumption|apply U_app_es; assumption]. Qed.

Lemma eofs_noopen es : Forall (fun t => k t = TEOF) es -> noopen es.
Proof. intros H. eapply Forall_impl; [|exact H]. intros a Ha. unfold isopen. rewrite Ha. reflexivity. Qed.

(* ---- exact shape of the pending list after the look-ahead pieces ---- *)
Lemma pull_app : forall c st, eof_ok st ->
  exists es, P (pull c st) = P st ++ es /\ Forall (fun t => k t = TEOF) es /\ stack (pull c st) = stack st.
Proof.
  induction c as [|c IH]; intros st E; cbn [pull].
  - exists []. rewrite app_nil_r. repeat split. constructor.
  - destruct (toks st) as [|t r] eqn:T.
    + destruct (IH (St [] (eof st) (unp st ++ [eof st]) (stack st)) E) as (es & A & B & C).
      exists (eof st :: es). rewrite A. unfold P. cbn. rewrite T, !app_nil_r, <- app_assoc. repeat split; auto.
    + destruct (IH (St r (eof st) (unp st ++ [t]) (stack st)) E) as (es & A & B & C).
      exists es. rewrite A. unfold P. cbn. rewrite T, <- !app_assoc. repeat split; auto.
Qed.

Lemma scan_continue_app : forall f i a e first st b st', eof_ok st ->
  scan_continue f i a e first st = Some (b, st') ->
  exists es, P st' = P st ++ es /\ Forall (fun t => k t = TEOF) es /\ stack st' = stack st.
Proof.
  induction f as [|f IH]; intros i a e first st b st' E H; cbn [scan_continue] in H; [discriminate|].
  assert (R : exists es, P st = P st ++ es /\ Forall (fun t => k t = TEOF) es /\ stack st = stack st)
    by (exists []; rewrite app_nil_r; repeat split; constructor).
  destruct i as [|j].
  - destruct (tk_eqb (k first) e); [inversion H; subst; exact R|].
    destruct (k first); try (destruct a); try (inversion H; subst; exact R); eapply IH; eauto.
  - unfold peek_token in H.
    set (st1 := pull (S j - length (unp st)) st) in *.
    destruct (pull_app (S j - length (unp st)) st E) as (es1 & A & B & C). fold st1 in A, C.
    destruct (pull_G (S j - length (unp st)) st E) as [_ HE]. fold st1 in HE.
    assert (E1 : eof_ok st1) by (unfold eof_ok; rewrite HE; exact E).
    assert (R1 : exists es, P st1 = P st ++ es /\ Forall (fun t => k t = TEOF) es /\ stack st1 = stack st)
      by (exists es1; auto).
    destruct (last (map Some (unp st1)) None) as [p|]; [|inversion H; subst; exact R1].
    destruct (tk_eqb (k p) e); [inversion H; subst; exact R1|].
    destruct (k p); try (destruct a); try (inversion H; subst; exact R1);
      (destruct (IH _ _ _ _ _ _ _ E1 H) as (es2 & A2 & B2 & C2); exists (es1 ++ es2);
       rewrite A2, A, <- app_assoc; repeat split; [apply Forall_app; auto|congruence]).
Qed.

Lemma continue_block_app fuel c t st b st' : eof_ok st ->
  continue_block fuel c t st = Some (b, st') ->
  exists es, P st' = P st ++ es /\ Forall (fun t => k t = TEOF) es /\ stack st' = stack st.
Proof.
  unfold continue_block. intros E.
  assert (R : exists es, P st = P st ++ es /\ Forall (fun t => k t = TEOF) es /\ stack st = stack st)
    by (exists []; rewrite app_nil_r; repeat split; constructor).
  destruct (second_is_rec (stack st)); [|intros H; inversion H; subst; exact R].
  destruct (k t); destruct c; intros H; try (inversion H; subst; exact R);
    eapply scan_continue_app; eauto.
Qed.

(* scan_for_next_block on a pending list without queued OpenBlocks *)
Lemma scan_J st c st' : eof_ok st -> noopen (P st) -> scan_for_next_block st c = Some st' ->
  exists o', stack st' = o' :: stack st /\ octx o' = c /\
             nq (P st') = (if is_block c then 1 else 0) /\ U (P st').
Proof.
  unfold scan_for_next_block. intros E N H. destruct (next_token st) as [nx st1] eqn:NT.
  assert (N1 : noopen (nx :: P st1)).
  { destruct (next_token_X _ _ _ E NT) as [X|(X & Y & Z)].
    - rewrite <- X. exact N.
    - rewrite Y. constructor; [unfold isopen; rewrite Z; reflexivity|constructor]. }
  assert (NX : isopen nx = false) by (inversion N1; assumption).
  assert (HS : stack st1 = stack st).
  { destruct st as [a b [|x u] s]; cbn in NT; [destruct a; inversion NT; reflexivity|inversion NT; reflexivity]. }
  destruct (is_block c) eqn:IB;
    [destruct (first_block_col _) as [lc|]; [destruct (col nx <=? lc)%N|]|];
    apply push_ctx_same in H as H2; unfold push_ctx in H; destruct (check_unind _ _ _); try discriminate;
    inversion H; subst st'; cbn [stack set_stack set_unp unp];
    (eexists; split; [rewrite HS; reflexivity|split; [reflexivity|]]);
    unfold P; cbn [unp toks set_unp set_stack]; cbn [app];
    change (unp st1 ++ toks st1) with (P st1);
    (split; [cbn [nq isopen virt k tk_eqb]; fold (isopen nx); rewrite ?NX; try rewrite (noopen_nq _ N1); try reflexivity
            |unfold U; cbn [afterq isopen virt k tk_eqb]; fold (isopen nx); rewrite ?NX]).
  all: try (rewrite (noopen_afterq _ N1); exact N1).
  all: try (constructor; [reflexivity|exact N1]).
  all: try exact (noopen_nq _ N1).
  all: try exact N1.
Qed.

Lemma J_open_emit cl l s : forall o, isopen o = true -> J cl (o :: l) s -> J (TCloseBlock :: cl) l s.
Proof.
  intros o HO [A B]. cbn in A. rewrite HO in A. split.
  - rewrite repeat_snoc. exact A.
  - unfold U in *. cbn in B. rewrite HO in B. exact B.
Qed.

Lemma next_token_stack st t st1 : next_token st = (t, st1) -> stack st1 = stack st.
Proof. destruct st as [a b [|x u] s]; cbn; intros H; [destruct a; inversion H; reflexivity|inversion H; reflexivity]. Qed.

Lemma cls_pos o t c s :
  cls ((match octx o with
        | CRec => if (oline o =? line t)%N then Off (oline o) (ocol o) c else off_at t c
        | _ => off_at t c
        end) :: s) = match cclose c with Some x => x :: cls s | None => cls s end.
Proof. cbn [cls]. destruct (octx o); try reflexivity. destruct (_ =? _)%N; reflexivity. Qed.

Lemma after_offside_J t o st r st' cl : eof_ok st ->
  after_offside t o st = SRet r st' ->
  k t <> TIn -> is_rcloser (k t) = false ->
  (forall x rr, stack st = x :: rr -> octx o = CLet \/ octx o = CType -> cclose (octx x) = None) ->
  J cl (t :: P st) (stack st) ->
  exists cl', bstep cl r = Some cl' /\ J cl' (P st') (stack st').
Proof.
  unfold after_offside. intros E H N1 N2 TOPT HJ.
  destruct (isopen t) eqn:IO.
  { (* a queued OpenBlock is emitted *)
    assert (K : k t = TOpenBlock) by (unfold isopen in IO; destruct (k t); try discriminate; reflexivity).
    rewrite K in H. cbn in H. destruct (octx o); inversion H; subst.
    all: exists (TCloseBlock :: cl); split; [unfold bstep; rewrite K; reflexivity|eapply J_open_emit; eauto]. }
  destruct (J_hand _ _ _ _ IO HJ) as [HC HN].
  destruct (push_context_of (k t)) as [c|] eqn:PC.
  - destruct (push_ctx _ _) as [s|] eqn:PS; [|discriminate]. inversion H; subst r st'. clear H.
    unfold push_ctx in PS. destruct (check_unind _ _ _); [|discriminate]. inversion PS; subst s. clear PS.
    assert (BS : bstep cl t = Some (match cclose c with Some x => x :: cl | None => cl end)).
    { unfold bstep. destruct (k t); cbn in PC; try discriminate; inversion PC; subst c; reflexivity. }
    eexists. split; [exact BS|]. cbn [stack set_stack].
    assert (PE : P (set_stack (if ctx_eqb (octx o) c && match c with CLet | CType => true | _ => false end && second_is_rec (stack st)
                               then set_stack st (tl (stack st)) else st)
                   ((match octx o with CRec => if (oline o =? line t)%N then Off (oline o) (ocol o) c else off_at t c | _ => off_at t c end)
                    :: stack (if ctx_eqb (octx o) c && match c with CLet | CType => true | _ => false end && second_is_rec (stack st)
                               then set_stack st (tl (stack st)) else st))) = P st)
      by (destruct (_ && _); reflexivity).
    rewrite PE. apply J_noopen; [exact HN|]. rewrite cls_pos.
    assert (CS : cls (stack (if ctx_eqb (octx o) c && match c with CLet | CType => true | _ => false end && second_is_rec (stack st)
                             then set_stack st (tl (stack st)) else st)) = cl).
    { destruct (_ && _) eqn:CB; [|exact HC].
      assert (OC : octx o = CLet \/ octx o = CType).
      { apply andb_true_iff in CB. destruct CB as [CB _]. apply andb_true_iff in CB. destruct CB as [X Y].
        destruct c; try discriminate; destruct (octx o); try discriminate; auto. }
      destruct (stack st) as [|x rr] eqn:S; [cbn in CB; rewrite andb_false_r in CB; discriminate|].
      pose proof (TOPT x rr eq_refl OC) as TX. cbn [stack set_stack tl]. cbn in HC. rewrite TX in HC. exact HC. }
    rewrite CS. destruct (cclose c); reflexivity.
  - assert (PL : closer (k t) = None).
    { unfold isopen in IO. destruct (k t); cbn in PC; try discriminate; try reflexivity. }
    assert (BS : bstep cl t = Some cl) by (unfold bstep; rewrite PL, N2; reflexivity).
    assert (Rt : forall s, SRet t s = SRet r st' -> P s = P st -> cls (stack s) = cl ->
                 exists cl', bstep cl r = Some cl' /\ J cl' (P st') (stack st')).
    { intros s Hs HP HCs. injection Hs as Ht Hst. subst r st'. exists cl. split; [exact BS|].
      rewrite HP. apply J_noopen; assumption. }
    assert (ScJ : forall s0 c s, eof_ok s0 -> noopen (P s0) -> cls (stack s0) = cl ->
                 (c = CBlock false \/ c = CMatchClause) ->
                 scan_for_next_block s0 c = Some s -> J cl (P s) (stack s)).
    { intros s0 c s E0 N0 C0 Hc SC. destruct (scan_J _ _ _ E0 N0 SC) as (o' & A & B & Cn & D).
      split; [|exact D]. rewrite A, Cn. cbn [cls]. rewrite B, C0. destruct Hc as [-> | ->]; reflexivity. }
    assert (Sc : forall c, (c = CBlock false \/ c = CMatchClause) ->
                 ret_push t (scan_for_next_block st c) = SRet r st' ->
                 exists cl', bstep cl r = Some cl' /\ J cl' (P st') (stack st')).
    { intros c Hc Hr. destruct (scan_for_next_block st c) as [s|] eqn:SC; [|discriminate].
      injection Hr as Ht Hst. subst r st'. exists cl. split; [exact BS|]. eapply ScJ; eauto. }
    destruct (k t) eqn:K; destruct (octx o) eqn:C; cbn [tk_eqb] in H;
      try (eapply Rt; [exact H|reflexivity|exact HC]; fail);
      try (eapply (Sc (CBlock false)); [left; reflexivity|exact H]; fail);
      try (eapply (Sc CMatchClause); [right; reflexivity|exact H]; fail);
      try (exfalso; apply N1; reflexivity).
    (* TComma, TElse *)
    all: try (eapply Rt; [exact H|reflexivity|cbn [stack set_stack]; rewrite cls_semi; exact HC]; fail).
    all: destruct (next_token st) as [nx st1] eqn:NT;
         pose proof (next_token_stack _ _ _ NT) as HS1;
         destruct (next_token_G _ _ _ E NT) as [_ HE1];
         assert (N2x : noopen (nx :: P st1))
           by (destruct (next_token_X _ _ _ E NT) as [X|(X & Y & Z)];
               [rewrite <- X; exact HN|rewrite Y; constructor; [unfold isopen; rewrite Z; reflexivity|constructor]]);
         match type of H with (if ?c then _ else _) = _ => destruct c end;
         [ destruct (scan_for_next_block _ _) as [s|] eqn:SC; [|discriminate];
           injection H as Ht Hst; subst r st'; exists cl; split; [exact BS|];
           eapply (ScJ (set_unp st1 (nx :: unp st1))); [unfold eof_ok; cbn; rewrite HE1; exact E|exact N2x|cbn; rewrite HS1; exact HC|left; reflexivity|exact SC]
         | injection H as Ht Hst; subst r st'; exists cl; split; [exact BS|];
           apply J_noopen; [exact N2x|cbn; rewrite HS1; exact HC] ].
Qed.

Lemma J_hand_intro cl t l s : isopen t = false -> noopen l -> cls s = cl -> J cl (t :: l) s.
Proof. intros IO N C. apply J_noopen; [constructor; assumption|exact C]. Qed.
Lemma J_stack cl l s s' : cls s' = cls s -> J cl l s -> J cl l s'.
Proof. intros E [A B]. split; [rewrite E; exact A|exact B]. Qed.
Lemma J_push_open cl l s s' o : isopen o = true -> cls s' = TCloseBlock :: cls s -> J cl l s -> J cl (o :: l) s'.
Proof.
  intros IO E [A B]. split.
  - cbn. rewrite IO. cbn. rewrite E, A. reflexivity.
  - unfold U in *. cbn. rewrite IO. exact B.
Qed.
Lemma J_virt cl kd t l s : kd <> TOpenBlock -> isopen t = false -> J cl (t :: l) s -> J cl (virt kd t :: t :: l) s.
Proof.
  intros N IO HJ. destruct (J_hand _ _ _ _ IO HJ) as [A B].
  apply J_hand_intro; [unfold isopen; cbn; destruct kd; try reflexivity; contradiction|constructor; assumption|exact A].
Qed.

(* ---- which iterations keep the correspondence between contexts and brackets ----
   An iteration of the loop of layout_next_token is NOT clean when it
     - takes the give-up exit (layout.rs:325-332, "none of the contexts would be closed by this token
       ... likely a syntax error") while dropping a block / bracket context whose closer the token
       is not, or with an unmatched closing bracket in hand (the exit is also the regular way the
       LAST block or bracket is closed: no context is left that could be closed),
     - `continue`s past a bracket context that the closing token does not match (:397-399),
     - closes a block by unindentation while the token in hand is that block's own queued
       OpenBlock (the body of an explicit `in` left of the enclosing block). *)
Definition transparent (c : ctx) : bool := match cclose c with None => true | Some _ => false end.
Definition clean_step (t : mtok) (st : state) : bool :=
  match stack st with
  | [] => true
  | o :: rest =>
      if tk_eqb (k t) TComma && (match octx o with CBrace | CParen | CBracket => true | _ => false end)
      then true
      else if is_closing (k t) then
        if forallb (fun x => negb (closes (k t) (octx x))) rest
        then match cclose (octx o) with
             | None => negb (is_rcloser (k t))       (* a transparent context, a non-bracket token *)
             | Some c => tk_eqb c (k t)              (* the last block / bracket and ITS closer *)
             end
        else if closes (k t) (octx o) then true
        else transparent (octx o)
      else negb (isopen t && is_block (octx o) && (col t <? ocol o)%N)
  end.

Definition res_J (x : step_res) (cl : list tk) : Prop :=
  match x with
  | SCont t' st' => J cl (t' :: P st') (stack st')
  | SRet r st' => exists cl', bstep cl r = Some cl' /\ J cl' (P st') (stack st')
  | _ => True
  end.

Ltac jsolve IO HN :=
  unfold P in *; cbn [unp toks stack set_unp set_stack app tl]; rewrite ?cls_semi, ?cls_pop_rec;
  repeat match goal with S : stack _ = _ :: _ |- _ => rewrite S end;
  first [ apply J_noopen; [exact HN|]
        | apply J_hand_intro; [exact IO|exact HN|]
        | apply J_hand_intro; [reflexivity|constructor; [exact IO|exact HN]|] ];
  rewrite ?cls_semi, ?cls_pop_rec; cbn [cls];
  repeat match goal with C : octx _ = _ |- _ => rewrite C end;
  cbn [cls octx cclose]; reflexivity.

Lemma open_body_S t loc st ret u r st' :
  open_body t loc st ret u = SRet r st' ->
  r = ret /\ P st' = virt TOpenBlock t :: u ++ toks st /\
  stack st' = Off (oline loc) (ocol loc) (CBlock false) :: stack st.
Proof.
  unfold open_body. destruct (push_ctx st _) as [s1|] eqn:PC; [|discriminate].
  intros H; inversion H; subst. unfold push_ctx in PC. destruct (check_unind _ _ _); [|discriminate].
  inversion PC; subst. unfold P. cbn. auto.
Qed.

Lemma step_J fuel t st cl : eof_ok st -> clean_step t st = true ->
  J cl (t :: P st) (stack st) -> res_J (step fuel t st) cl.
Proof.
  intros E CL HJ. unfold step. unfold clean_step, transparent in CL.
  destruct (stack st) as [|o rest] eqn:S.
  - assert (IO : isopen t = false).
    { destruct HJ as [A _]. cbn in A. destruct (isopen t); [discriminate|reflexivity]. }
    destruct (J_hand _ _ _ _ IO HJ) as [HC HN]. cbn in HC. subst cl.
    destruct (k t) eqn:K; cbn [res_J];
      try (exists []; split; [unfold bstep; rewrite K; reflexivity|apply J_noopen; [exact HN|rewrite S; reflexivity]]; fail);
      (destruct (push_ctx st (off_at t (CBlock false))) as [s1|] eqn:PC; [|exact I];
       unfold push_ctx in PC; destruct (check_unind _ _ _); [|discriminate]; inversion PC; subst s1;
       cbn [layout_token res_J]; exists [TCloseBlock]; split; [reflexivity|];
       unfold P in *; cbn [unp toks stack set_unp set_stack app]; rewrite S;
       apply J_hand_intro; [exact IO|exact HN|reflexivity]).
  - assert (IOK : isopen t = tk_eqb (k t) TOpenBlock) by reflexivity.
    unfold N.ltb in CL.
    destruct (k t) eqn:K; cbn [tk_eqb is_closing andb is_rcloser negb] in *;
      destruct (octx o) as [b| | | | | | | | | | |] eqn:C; cbn [closes tk_eqb andb negb cclose is_block] in *.
    all: try match goal with |- context [forallb ?f ?r] => destruct (forallb f r) eqn:FB end.
    all: try match goal with |- context [N.compare ?x ?y] => destruct (N.compare x y) eqn:CMP end.
    all: try (destruct b).
    all: try match goal with |- context [close_block_resets_semi] => destruct close_block_resets_semi end.
    all: try discriminate CL.
    all: try (rewrite IOK in CL); cbn [andb negb] in CL; try discriminate CL.
    (* transparent pops *)
    all: try (cbn [res_J]; eapply J_stack; [|exact HJ]; cbn [stack set_stack cls]; rewrite C; reflexivity).
    (* the rest of the iteration *)
    all: try (match goal with |- res_J (after_offside ?a ?b ?s) _ =>
                destruct (after_offside a b s) eqn:AO; cbn [res_J]; try exact I;
                [ refine (after_offside_J _ _ _ _ _ _ _ AO _ _ _ _);
                  [exact E|rewrite K; discriminate|rewrite K; reflexivity
                  | intros x rr HS HO; cbn [stack set_stack] in HS; rewrite ?S in HS;
                    destruct HO as [HO|HO]; rewrite C in HO; try discriminate HO;
                    inversion HS; subst; rewrite C; reflexivity
                  | eapply J_stack; [|exact HJ]; cbn [stack set_stack]; rewrite ?S, ?cls_semi; cbn [cls]; rewrite ?C; reflexivity ]
                | exfalso; eapply after_offside_no_cont; exact AO ] end).
    (* a virtual `;` *)
    all: try (match goal with |- context [TSemi] =>
                cbn [layout_token res_J]; exists cl; split; [reflexivity|];
                eapply J_stack; [|exact HJ]; cbn [stack set_stack set_unp]; rewrite ?cls_semi; reflexivity end).
    (* a block closed by unindentation *)
    all: try (match goal with |- res_J (SCont (virt TCloseBlock _) _) _ =>
                cbn [res_J]; cbn [stack set_unp]; rewrite S;
                apply J_virt; [discriminate|exact IOK|exact HJ] end).
    (* tokens returned / CloseBlock emitted by the closing section *)
    all: try (let HC := fresh "HC" in let HN := fresh "HN" in
              destruct (J_hand _ _ _ _ IOK HJ) as [HC HN];
              cbn [cls] in HC; rewrite C in HC; cbn [cclose] in HC; subst;
              cbn [res_J layout_token]; eexists; split;
              [ unfold bstep; cbn [k virt]; rewrite ?K; cbn [closer is_rcloser tk_eqb]; reflexivity
              | jsolve IOK HN ]).
    (* explicit `in` *)
    all: try (destruct rest as [|enc rest']; [exact I|];
              match goal with |- res_J (open_body ?a ?b ?c ?d ?e) _ =>
                destruct (open_body a b c d e) eqn:OB; cbn [res_J]; try exact I;
                [ apply open_body_S in OB; destruct OB as (R1 & R2 & R3); subst;
                  destruct (J_hand _ _ _ _ IOK HJ) as [HC HN];
                  exists cl; split; [unfold bstep; rewrite K; reflexivity|];
                  rewrite R2, R3; cbn [stack set_stack toks];
                  apply (J_push_open cl (P st) (o :: enc :: rest'));
                  [ reflexivity
                  | cbn [cls octx cclose]; rewrite cls_pop_rec, cls_semi, C; reflexivity
                  | apply J_noopen; [exact HN|exact HC] ]
                | exfalso; eapply open_body_no_cont; exact OB ] end).
    (* offside rule of let / type *)
    all: match goal with |- context [continue_block ?f ?c ?x ?y] =>
           destruct (continue_block f c x y) as [[[|] st1]|] eqn:CB; [ | | exact I];
           destruct (continue_block_app _ _ _ _ _ _ E CB) as (es & PA & EA & SA);
           destruct (continue_block_G _ _ _ _ _ _ E CB) as [_ HE1];
           assert (E1 : eof_ok st1) by (unfold eof_ok; rewrite HE1; exact E);
           assert (HJ1 : J cl (t :: P st1) (o :: rest))
             by (rewrite PA; change (t :: P st ++ es) with ((t :: P st) ++ es); apply J_app_es; [apply eofs_noopen; exact EA|exact HJ]);
           assert (S1 : stack st1 = o :: rest) by (rewrite SA; exact S) end.
    all: try (match goal with |- res_J (after_offside ?a ?b ?s) _ =>
                destruct (after_offside a b s) eqn:AO; cbn [res_J]; try exact I;
                [ refine (after_offside_J _ _ _ _ _ _ _ AO _ _ _ _);
                  [exact E1|rewrite K; discriminate|rewrite K; reflexivity
                  | intros x rr HS HO; rewrite S1 in HS; inversion HS; subst; rewrite C; reflexivity
                  | rewrite S1; exact HJ1 ]
                | exfalso; eapply after_offside_no_cont; exact AO ] end).
    all: try (cbn [res_J]; cbn [stack set_stack]; rewrite S1; cbn [tl];
              eapply J_stack; [|exact HJ1]; cbn [cls]; rewrite C; reflexivity).
    all: rewrite S1; cbn [tl]; destruct rest as [|o1 rest1]; [exact I|];
         match goal with |- res_J (open_body ?a ?b ?c ?d ?e) _ =>
           destruct (open_body a b c d e) eqn:OB; cbn [res_J]; try exact I;
           [ apply open_body_S in OB; destruct OB as (R1 & R2 & R3); subst;
             exists cl; split; [reflexivity|];
             rewrite R2, R3; cbn [stack set_stack toks app];
             change (t :: unp st1 ++ toks st1) with (t :: P st1);
             apply (J_push_open cl (t :: P st1) (o :: o1 :: rest1));
             [ reflexivity
             | cbn [cls octx cclose]; rewrite cls_pop_rec, cls_semi, C; reflexivity
             | exact HJ1 ]
           | exfalso; eapply open_body_no_cont; exact OB ] end.
Qed.

(* ---- the restriction: every iteration of the run is clean, and EOF is emitted with no context left ---- *)
Fixpoint loop_clean (n : nat) (fuel : nat) (t : mtok) (st : state) : bool :=
  match n with
  | O => true
  | S m => clean_step t st &&
           match step fuel t st with SCont t' st' => loop_clean m fuel t' st' | _ => true end
  end.
Definition call_clean (fuel : nat) (st : state) : bool :=
  let (t, st1) := next_token st in
  let t1 := match k t with TEOF => MTok (k t) (code t) (line t) 0 (mlo t) (mhi t) | _ => t end in
  match k t, stack st1 with
  | TEOF, [] => true
  | _, _ => loop_clean (loop_fuel st1) fuel t1 st1
  end.
Fixpoint run_clean (n : nat) (fuel : nat) (st : state) : bool :=
  match n with
  | O => true
  | S m => call_clean fuel st &&
           match layout_next_token fuel st with
           | LTok t st' => match k t with
                           | TEOF => match stack st' with [] => true | _ => false end
                           | _ => run_clean m fuel st'
                           end
           | _ => true
           end
  end.
Definition clean_run (raw : list mtok) : bool :=
  run_clean (100 * length raw + 10) (length raw + 5) (St raw (last raw (MTok TEOF 12 0 1 0 0)) [] []).

Lemma J_same_kind cl t t' l s : k t' = k t -> J cl (t :: l) s -> J cl (t' :: l) s.
Proof.
  intros E [A B]. assert (IE : isopen t' = isopen t) by (unfold isopen; rewrite E; reflexivity).
  split.
  - cbn [nq] in *. rewrite IE. exact A.
  - unfold U in *. cbn [afterq] in *. rewrite IE. destruct (isopen t) eqn:IO; [exact B|].
    inversion B; subst. constructor; [exact IE|assumption].
Qed.

Lemma run_loop_J : forall n fuel t st r st' cl, eof_ok st ->
  loop_clean n fuel t st = true -> J cl (t :: P st) (stack st) ->
  run_loop n fuel t st = LTok r st' ->
  exists cl', bstep cl r = Some cl' /\ J cl' (P st') (stack st').
Proof.
  induction n as [|n IH]; intros fuel t st r st' cl E LC HJ H; cbn [run_loop] in H; [discriminate|].
  cbn [loop_clean] in LC. apply andb_true_iff in LC. destruct LC as [CS LC].
  pose proof (step_J fuel t st cl E CS HJ) as SJ. pose proof (step_G fuel t st E) as SG.
  destruct (step fuel t st) as [r1 s1|t1 s1| | |]; try discriminate.
  - inversion H; subst. exact SJ.
  - cbn [res_J] in SJ. cbn [res_ok] in SG.
    assert (E1 : eof_ok s1) by (unfold eof_ok; rewrite (proj2 SG); exact E).
    eapply IH; eauto.
Qed.

Lemma call_J fuel st r st' cl : eof_ok st -> call_clean fuel st = true ->
  J cl (P st) (stack st) -> layout_next_token fuel st = LTok r st' ->
  exists cl', bstep cl r = Some cl' /\ J cl' (P st') (stack st').
Proof.
  unfold layout_next_token, call_clean. intros E CC HJ H.
  destruct (next_token st) as [t st1] eqn:NT.
  pose proof (next_token_stack _ _ _ NT) as HS.
  destruct (next_token_G _ _ _ E NT) as [_ HE].
  assert (E1 : eof_ok st1) by (unfold eof_ok; rewrite HE; exact E).
  assert (HJ1 : J cl (t :: P st1) (stack st1)).
  { rewrite HS. destruct (next_token_X _ _ _ E NT) as [X|(X & Y & Z)].
    - rewrite <- X. exact HJ.
    - rewrite X in HJ. rewrite Y. destruct HJ as [A _]. cbn in A.
      apply J_hand_intro; [unfold isopen; rewrite Z; reflexivity|constructor|exact A]. }
  destruct (k t) eqn:K.
  2-30: (eapply run_loop_J; [exact E1|exact CC|exact HJ1|exact H]).
  assert (HJz : J cl (MTok TEOF (code t) (line t) 0%N (mlo t) (mhi t) :: P st1) (stack st1))
    by (eapply J_same_kind; [|exact HJ1]; rewrite K; reflexivity).
  destruct (stack st1) eqn:S.
  - inversion H; subst. exists cl. split; [reflexivity|].
    assert (IO : isopen t = false) by (unfold isopen; rewrite K; reflexivity).
    destruct (J_hand _ _ _ _ IO HJ1) as [A B]. rewrite S. apply J_noopen; assumption.
  - rewrite <- S in *. eapply run_loop_J; [exact E1|exact CC|exact HJz|exact H].
Qed.

Lemma bal_snoc cl acc t cl0 : bal cl0 (rev acc) = Some cl -> bal cl0 (rev (t :: acc)) = bstep cl t.
Proof. intros H. cbn [rev]. rewrite bal_app, H. cbn. destruct (bstep cl t); reflexivity. Qed.

Lemma run_J : forall n fuel st acc cl out, eof_ok st ->
  run_clean n fuel st = true -> bal [] (rev acc) = Some cl -> J cl (P st) (stack st) ->
  run n fuel st acc = ROk out -> bal [] out = Some [].
Proof.
  induction n as [|n IH]; intros fuel st acc cl out E RC HB HJ H; cbn [run] in H; [discriminate|].
  cbn [run_clean] in RC. apply andb_true_iff in RC. destruct RC as [CC RC].
  destruct (layout_next_token fuel st) as [t st'| | | |] eqn:L; try discriminate.
  destruct (call_J _ _ _ _ _ E CC HJ L) as (cl' & BS & HJ').
  destruct (layout_next_token_G _ _ _ _ E L) as [_ HE].
  assert (E1 : eof_ok st') by (unfold eof_ok; rewrite HE; exact E).
  destruct (k t) eqn:K.
  2-30: (eapply (IH fuel st' (t :: acc) cl'); [exact E1|exact RC| |exact HJ'|exact H];
         rewrite (bal_snoc _ _ _ _ HB); exact BS).
  inversion H; subst out.
  destruct (stack st') eqn:S; [|discriminate].
  assert (cl' = cl) by (unfold bstep in BS; rewrite K in BS; cbn in BS; inversion BS; reflexivity). subst cl'.
  destruct HJ' as [A _]. cbn in A.
  destruct (nq (P st')); cbn in A; [|discriminate]. subst cl. exact HB.
Qed.

(* On a run that reaches the end of the input, is clean (see [clean_step]) and emits EOF with no
   context left open, the virtual OpenBlock / CloseBlock tokens of the model's output are balanced and
   properly nested with the real brackets `( ) { } [ ] #[`. *)
Theorem layout_model_balanced_partial raw out :
  k (last raw (MTok TEOF 12 0 1 0 0)) = TEOF -> noopen raw ->
  clean_run raw = true -> layout raw = ROk out -> bal [] out = Some [].
Proof.
  intros E N CR H. unfold layout in H. unfold clean_run in CR.
  eapply (run_J _ _ (St raw (last raw (MTok TEOF 12 0 1 0 0)) [] []) [] []); [exact E|exact CR|reflexivity| |exact H].
  apply J_noopen; [unfold P; cbn; exact N|reflexivity].
Qed.
