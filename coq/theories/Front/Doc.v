(* A Wadler-style document algebra and its renderer: the formal core of "breaking lines never
   changes the token sequence".  Definitions only; the theorem is in DocProofs.v.

   The formatter (format/src/pretty_print.rs) builds a `pretty::Doc` from the syntax tree and calls
   `doc.pretty(width)`.  The constructors used there map to this algebra as follows:
     arena.nil / text / line / hardline / append / nest / group   DNil DText DLine DHardLine DCat DNest DGroup
     arena.softline()  = group(line)                              softline
     x.flat_alt(y), arena.line_() = hardline.flat_alt(nil)        DFlatAlt x y   (alternative texts)
   The 1 200 lines that construct the document are not modelled (DESIGN.md, C10 "Not covered"). *)
From Coq Require Import List NArith Bool Arith.
From GV Require Import Front.CommentIter.
Import ListNotations.

Inductive doc :=
| DNil
| DText (s : bytes)
| DLine                          (* a space when flat, a line break otherwise *)
| DHardLine                      (* always a line break *)
| DCat (a b : doc)
| DNest (k : nat) (d : doc)
| DGroup (d : doc)
| DFlatAlt (broken flat : doc).  (* [broken] when the enclosing group is broken, [flat] when it is flat *)

Definition softline : doc := DGroup DLine.

Fixpoint no_flat_alt (d : doc) : bool :=
  match d with
  | DCat a b => no_flat_alt a && no_flat_alt b
  | DNest _ d | DGroup d => no_flat_alt d
  | DFlatAlt _ _ => false
  | _ => true
  end.

Fixpoint has_hard (d : doc) : bool :=
  match d with
  | DHardLine => true
  | DCat a b => has_hard a || has_hard b
  | DNest _ d | DGroup d => has_hard d
  | DFlatAlt _ b => has_hard b
  | _ => false
  end.

(* width of the flat layout *)
Fixpoint flat_width (d : doc) : nat :=
  match d with
  | DNil | DHardLine => 0
  | DText s => length s
  | DLine => 1
  | DCat a b => flat_width a + flat_width b
  | DNest _ d | DGroup d => flat_width d
  | DFlatAlt _ b => flat_width b
  end.

(* text that follows on the same line when the rest is laid out broken *)
Fixpoint head_width (d : doc) (tail : nat) : nat :=
  match d with
  | DNil => tail
  | DText s => length s + tail
  | DLine | DHardLine => 0
  | DCat a b => head_width a (head_width b tail)
  | DNest _ d | DGroup d => head_width d tail
  | DFlatAlt a _ => head_width a tail
  end.

Definition newline (ind : nat) : bytes := NL :: repeat 32%N ind.

(* [layout w flat ind d tail col]: text and end column of [d] started at column [col] with
   indentation [ind]; [tail] is the width of what follows on the same line.  A group is laid out
   flat when it contains no hard line break and fits into the remaining width. *)
Fixpoint layout (w : nat) (flat : bool) (ind : nat) (d : doc) (tail : nat) (col : nat) : bytes * nat :=
  match d with
  | DNil => ([], col)
  | DText s => (s, col + length s)
  | DLine => if flat then ([32%N], S col) else (newline ind, ind)
  | DHardLine => (newline ind, ind)
  | DCat a b =>
      let '(oa, c1) := layout w flat ind a (head_width b tail) col in
      let '(ob, c2) := layout w flat ind b tail c1 in
      (oa ++ ob, c2)
  | DNest k d => layout w flat (ind + k) d tail col
  | DGroup d =>
      let fits := negb (has_hard d) && (col + flat_width d + tail <=? w) in
      layout w (flat || fits) ind d tail col
  | DFlatAlt a b => if flat then layout w flat ind b tail col else layout w flat ind a tail col
  end.

Definition render (w : nat) (d : doc) : bytes := fst (layout w false 0 d 0 0).

(* The non-blank tokens of a text: maximal runs of non-white-space bytes. *)
Fixpoint feed (cur : bytes) (s : bytes) : list bytes * bytes :=
  match s with
  | [] => ([], cur)
  | b :: r =>
      if is_ws b then
        let '(e, c) := feed [] r in
        (match cur with [] => e | _ => rev cur :: e end, c)
      else feed (b :: cur) r
  end.

Definition flush (cur : bytes) : list bytes := match cur with [] => [] | _ => [rev cur] end.

Definition words (s : bytes) : list bytes := let '(e, c) := feed [] s in e ++ flush c.
