(* Model of `OpTable::get` (parser/src/infix.rs:102): user table first, then the built-in
   table for names that start with '#' or are `&&` / `||`, after stripping the leading
   '#'s and the alphanumeric type prefix (`#Int+` -> `+`).  Names are byte lists; the
   alphanumeric test is the ASCII one (the harness only generates ASCII operator names). *)
From Coq Require Import List ZArith NArith Bool.
From GV Require Import Front.Infix.
From GVgen Require Import OpTableGen.
Import ListNotations.

Definition name := list N.

Fixpoint name_eqb (a b : name) : bool :=
  match a, b with
  | [], [] => true
  | x :: a', y :: b' => N.eqb x y && name_eqb a' b'
  | _, _ => false
  end.

Definition is_alnum (c : N) : bool :=
  (N.leb 48 c && N.leb c 57) || (N.leb 65 c && N.leb c 90) || (N.leb 97 c && N.leb c 122).

Fixpoint drop_while (p : N -> bool) (s : name) : name :=
  match s with [] => [] | c :: s' => if p c then drop_while p s' else s end.

Fixpoint assoc (k : name) (t : list (name * meta)) : option meta :=
  match t with
  | [] => None
  | (k', m) :: t' => if name_eqb k' k then Some m else assoc k t'
  end.

Definition amp2 : name := [38; 38]%N.
Definition bar2 : name := [124; 124]%N.

Definition builtin_lookup (n : name) : option meta :=
  match n with
  | c :: _ =>
      if N.eqb c 35 || name_eqb n amp2 || name_eqb n bar2
      then assoc (drop_while is_alnum (drop_while (N.eqb 35) n)) builtin_ops
      else None
  | [] => None
  end.

Definition lookup (user : list (name * meta)) (n : name) : option meta :=
  match assoc n user with Some m => Some m | None => builtin_lookup n end.

Definition default_meta : meta := {| prec := 0; fix_ := FL |}.

(* chain over names, resolved through [lookup]; None when some operator has no fixity *)
Definition tbl_of (ms : list meta) (i : nat) : meta := nth i ms default_meta.

Fixpoint resolve (user : list (name * meta)) (ops : list name) : option (list meta) :=
  match ops with
  | [] => Some []
  | o :: ops' =>
      match lookup user o, resolve user ops' with
      | Some m, Some ms => Some (m :: ms)
      | _, _ => None
      end
  end.

(* The executable entry point used by the correspondence check: operators are numbered by
   their position in [ops]; the chain refers to them by index. *)
Definition reparse_named (user : list (name * meta)) (ops : list name)
           (a0 : nat) (rest : list (nat * nat)) : option (res tree) :=
  match resolve user ops with
  | Some ms => Some (reparse (tbl_of ms) a0 rest)
  | None => None
  end.
