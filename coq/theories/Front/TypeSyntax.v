(* C18 -- model of the type printer and of the type grammar.  Definitions only (extracted).

   [pr]/[print] mirror `DisplayType::pretty_` and friends in /repo/base/src/types/mod.rs
   (2617 pretty_, 2794 pretty_record_like, 2833 pretty_row, 2977 pretty_function,
   2987 pretty_function_): what is kept is the token sequence (every `line`/`hardline`/`nest`/
   `group` of the document only produces white space).  The parenthesisation decisions go
   through the GENERATED [enclose] (coq/gen/PrecGen.v, from `Prec::enclose`).

   [parse_type], [parse_top], ... are a fuelled recursive-descent reading of the rules
   AtomicType_ / AppType_ / Type_ / ArgType / RecordField / Effect / VariantField / VariantType /
   TypeTop of /repo/parser/src/grammar.lalrpop (444-550, 305-381).

   Names are abstract ([nat], interned by the harness; 0 is the hole `_`).  Builtin types,
   identifiers and generics are one constructor [TId]: printer and grammar treat them alike
   (one identifier token), the spelling alone decides which `Type::` node the parser builds. *)
From Coq Require Import List Bool Arith.
From GVgen Require Import PrecGen.
Import ListNotations.

Definition name := nat.
Definition hole : name := 0.
(* The grammar looks at the spelling of an identifier in two places (CtorIdent, and the field
   name of `id ":" Type_` in RecordField): does it start with an uppercase letter?  The harness
   interns names so that exactly the names with an initial uppercase letter are odd. *)
Definition upper (n : name) : bool := Nat.odd n.

Inductive token :=
| TkId (n : name)          (* identifier *)
| TkOp (n : name)          (* an operator that is not one of the reserved ones below *)
| TkLP | TkRP              (* ( ) *)
| TkLB | TkRB              (* [ ] *)
| TkLC | TkRC              (* { } *)
| TkComma | TkColon | TkEq | TkPipe | TkDot | TkDotDot | TkArrow | TkForall.

(* field names: `x` or an operator, printed `(+)` (pretty_print.rs:14 `ident`) *)
Inductive fname := FId (n : name) | FOp (n : name).

Inductive ty :=
| TId (n : name)                                     (* Builtin / Ident / Generic / Alias *)
| TFunCon                                            (* Builtin(Function): `(->)` *)
| TFun (imp : bool) (a r : ty)                       (* Function(Explicit|Implicit, a, r) *)
| TApp (f : ty) (args : tys)                         (* App(f, args) *)
| TForall (vs : list name) (t : ty)                  (* Forall(params, t) *)
| TRecord (tfs : tfields) (fs : fields) (rest : orest)  (* Record(ExtendTypeRow{tfs, ExtendRow{fs, rest}}) *)
| TVariant (cs : ctors) (rest : orest)               (* Variant(ExtendRow{cs, rest}) *)
| TTuple (ts : tys)                                  (* Record with fields _0 .. _n; `()` = TTuple TNil *)
| TEffect (fs : fields) (rest : orest)               (* Effect(ExtendRow{fs, rest}) *)
with tys := TNil | TCons (t : ty) (l : tys)
with fields := FNil | FCons (n : fname) (t : ty) (fs : fields)
with tfields := TFNil | TFCons (n : name) (ps : list name) (t : ty) (tfs : tfields)
with ctors :=
| CNil
| CSimple (n : name) (args : tys) (cs : ctors)       (* `| A t1 .. tn`  (field type: t1 -> .. -> tn -> Opaque) *)
| CGadt (n : name) (t : ty) (cs : ctors)             (* `| A : t` *)
with orest := RNone | RSome (t : ty).                (* EmptyRow | any other row tail *)

(* ------------------------------------------------------------------------------------------ *)
(* Printer                                                                                    *)
(* ------------------------------------------------------------------------------------------ *)

(* `p.enclose(limit, arena, doc)` *)
Definition paren (b : bool) (l : list token) : list token :=
  if b then TkLP :: l ++ [TkRP] else l.

Definition print_fname (f : fname) : list token :=
  match f with FId n => [TkId n] | FOp n => [TkLP; TkOp n; TkRP] end.

Definition fields_nonempty (fs : fields) : bool := match fs with FNil => false | _ => true end.

(* [ret] = true: the type is the return type reached through `pretty_function_` (mod.rs:3013
   `top(ret).pretty_function_(printer)`): a function there is NOT passed through `enclose`;
   anything else is printed by `self.pretty(printer)` at `Prec::Top`. *)
Fixpoint pr (ret : bool) (p : prec) (t : ty) {struct t} : list token :=
  match t with
  | TId n => [TkId n]                                                       (* 2656, 2751, 2783 *)
  | TFunCon => [TkLP; TkArrow; TkRP]                                        (* 2752 *)
  | TFun imp a r =>                                                         (* 2657, 2977-3017 *)
      paren (negb ret && enclose p PFunction)
        ((if imp then TkLB :: pr false PFunction a ++ [TkRB] else pr false PFunction a)
           ++ TkArrow :: pr true PTop r)
  | TApp f args =>                                                          (* 2658-2669 *)
      paren (enclose p PConstructor) (pr false PTop f ++ pr_args args)
  | TForall vs t' =>                                                        (* 2630-2651 *)
      paren (enclose p PFunction) (TkForall :: map TkId vs ++ TkDot :: pr false PTop t')
  | TRecord tfs fs rest =>                                                  (* 2755-2769 *)
      match tfs, fs with
      | TFNil, FNil =>
          (* is_tuple (2576) holds vacuously, whatever the row tail is: open = "(" *)
          TkLP :: pr_rest rest ++ [TkRP]
      | _, _ =>
          TkLC :: pr_tfields (fields_nonempty fs) tfs ++ pr_fields fs ++ pr_rest rest ++ [TkRC]
      end
  | TTuple ts => TkLP :: pr_commas ts ++ [TkRP]                             (* 2757 *)
  | TEffect fs rest =>                                                      (* 2736-2749 *)
      TkLB :: TkPipe :: pr_fields fs ++ pr_rest rest ++ [TkPipe; TkRB]
  | TVariant cs rest =>                                                     (* 2671-2734 *)
      paren (enclose p PConstructor) (pr_ctors cs ++ pr_vrest rest)
  end
with pr_args (l : tys) : list token :=                                      (* 2662-2666, 2698-2704 *)
  match l with
  | TNil => []
  | TCons t l' => pr false PConstructor t ++ pr_args l'
  end
with pr_commas (l : tys) : list token :=                                    (* pretty_row, open = "(" *)
  match l with
  | TNil => []
  | TCons t l' =>
      pr false PTop t ++ match l' with TNil => [] | TCons _ _ => TkComma :: pr_commas l' end
  end
with pr_fields (fs : fields) : list token :=                                (* 2909-2944 *)
  match fs with
  | FNil => []
  | FCons n t fs' =>
      print_fname n ++ TkColon :: pr false PTop t
        ++ match fs' with FNil => [] | FCons _ _ _ => TkComma :: pr_fields fs' end
  end
with pr_tfields (more : bool) (tfs : tfields) : list token :=               (* 2871-2907 *)
  match tfs with
  | TFNil => []
  | TFCons n ps t tfs' =>
      TkId n :: map TkId ps ++ TkEq :: pr false PTop t
        ++ match tfs' with
           | TFNil => if more then [TkComma] else []     (* `i + 1 != types_len || print_any_field` *)
           | TFCons _ _ _ _ => TkComma :: pr_tfields more tfs'
           end
  end
with pr_rest (r : orest) : list token :=                                    (* 2968-2974, 2820-2824 *)
  match r with RNone => [] | RSome t => TkPipe :: pr false PTop t end
with pr_vrest (r : orest) : list token :=                                   (* 2720-2728 *)
  match r with RNone => [] | RSome t => TkDotDot :: pr false PTop t end
with pr_ctors (cs : ctors) : list token :=                                  (* 2684-2717 *)
  match cs with
  | CNil => []
  | CSimple n args cs' => TkPipe :: TkId n :: pr_args args ++ pr_ctors cs'
  | CGadt n t cs' => TkPipe :: TkId n :: TkColon :: pr false PTop t ++ pr_ctors cs'
  end.

Definition print (p : prec) (t : ty) : list token := pr false p t.

(* ------------------------------------------------------------------------------------------ *)
(* Parser                                                                                     *)
(* ------------------------------------------------------------------------------------------ *)

(* one-token look-ahead tests *)
Definition is_comma (ts : list token) : bool := match ts with TkComma :: _ => true | _ => false end.
Definition is_colon (ts : list token) : bool := match ts with TkColon :: _ => true | _ => false end.
Definition is_eq (ts : list token) : bool := match ts with TkEq :: _ => true | _ => false end.
Definition is_pipe (ts : list token) : bool := match ts with TkPipe :: _ => true | _ => false end.
Definition is_arrow (ts : list token) : bool := match ts with TkArrow :: _ => true | _ => false end.
Definition is_dot (ts : list token) : bool := match ts with TkDot :: _ => true | _ => false end.
Definition is_dotdot (ts : list token) : bool := match ts with TkDotDot :: _ => true | _ => false end.
Definition is_rp (ts : list token) : bool := match ts with TkRP :: _ => true | _ => false end.
Definition is_rb (ts : list token) : bool := match ts with TkRB :: _ => true | _ => false end.
Definition is_rc (ts : list token) : bool := match ts with TkRC :: _ => true | _ => false end.
Definition is_lp (ts : list token) : bool := match ts with TkLP :: _ => true | _ => false end.

(* tokens that can begin an AtomicType *)
Definition starts_atomic (ts : list token) : bool :=
  match ts with
  | TkId _ :: _ | TkLP :: _ | TkLB :: _ | TkLC :: _ => true
  | _ => false
  end.

(* tokens that can begin a Type *)
Definition starts_type (ts : list token) : bool :=
  match ts with
  | TkForall :: _ => true
  | _ => starts_atomic ts
  end.

(* Ident+ / Many<GenericIdent>: the longest run of identifiers *)
Fixpoint take_ids (ts : list token) : list name * list token :=
  match ts with
  | TkId n :: r => let (ns, r') := take_ids r in (n :: ns, r')
  | _ => ([], ts)
  end.

(* IdentStr: identifier | "(" operator ")" *)
Definition parse_fname (ts : list token) : option (fname * list token) :=
  match ts with
  | TkId n :: r => Some (FId n, r)
  | TkLP :: TkOp n :: TkRP :: r => Some (FOp n, r)
  | _ => None
  end.

Definition fname_upper (fn : fname) : bool := match fn with FId x => upper x | FOp _ => false end.

(* what an AtomicType_ starting with this token sequence is *)
Inductive atom_kind := AkId (x : name) | AkFunCon | AkDotDot | AkTypes | AkRecord | AkEffect | AkNone.
Definition classify_atomic (ts : list token) : atom_kind :=
  match ts with
  | TkId x :: _ => AkId x
  | TkLP :: TkArrow :: TkRP :: _ => AkFunCon            (* "(" "->" ")" *)
  | TkLP :: TkArrow :: _ => AkNone
  | TkLP :: TkDotDot :: _ => AkDotDot                   (* "(" ".." AtomicType ")" *)
  | TkLP :: _ => AkTypes                                (* "(" CommaTemp<Type> ")" *)
  | TkLC :: _ => AkRecord
  | TkLB :: TkPipe :: _ => AkEffect
  | _ => AkNone
  end.

(* what a Type_ starting with this token sequence is *)
Inductive ty_kind := KForall | KImplicit | KApp.
Definition classify_type (ts : list token) : ty_kind :=
  match ts with
  | TkForall :: _ => KForall
  | TkLB :: TkPipe :: _ => KApp           (* effect row `[| .. |]` *)
  | TkLB :: _ => KImplicit                (* ArgType: "[" Type_ "]" *)
  | _ => KApp
  end.

Definition tl2 (ts : list token) := tl (tl ts).
Definition tl3 (ts : list token) := tl (tl (tl ts)).

Fixpoint parse_atomic (fuel : nat) (ts : list token) {struct fuel} : option (ty * list token) :=
  match fuel with
  | O => None
  | S n =>
      match classify_atomic ts with
      | AkId x => Some (TId x, tl ts)
      | AkFunCon => Some (TFunCon, tl3 ts)
      | AkDotDot =>
          match parse_atomic n (tl2 ts) with
          | Some (t, r) => if is_rp r then Some (TVariant CNil (RSome t), tl r) else None
          | None => None
          end
      | AkTypes =>
          match parse_commas n (tl ts) with
          | Some (l, r) =>
              if is_rp r
              then Some (match l with TCons t TNil => t | _ => TTuple l end, tl r)
              else None
          | None => None
          end
      | AkRecord =>                                       (* "{" CommaTemp<RecordField> ("|" Type)? "}" *)
          match parse_rfields n (tl ts) with
          | Some (tfs, fs, r1) =>
              match parse_rest n r1 with
              | Some (rest, r2) => if is_rc r2 then Some (TRecord tfs fs rest, tl r2) else None
              | None => None
              end
          | None => None
          end
      | AkEffect =>                                       (* "[" "|" SepSlice<Effect, ","> ("|" Type)? "|" "]" *)
          match parse_efields n (tl2 ts) with
          | Some (fs, r1) =>
              if is_pipe r1 && is_rb (tl r1) then Some (TEffect fs RNone, tl2 r1)
              else
                match parse_rest n r1 with
                | Some (rest, r2) =>
                    if is_pipe r2 && is_rb (tl r2) then Some (TEffect fs rest, tl2 r2) else None
                | None => None
                end
          | None => None
          end
      | AkNone => None
      end
  end

(* AtomicType* (greedy) *)
with parse_atomics (fuel : nat) (ts : list token) {struct fuel} : option (tys * list token) :=
  match fuel with
  | O => None
  | S n =>
      if starts_atomic ts then
        match parse_atomic n ts with
        | Some (t, r) =>
            match parse_atomics n r with
            | Some (l, r') => Some (TCons t l, r')
            | None => None
            end
        | None => None
        end
      else Some (TNil, ts)
  end

(* AppType_ *)
with parse_app (fuel : nat) (ts : list token) {struct fuel} : option (ty * list token) :=
  match fuel with
  | O => None
  | S n =>
      match parse_atomic n ts with
      | Some (f, r) =>
          if starts_atomic r then
            match parse_atomics n r with
            | Some (args, r') => Some (TApp f args, r')
            | None => None
            end
          else Some (f, r)
      | None => None
      end
  end

(* Type_ *)
with parse_type (fuel : nat) (ts : list token) {struct fuel} : option (ty * list token) :=
  match fuel with
  | O => None
  | S n =>
      match classify_type ts with
      | KForall =>                                        (* "forall" Ident+ "." Type *)
          let (vs, r) := take_ids (tl ts) in
          match vs with
          | [] => None
          | _ :: _ =>
              if is_dot r then
                match parse_type n (tl r) with
                | Some (t, r') => Some (TForall vs t, r')
                | None => None
                end
              else None
          end
      | KImplicit =>                                      (* "[" Type_ "]" "->" Type *)
          match parse_type n (tl ts) with
          | Some (a, r) =>
              if is_rb r && is_arrow (tl r) then
                match parse_type n (tl2 r) with
                | Some (b, r') => Some (TFun true a b, r')
                | None => None
                end
              else None
          | None => None
          end
      | KApp =>                                           (* AppType ("->" Type)? *)
          match parse_app n ts with
          | Some (a, r) =>
              if is_arrow r then
                match parse_type n (tl r) with
                | Some (b, r') => Some (TFun false a b, r')
                | None => None
                end
              else Some (a, r)
          | None => None
          end
      end
  end

(* CommaTemp<Type> = (Type ",")* Type? *)
with parse_commas (fuel : nat) (ts : list token) {struct fuel} : option (tys * list token) :=
  match fuel with
  | O => None
  | S n =>
      if starts_type ts then
        match parse_type n ts with
        | Some (t, r) =>
            if is_comma r then
              match parse_commas n (tl r) with
              | Some (l, r') => Some (TCons t l, r')
              | None => None
              end
            else Some (TCons t TNil, r)
        | None => None
        end
      else Some (TNil, ts)
  end

(* CommaTemp<RecordField>; type fields and value fields are collected separately, each in
   source order (grammar.lalrpop:493-508) *)
with parse_rfields (fuel : nat) (ts : list token) {struct fuel} : option (tfields * fields * list token) :=
  match fuel with
  | O => None
  | S n =>
      match parse_fname ts with
      | None => Some (TFNil, FNil, ts)
      | Some (fn, r) =>
          if is_colon r then                              (* id ":" Type_ ; an uppercase id is an error (329-342) *)
            if fname_upper fn then None else
            match parse_type n (tl r) with
            | Some (t, r') =>
                if is_comma r' then
                  match parse_rfields n (tl r') with
                  | Some (tfs, fs, r'') => Some (tfs, FCons fn t fs, r'')
                  | None => None
                  end
                else Some (TFNil, FCons fn t FNil, r')
            | None => None
            end
          else
            match fn with
            | FOp _ => None
            | FId x =>
                let (ps, r1) := take_ids r in
                if is_eq r1 then                          (* id params "=" Type_ *)
                  match parse_type n (tl r1) with
                  | Some (t, r') =>
                      if is_comma r' then
                        match parse_rfields n (tl r') with
                        | Some (tfs, fs, r'') => Some (TFCons x ps t tfs, fs, r'')
                        | None => None
                        end
                      else Some (TFCons x ps t TFNil, FNil, r')
                  | None => None
                  end
                else
                  match ps with
                  | [] =>                                 (* id alone: a type field of type `_` *)
                      if is_comma r1 then
                        match parse_rfields n (tl r1) with
                        | Some (tfs, fs, r'') => Some (TFCons x [] (TId hole) tfs, fs, r'')
                        | None => None
                        end
                      else Some (TFCons x [] (TId hole) TFNil, FNil, r1)
                  | _ :: _ => None
                  end
            end
      end
  end

(* SepSlice<Effect, ","> with Effect = Ident ":" Type *)
with parse_efields (fuel : nat) (ts : list token) {struct fuel} : option (fields * list token) :=
  match fuel with
  | O => None
  | S n =>
      match parse_fname ts with
      | None => Some (FNil, ts)
      | Some (fn, r) =>
          if is_colon r then
            match parse_type n (tl r) with
            | Some (t, r') =>
                if is_comma r' then
                  match parse_efields n (tl r') with
                  | Some (fs, r'') => Some (FCons fn t fs, r'')
                  | None => None
                  end
                else Some (FCons fn t FNil, r')
            | None => None
            end
          else None
      end
  end

(* ("|" Type)? *)
with parse_rest (fuel : nat) (ts : list token) {struct fuel} : option (orest * list token) :=
  match fuel with
  | O => None
  | S n =>
      if is_pipe ts then
        match parse_type n (tl ts) with
        | Some (t, r') => Some (RSome t, r')
        | None => None
        end
      else Some (RNone, ts)
  end.

(* TypeBinding turns every argument of the function spine of a GADT-style constructor into a
   constructor field: `*arg_type = ArgType::Constructor` (grammar.lalrpop:401-408), so an implicit
   argument `[a] ->` there reads back as a plain one. *)
Fixpoint explicit_spine (t : ty) : ty :=
  match t with
  | TFun _ a r => TFun false a (explicit_spine r)
  | _ => t
  end.

(* the constructor name after "|" *)
Definition ctor_name (ts : list token) : option name :=
  match ts with TkId c :: _ => Some c | _ => None end.

(* VariantField* : "|" CtorIdent AtomicType*  |  "|" CtorIdent ":" Type ; CtorIdent must start
   with an uppercase letter (grammar.lalrpop:196-205) *)
Fixpoint parse_ctors (fuel : nat) (ts : list token) {struct fuel} : option (ctors * list token) :=
  match fuel with
  | O => None
  | S n =>
      if is_pipe ts then
        match ctor_name (tl ts) with
        | None => None
        | Some c =>
            if negb (upper c) then None else
            if is_colon (tl2 ts) then
              match parse_type n (tl3 ts) with
              | Some (t, r1) =>
                  match parse_ctors n r1 with
                  | Some (cs, r2) => Some (CGadt c (explicit_spine t) cs, r2)
                  | None => None
                  end
              | None => None
              end
            else
              match parse_atomics n (tl2 ts) with
              | Some (args, r1) =>
                  match parse_ctors n r1 with
                  | Some (cs, r2) => Some (CSimple c args cs, r2)
                  | None => None
                  end
              | None => None
              end
        end
      else Some (CNil, ts)
  end.

(* VariantField+ (".." AtomicType)? *)
Definition parse_variant (fuel : nat) (ts : list token) : option (ty * list token) :=
  if is_pipe ts then
    match parse_ctors fuel ts with
    | Some (cs, r) =>
        if is_dotdot r then
          match parse_atomic fuel (tl r) with
          | Some (t, r') => Some (TVariant cs (RSome t), r')
          | None => None
          end
        else Some (TVariant cs RNone, r)
    | None => None
    end
  else None.

(* "forall" Ident+ "." "(" "|" ...: the quantified variant of VariantType (grammar.lalrpop:363) *)
Definition forall_variant (ts : list token) : bool :=
  match ts with
  | TkForall :: r =>
      match take_ids r with
      | (_ :: _, TkDot :: TkLP :: TkPipe :: _) => true
      | _ => false
      end
  | _ => false
  end.

(* TypeTop: the body of `type T = ...` (grammar.lalrpop:369-381, 357-367) *)
Definition parse_top (fuel : nat) (ts : list token) : option (ty * list token) :=
  if is_dotdot ts then                                    (* ".." AtomicType *)
    match parse_atomic fuel (tl ts) with
    | Some (t, r') => Some (TVariant CNil (RSome t), r')
    | None => None
    end
  else if is_pipe ts then parse_variant fuel ts
  else if forall_variant ts then                          (* "forall" Ident+ "." "(" VariantType ")" *)
    let (vs, r) := take_ids (tl ts) in
    match parse_variant fuel (tl2 r) with
    | Some (t, r2) => if is_rp r2 then Some (TForall vs t, tl r2) else None
    | None => None
    end
  else parse_type fuel ts.

(* ------------------------------------------------------------------------------------------ *)
(* Fuel that suffices for a printed type (TypeSyntaxProofs.v)                                 *)
(* ------------------------------------------------------------------------------------------ *)
Fixpoint need (t : ty) : nat :=
  match t with
  | TId _ | TFunCon => 4
  | TFun _ a r => 8 + need a + need r
  | TApp f args => 8 + need f + need_tys args
  | TForall _ t' => 8 + need t'
  | TRecord tfs fs rest => 8 + need_tfields tfs + need_fields fs + need_rest rest
  | TVariant cs rest => 8 + need_ctors cs + need_rest rest
  | TTuple ts => 8 + need_tys ts
  | TEffect fs rest => 8 + need_fields fs + need_rest rest
  end
with need_tys (l : tys) : nat :=
  match l with TNil => 4 | TCons t l' => 4 + need t + need_tys l' end
with need_fields (fs : fields) : nat :=
  match fs with FNil => 4 | FCons _ t fs' => 4 + need t + need_fields fs' end
with need_tfields (tfs : tfields) : nat :=
  match tfs with TFNil => 4 | TFCons _ _ t tfs' => 4 + need t + need_tfields tfs' end
with need_ctors (cs : ctors) : nat :=
  match cs with
  | CNil => 4
  | CSimple _ args cs' => 4 + need_tys args + need_ctors cs'
  | CGadt _ t cs' => 4 + need t + need_ctors cs'
  end
with need_rest (r : orest) : nat :=
  match r with RNone => 4 | RSome t => 4 + need t end.

Definition fuel_for (t : ty) : nat := need t.

(* entry points used by the driver: the whole input must be consumed *)
Definition parse_type_all (fuel : nat) (ts : list token) : option ty :=
  match parse_type fuel ts with Some (t, []) => Some t | _ => None end.
Definition parse_top_all (fuel : nat) (ts : list token) : option ty :=
  match parse_top fuel ts with Some (t, []) => Some t | _ => None end.
