(* Theorems about the validator (Front/FmtCheck.v). *)
From Coq Require Import List NArith Bool Arith Lia.
From GV Require Import Front.CommentIter Front.CommentIterProofs Front.FmtCheck.
Import ListNotations.

(* ------------------------------------------------------------------------------------ *)
(* 1. Soundness of the checker *)

Lemma bytes_eqb_eq : forall a b, bytes_eqb a b = true -> a = b.
Proof.
  induction a as [|x a IH]; destruct b as [|y b]; simpl; intros H; try discriminate; [reflexivity|].
  apply andb_true_iff in H as [H1 H2]. apply N.eqb_eq in H1. subst. f_equal. auto.
Qed.

Lemma bytes_eqb_refl : forall a, bytes_eqb a a = true.
Proof. induction a as [|x a IH]; simpl; [reflexivity|]. now rewrite N.eqb_refl, IH. Qed.

Lemma list_eqb_eq : forall a b, list_eqb a b = true -> a = b.
Proof.
  induction a as [|x a IH]; destruct b as [|y b]; simpl; intros H; try discriminate; [reflexivity|].
  apply andb_true_iff in H as [H1 H2]. apply bytes_eqb_eq in H1. subst. f_equal. auto.
Qed.

Lemma list_eqb_refl : forall a, list_eqb a a = true.
Proof. induction a as [|x a IH]; simpl; [reflexivity|]. now rewrite bytes_eqb_refl, IH. Qed.

Theorem fmt_check_sound : forall src out, fmt_check src out = true ->
  comments_of src = comments_of out /\ literals_of src = literals_of out.
Proof.
  intros src out H. unfold fmt_check in H. apply andb_true_iff in H as [H1 H2].
  split; apply list_eqb_eq; assumption.
Qed.

(* and it rejects nothing it should accept *)
Theorem fmt_check_complete : forall src out,
  comments_of src = comments_of out -> literals_of src = literals_of out -> fmt_check src out = true.
Proof. intros src out H1 H2. unfold fmt_check. rewrite H1, H2, !list_eqb_refl. reflexivity. Qed.

(* ------------------------------------------------------------------------------------ *)
(* 2. The scanner on a gap (white space and comments between two tokens): started at a token
      boundary it reports exactly the gap's comments, in order, and is back at a token boundary. *)

Definition raw_seg_comment (x : seg) : list bytes :=
  match x with
  | LineCm t crlf => [SS ++ t ++ (if crlf then [CR] else [])]   (* the tokenizer's comment runs up to the `\n` *)
  | BlockCm body => [OPEN ++ body ++ CLOSE]
  | _ => []
  end.

Fixpoint raw_gap_comments (g : list seg) : list bytes :=
  match g with [] => [] | x :: r => raw_seg_comment x ++ raw_gap_comments r end.

(* `/**…*/` longer than `/***/` is a documentation comment token *)
Definition not_doc_seg (x : seg) : bool :=
  match x with
  | BlockCm body => negb (starts_with [STAR] body && (2 <=? length body))
  | _ => true
  end.

Lemma blank_values : forall b, is_blank b = true -> (b = 9 \/ b = 11 \/ b = 12 \/ b = 13 \/ b = 32)%N.
Proof.
  intros b H. unfold is_blank, is_ws in H.
  apply andb_true_iff in H as [H1 H2]. apply negb_true_iff in H2. apply N.eqb_neq in H2. unfold NL in H2.
  apply orb_true_iff in H1 as [H1|H1].
  - apply andb_true_iff in H1 as [A B]. apply N.leb_le in A, B. lia.
  - apply N.eqb_eq in H1. lia.
Qed.

Lemma code_step_blank : forall b, is_blank b = true -> code_step b = (Code, []).
Proof.
  intros b H. destruct (blank_values b H) as [->|[->|[->|[->| ->]]]]; reflexivity.
Qed.

Lemma lex_line_body : forall t acc rest, forallb no_eol_byte t = true ->
  lex (LineC acc) (t ++ rest) = lex (LineC (rev t ++ acc)) rest.
Proof.
  induction t as [|c t IH]; intros acc rest H; [reflexivity|].
  simpl in H. apply andb_true_iff in H as [Hc Ht].
  unfold no_eol_byte in Hc. apply andb_true_iff in Hc as [Hc _]. apply negb_true_iff in Hc.
  change ((c :: t) ++ rest) with (c :: (t ++ rest)). cbn [lex step]. rewrite Hc. cbn [app].
  rewrite IH by assumption. cbn [rev]. rewrite <- app_assoc. reflexivity.
Qed.

Lemma lex_block_body : forall body acc star rest, blk_ok star body = true ->
  lex (BlockC acc star) (body ++ CLOSE ++ rest) =
  block_comment_item (rev acc ++ body ++ CLOSE) ++ lex Code rest.
Proof.
  induction body as [|c r IH]; intros acc star rest H.
  - cbn [app CLOSE lex step]. change (N.eqb STAR SLASH) with false. rewrite andb_false_r.
    change (N.eqb STAR STAR) with true. cbn [lex step app].
    change (N.eqb SLASH SLASH) with true. cbn [andb app rev]. now rewrite <- !app_assoc.
  - simpl in H. apply andb_true_iff in H as [H1 H2]. apply negb_true_iff in H1.
    change ((c :: r) ++ CLOSE ++ rest) with (c :: (r ++ CLOSE ++ rest)). cbn [lex step]. rewrite H1.
    cbn [app]. rewrite (IH _ _ _ H2). cbn [rev]. now rewrite <- !app_assoc.
Qed.

Lemma lex_seg : forall x rest, wf_seg x = true -> not_doc_seg x = true ->
  lex Code (seg_bytes x ++ rest) = map IComment (raw_seg_comment x) ++ lex Code rest.
Proof.
  intros x rest W D. destruct x as [b| |t crlf|body].
  - cbn [wf_seg] in W. cbn [seg_bytes app lex step]. now rewrite (code_step_blank b W).
  - reflexivity.
  - cbn [wf_seg] in W. apply andb_true_iff in W as [Wt Wh].
    cbn [seg_bytes]. rewrite <- !app_assoc.
    change (SS ++ t ++ eol crlf ++ rest) with (SLASH :: SLASH :: (t ++ eol crlf ++ rest)).
    change (lex Code (SLASH :: SLASH :: t ++ eol crlf ++ rest))
      with (lex (LineC [SLASH; SLASH]) (t ++ eol crlf ++ rest)).
    rewrite lex_line_body by assumption.
    assert (ND : forall suffix, starts_with SSS (SS ++ t ++ suffix) = false \/ (t = [] /\ True)).
    { intros. destruct t as [|c t']; [right; auto|left].
      cbn [starts_with] in Wh. rewrite andb_true_r in Wh. apply negb_true_iff in Wh.
      cbn [starts_with SSS SS app]. rewrite !N.eqb_refl, Wh. reflexivity. }
    destruct crlf; cbn [eol app lex step].
    + change (N.eqb CR NL) with false. cbn [lex step app].
      change (N.eqb NL NL) with true. cbn [lex step app].
      cbn [rev]. rewrite !rev_app_distr, rev_involutive. cbn [rev app].
      unfold line_comment_item.
      change (SLASH :: SLASH :: t ++ [CR]) with (SS ++ t ++ [CR]).
      destruct (ND [CR]) as [E|[E _]]; [rewrite E; reflexivity|subst t; reflexivity].
    + change (N.eqb NL NL) with true. cbn [lex step app].
      rewrite rev_app_distr, rev_involutive. cbn [rev app].
      unfold line_comment_item.
      replace (SLASH :: SLASH :: t) with (SS ++ t ++ []) by (now rewrite app_nil_r).
      destruct (ND []) as [E|[E _]]; [rewrite E; rewrite app_nil_r; cbn [raw_seg_comment map]; rewrite app_nil_r; reflexivity|subst t; reflexivity].
  - cbn [wf_seg] in W. apply andb_true_iff in W as [Wb Wh].
    cbn [seg_bytes]. rewrite <- !app_assoc.
    change (OPEN ++ body ++ CLOSE ++ rest) with (SLASH :: STAR :: (body ++ CLOSE ++ rest)).
    change (lex Code (SLASH :: STAR :: body ++ CLOSE ++ rest))
      with (lex (BlockC [STAR; SLASH] false) (body ++ CLOSE ++ rest)).
    rewrite (lex_block_body _ _ _ _ Wb). cbn [rev app raw_seg_comment map].
    unfold block_comment_item.
    assert (starts_with [SLASH; STAR; STAR] (SLASH :: STAR :: body ++ CLOSE)
            && (6 <=? length (SLASH :: STAR :: body ++ CLOSE)) = false) as ->; [|reflexivity].
    cbn [not_doc_seg] in D. apply negb_true_iff in D.
    destruct body as [|c [|d b'']].
    + reflexivity.
    + cbn [app length]. change (6 <=? 5) with false. apply andb_false_r.
    + cbn [starts_with length Nat.leb] in D. rewrite !andb_true_r in D.
      cbn [starts_with app]. rewrite D, !N.eqb_refl. reflexivity.
Qed.

Theorem lex_gap : forall g rest, forallb wf_seg g = true -> forallb not_doc_seg g = true ->
  lex Code (flatten g ++ rest) = map IComment (raw_gap_comments g) ++ lex Code rest.
Proof.
  induction g as [|x r IH]; intros rest W D; [reflexivity|].
  simpl in W, D. apply andb_true_iff in W as [Wx Wr]. apply andb_true_iff in D as [Dx Dr].
  cbn [flatten raw_gap_comments]. rewrite <- app_assoc, lex_seg by assumption.
  rewrite IH by assumption. now rewrite map_app, app_assoc.
Qed.

Lemma norm_comment_snoc_blank : forall a b, is_blank b = true -> norm_comment (a ++ [b]) = norm_comment a.
Proof.
  induction a as [|x a IH]; intros b H.
  - simpl. now rewrite H.
  - simpl. now rewrite IH.
Qed.

Lemma comments_of_items_map : forall l, comments_of_items (map IComment l) = map norm_comment l.
Proof. induction l as [|x l IH]; simpl; [reflexivity|]. now rewrite IH. Qed.

Lemma raw_gap_norm : forall g, map norm_comment (raw_gap_comments g) = map norm_comment (gap_comments g).
Proof.
  induction g as [|x r IH]; [reflexivity|]. simpl. rewrite !map_app, IH. f_equal.
  destruct x as [b| |t crlf|body]; try reflexivity.
  destruct crlf; simpl; [|now rewrite app_nil_r].
  rewrite norm_comment_snoc_blank by reflexivity. reflexivity.
Qed.

(* The validator's scanner and the formatter's scanner agree on gaps: the comments that
   [comments_of] sees in a gap are the (normalised) comments that CommentIter yields forward. *)
Theorem lexer_agrees_with_comment_iter : forall guard g,
  forallb wf_seg g = true -> forallb not_doc_seg g = true ->
  comments_of_items (lex Code (flatten g)) =
  map norm_comment (comments_in (items_of (forward guard (flatten g)))).
Proof.
  intros guard g W D.
  rewrite <- (app_nil_r (flatten g)), lex_gap by assumption.
  cbn [lex finish]. rewrite app_nil_r, comments_of_items_map, raw_gap_norm.
  rewrite app_nil_r. now rewrite forward_gap_comments.
Qed.

(* ------------------------------------------------------------------------------------ *)
(* 3. String literals are opaque: `//` and `/*` inside a string never start a comment, and the
      literal is reported byte for byte. *)

(* [body] is the inside of a string literal: every `\` escapes the next byte, no bare quote *)
Fixpoint str_ok (esc : bool) (body : bytes) : bool :=
  match body with
  | [] => negb esc
  | c :: r =>
      if esc then str_ok false r
      else if N.eqb c 92 then str_ok true r
      else if N.eqb c 34 then false
      else str_ok false r
  end.

Lemma lex_string_body : forall body acc esc rest, str_ok esc body = true ->
  lex (Str acc esc) (body ++ 34%N :: rest) = ILit (rev acc ++ body ++ [34%N]) :: lex Code rest.
Proof.
  induction body as [|c r IH]; intros acc esc rest H.
  - simpl in H. apply negb_true_iff in H. subst esc. cbn [app lex step].
    change (N.eqb 34 92) with false. change (N.eqb 34 34) with true. cbn [app rev]. reflexivity.
  - change ((c :: r) ++ 34%N :: rest) with (c :: (r ++ 34%N :: rest)). cbn [lex step].
    cbn [str_ok] in H. destruct esc.
    + cbn [app]. rewrite (IH _ _ _ H). cbn [rev]. now rewrite <- !app_assoc.
    + destruct (N.eqb c 92) eqn:E1.
      * cbn [app]. rewrite (IH _ _ _ H). cbn [rev]. now rewrite <- !app_assoc.
      * destruct (N.eqb c 34) eqn:E2; [discriminate|].
        cbn [app]. rewrite (IH _ _ _ H). cbn [rev]. now rewrite <- !app_assoc.
Qed.

Theorem string_literal_opaque : forall body rest, str_ok false body = true ->
  lex Code (34%N :: body ++ 34%N :: rest) = ILit (34%N :: body ++ [34%N]) :: lex Code rest.
Proof.
  intros body rest H.
  change (lex Code (34%N :: body ++ 34%N :: rest)) with (lex (Str [34%N] false) (body ++ 34%N :: rest)).
  now rewrite (lex_string_body _ _ _ _ H).
Qed.
