(* C07 — proofs about VM/TailCall.v (frames, entry check, TailCall frame replacement). *)
From Coq Require Import List Arith Bool Lia.
Import ListNotations.

From GV Require Import VM.TailCall.

Section FramesProofs.
  Variable A : Type.
  Notation mstate := (mstate A).

  (* ---- entry check ---- *)
  (* stack_len_le_limit: once a frame has been entered, any height up to max_stack_size keeps the
     whole value stack within the limit. *)
  Theorem entry_check_bounds_total : forall args max limit ex (st st' : mstate) fr rest,
    enter args max limit ex st = Some st' -> m_frames st' = fr :: rest ->
    rest = m_frames st /\ f_offset fr + args = length (m_stack st) /\
    forall h, h <= max -> f_offset fr + h <= limit.
  Proof.
    unfold enter. intros args max limit ex st st' fr rest H Hf.
    destruct (args <=? length (m_stack st)) eqn:E1; try discriminate.
    destruct (limit <? length (m_stack st) + max) eqn:E2; try discriminate.
    inversion H; subst st'. cbn in Hf. inversion Hf; subst. cbn.
    apply Nat.leb_le in E1. apply Nat.ltb_ge in E2. repeat split; lia.
  Qed.

  (* ---- TailCall ---- *)
  (* A tail call from a frame without excess arguments leaves exactly: everything below the
     callee slot of the old frame, the new callee and its n arguments; the frame list lost the old
     frame.  Entering the new callee (exact arity) then creates a frame with the SAME offset, and
     the number of frames is what it was before the tail call. *)
  Theorem tailcall_frame_reuse : forall n ex (st st1 : mstate) k fr rest,
    m_frames st = fr :: rest -> f_excess fr = false ->
    tail_call n ex st = Some (st1, k) ->
    k = n /\
    m_frames st1 = rest /\
    length (m_stack st1) = f_offset fr + n /\
    firstn (f_offset fr - 1) (m_stack st1) = firstn (f_offset fr - 1) (m_stack st) /\
    forall max limit st2, enter n max limit false st1 = Some st2 ->
      exists fr2, m_frames st2 = fr2 :: rest /\ f_offset fr2 = f_offset fr /\
                  length (m_frames st2) = length (m_frames st).
  Proof.
    unfold tail_call. intros n ex st st1 k fr rest Hf Hex H.
    rewrite Hf in H. rewrite Hex in H.
    destruct (f_offset fr + S n <=? length (m_stack st)) eqn:E1; try discriminate.
    destruct (1 <=? f_offset fr) eqn:E2; try discriminate.
    apply Nat.leb_le in E1. apply Nat.leb_le in E2.
    inversion H; subst st1 k. cbn [m_stack m_frames].
    assert (Hlen : length (firstn (f_offset fr - 1) (m_stack st) ++ skipn (length (m_stack st) - S n) (m_stack st))
                   = f_offset fr + n).
    { rewrite app_length, firstn_length, skipn_length. lia. }
    repeat split; auto.
    - rewrite firstn_app. rewrite firstn_length.
      replace (f_offset fr - 1 - Nat.min (f_offset fr - 1) (length (m_stack st))) with 0 by lia.
      cbn. rewrite app_nil_r. rewrite firstn_firstn. f_equal. lia.
    - intros max limit st2 He. unfold enter in He. cbn [m_stack m_frames] in He.
      rewrite Hlen in He.
      destruct (n <=? f_offset fr + n); try discriminate.
      destruct (limit <? f_offset fr + n + max); try discriminate.
      inversion He; subst st2. cbn [m_frames].
      eexists. split; [reflexivity|]. cbn [f_offset]. rewrite Hf. cbn. split; lia.
  Qed.

  (* With excess arguments the frame count shrinks as well, and the new callee receives the
     excess fields after its own arguments (it is then called with n + k arguments). *)
  Theorem tailcall_excess_repush : forall n ex (st st1 : mstate) k fr rest,
    m_frames st = fr :: rest -> f_excess fr = true ->
    tail_call n ex st = Some (st1, k) ->
    k = n + length ex /\ m_frames st1 = rest /\
    length (m_stack st1) = f_offset fr - 1 + n + length ex /\
    (* peak while re-pushing: the old frame plus the excess fields *)
    length (m_stack st1) <= length (m_stack st) + length ex.
  Proof.
    unfold tail_call. intros n ex st st1 k fr rest Hf Hex H.
    rewrite Hf in H. rewrite Hex in H.
    destruct (f_offset fr + S n <=? length (m_stack st)) eqn:E1; try discriminate.
    destruct (2 <=? f_offset fr) eqn:E2; try discriminate.
    apply Nat.leb_le in E1. apply Nat.leb_le in E2.
    inversion H; subst st1 k. cbn [m_stack m_frames].
    rewrite !app_length, firstn_length, skipn_length. repeat split; lia.
  Qed.

  (* ---- chains of tail calls ---- *)
  Lemma link_spec : forall vs n max limit (st st' : mstate) fr rest,
    m_frames st = fr :: rest -> f_excess fr = false ->
    link vs n max limit st = Some st' ->
    exists fr', m_frames st' = fr' :: rest /\ f_offset fr' = f_offset fr /\ f_excess fr' = false /\
                length (m_stack st') = f_offset fr + n /\ f_offset fr + n + max <= limit.
  Proof.
    unfold link. intros vs n max limit st st' fr rest Hf Hex H.
    destruct (tail_call n [] (work vs st)) as [[st1 k]|] eqn:Et; try discriminate.
    assert (Hw : m_frames (work vs st) = fr :: rest) by (unfold work; rewrite Hf; reflexivity).
    destruct (tailcall_frame_reuse _ _ _ _ _ _ _ Hw Hex Et) as (Hk & Hr & Hlen & _ & _).
    subst k. unfold enter in H. rewrite Hlen in H.
    destruct (n <=? f_offset fr + n); try discriminate.
    destruct (limit <? f_offset fr + n + max) eqn:E; try discriminate.
    apply Nat.ltb_ge in E. inversion H; subst st'. cbn.
    eexists. split; [rewrite Hr; reflexivity|]. cbn. repeat split; lia.
  Qed.

  (* Any number of consecutive tail calls runs in the frame slot of the first one: the number of
     frames and the offset never change, and the stack length after each entry is offset + n. *)
  Theorem tailcall_chain_constant_frames : forall l limit (st st' : mstate) fr rest,
    m_frames st = fr :: rest -> f_excess fr = false ->
    chain l limit st = Some st' ->
    exists fr', m_frames st' = fr' :: rest /\ f_offset fr' = f_offset fr /\
                length (m_frames st') = length (m_frames st).
  Proof.
    induction l as [|[[vs n] max] l IH]; intros limit st st' fr rest Hf Hex H; cbn in H.
    - inversion H; subst st'. exists fr. rewrite Hf. auto.
    - destruct (link vs n max limit st) as [st1|] eqn:El; try discriminate.
      destruct (link_spec _ _ _ _ _ _ _ _ Hf Hex El) as (fr1 & Hf1 & Ho1 & Hex1 & _).
      destruct (IH _ _ _ _ _ Hf1 Hex1 H) as (fr' & Hf' & Ho' & Hn').
      exists fr'. split; auto. split; [congruence|]. rewrite Hn', Hf1, Hf. reflexivity.
  Qed.
End FramesProofs.
