(* Model VM: an executable interpreter for gluon's REAL bytecode (instruction type regenerated
   from vm/src/types.rs: GVgen.InstrGen), following vm/src/thread.rs:
     execute_ (2137–2572: one arm per instruction, Return and the excess-argument re-call),
     do_call (2759), call_function_with_upvars (2706: exact / partial application / excess
     arguments packed in a data value below the callee), enter_closure (2676), TailCall (2196).
   The value stack is one list for all frames (bottom first); a frame records the absolute
   offset of its first slot (the callee sits at offset - 1, the excess-argument record, if
   any, at offset - 2), the excess flag, the function, its upvariables and the instruction
   index.  Closures allocated by NewClosure and data allocated by NewRecord / NewVariant live
   in a store so that CloseClosure / CloseData can tie recursive knots.
   Externs are built-ins: std.prim.error, std.prim.string_eq, mg.prim.eff,
   std.array.prim.index / len.  Floats are carried, not computed.
   Definitions only (extracted by coq/extract/c01vm); theorems in MachineProofs.v. *)
From Coq Require Import List ZArith NArith Bool.
From GVgen Require Import InstrGen.
Import ListNotations.

Definition str := list N.                      (* UTF-8 bytes *)

Inductive ext := XError | XStringEq | XEff | XArrayIndex | XArrayLen.

Inductive mval :=
| MInt (z : Z)
| MByte (z : Z)
| MFloat (bits : Z)
| MStr (s : str)
| MTag (t : N)                                  (* ValueRepr::Tag: constructor without fields, Bool, unit *)
| MData (tag : N) (names : list str) (fields : list mval)   (* names = [] unless a record *)
| MArr (vs : list mval)
| MClo (fn : nat) (upvars : list mval)
| MRef (a : nat)                                (* store cell *)
| MPap (f : mval) (args : list mval)
| MExt (e : ext)
| MUnknown.                                     (* a global that is not modelled *)

Inductive cell :=
| CClo (fn : nat) (upvars : list mval)
| CData (tag : N) (names : list str) (fields : list mval).

Record func := { fn_args : nat; fn_code : list instr; fn_strings : list str;
                 fn_records : list (list str); fn_inner : list nat }.

Definition program := list func.

Record frame := { fr_off : nat; fr_excess : bool; fr_fn : nat; fr_upv : list mval; fr_pc : nat }.

Record state := { st_stack : list mval; st_frames : list frame; st_store : list cell;
                  st_log : list Z; st_pending : option nat }.

Inductive verr := VArith | VPanic (msg : str).
Inductive vres := VOk (v : mval) (store : list cell) | VFail (e : verr) | VStuck (why : nat) | VOutOfFuel.

Inductive outcome := Next (s : state) | Done (r : vres) (log : list Z).

(* ---------------------------------------------------------------- helpers *)
Definition lastn {A} (n : nat) (l : list A) : list A := skipn (length l - n) l.
Definition dropn {A} (n : nat) (l : list A) : list A := firstn (length l - n) l.

Fixpoint set_nth {A} (n : nat) (x : A) (l : list A) : list A :=
  match l, n with
  | [], _ => []
  | _ :: t, O => x :: t
  | h :: t, S n' => h :: set_nth n' x t
  end.

Fixpoint str_eqb (a b : str) : bool :=
  match a, b with
  | [], [] => true
  | x :: a', y :: b' => N.eqb x y && str_eqb a' b'
  | _, _ => false
  end.

Fixpoint field_index (name : str) (names : list str) : option nat :=
  match names with
  | [] => None
  | n :: ns => if str_eqb name n then Some O
               else match field_index name ns with Some i => Some (S i) | None => None end
  end.

Definition i64_min : Z := (-9223372036854775808)%Z.
Definition i64_max : Z := 9223372036854775807%Z.
Definition in_i64 (z : Z) : bool := (Z.leb i64_min z && Z.leb z i64_max)%bool.
Definition in_u8 (z : Z) : bool := (Z.leb 0 z && Z.leb z 255)%bool.

Definition ext_arity (e : ext) : nat :=
  match e with XError => 1 | XStringEq => 2 | XEff => 1 | XArrayIndex => 2 | XArrayLen => 1 end.

(* decimal rendering for the "Index i is out of range" panic of std.array.prim.index *)
Fixpoint digits (fuel : nat) (n : N) (acc : list N) : list N :=
  match fuel with
  | O => acc
  | S f => let acc' := (48 + N.modulo n 10)%N :: acc in
           if N.ltb n 10 then acc' else digits f (N.div n 10) acc'
  end.
Definition decimal (z : Z) : list N :=
  match z with
  | Z0 => [48%N]
  | Zpos p => digits 70 (Npos p) []
  | Zneg p => 45%N :: digits 70 (Npos p) []
  end.
Definition index_msg (z : Z) : str :=
  [73;110;100;101;120;32]%N ++ decimal z ++ [32;105;115;32;111;117;116;32;111;102;32;114;97;110;103;101]%N.

(* a callable behind a reference *)
Definition resolve (store : list cell) (v : mval) : mval :=
  match v with
  | MRef a => match nth_error store a with
              | Some (CClo fn up) => MClo fn up
              | Some (CData t ns fs) => MData t ns fs
              | None => MUnknown
              end
  | _ => v
  end.

(* stuck codes *)
Definition k_bad_instr := 1.   Definition k_bad_stack := 2.   Definition k_not_callable := 3.
Definition k_shape := 4.       Definition k_unsupported := 5. Definition k_bad_extern := 6.

Section Machine.
  Variable prog : program.

  Definition get_fn (i : nat) : option func := nth_error prog i.

  Definition stuck (s : state) (k : nat) : outcome := Done (VStuck k) (st_log s).
  Definition fail (s : state) (e : verr) : outcome := Done (VFail e) (st_log s).

  Definition with_stack (s : state) (st : list mval) : state :=
    {| st_stack := st; st_frames := st_frames s; st_store := st_store s; st_log := st_log s; st_pending := st_pending s |}.

  (* replace the instruction index of the innermost frame *)
  Definition set_pc (s : state) (pc : nat) : state :=
    match st_frames s with
    | [] => s
    | f :: fs =>
        {| st_stack := st_stack s;
           st_frames := {| fr_off := fr_off f; fr_excess := fr_excess f; fr_fn := fr_fn f; fr_upv := fr_upv f; fr_pc := pc |} :: fs;
           st_store := st_store s; st_log := st_log s; st_pending := st_pending s |}
    end.

  (* a built-in applied to exactly its arguments: a value, a failure, or stuck *)
  Definition run_ext (e : ext) (args : list mval) (log : list Z) : (option (mval + verr)) * list Z :=
    match e, args with
    | XError, [MStr m] => (Some (inr (VPanic m)), log)
    | XStringEq, [MStr a; MStr b] => (Some (inl (MTag (if str_eqb a b then 1%N else 0%N))), log)
    | XEff, [MInt z] => (Some (inl (MInt z)), z :: log)
    | XArrayLen, [MArr vs] => (Some (inl (MInt (Z.of_nat (length vs)))), log)
    | XArrayIndex, [MArr vs; MInt z] =>
        if (Z.leb 0 z && Z.ltb z (Z.of_nat (length vs)))%bool
        then match nth_error vs (Z.to_nat z) with Some x => (Some (inl x), log) | None => (None, log) end
        else (Some (inr (VPanic (index_msg z))), log)
    | _, _ => (None, log)
    end.

  (* thread.rs do_call + call_function_with_upvars, on a stack split as
     [below ++ callee0 :: argsl]: the callee with its arguments on top of everything else. *)
  Definition call_on (s : state) (below : list mval) (callee0 : mval) (argsl : list mval) : outcome :=
    (* a partial application contributes its stored arguments in front of the new ones *)
    let '(callee, allargs) :=
      match resolve (st_store s) callee0 with
      | MPap f0 stored => (f0, stored ++ argsl)
      | _ => (callee0, argsl)
      end in
    let args := length allargs in
    match resolve (st_store s) callee with
    | MClo fn up =>
        match get_fn fn with
        | None => stuck s k_bad_instr
        | Some f =>
            let required := fn_args f in
            match Nat.compare args required with
            | Eq =>
                Next {| st_stack := below ++ callee0 :: allargs;
                        st_frames := {| fr_off := S (length below); fr_excess := false; fr_fn := fn; fr_upv := up; fr_pc := 0 |} :: st_frames s;
                        st_store := st_store s; st_log := st_log s; st_pending := None |}
            | Lt =>
                Next {| st_stack := below ++ [MPap callee allargs];
                        st_frames := st_frames s; st_store := st_store s; st_log := st_log s; st_pending := None |}
            | Gt =>
                (* the excess arguments are packed in a data value placed below the callee *)
                Next {| st_stack := below ++ MData 0 [] (skipn required allargs) :: callee0 :: firstn required allargs;
                        st_frames := {| fr_off := S (S (length below)); fr_excess := true; fr_fn := fn; fr_upv := up; fr_pc := 0 |} :: st_frames s;
                        st_store := st_store s; st_log := st_log s; st_pending := None |}
            end
        end
    | MExt e =>
        let required := ext_arity e in
        match Nat.compare args required with
        | Lt =>
            Next {| st_stack := below ++ [MPap callee allargs];
                    st_frames := st_frames s; st_store := st_store s; st_log := st_log s; st_pending := None |}
        | _ =>
            let later := skipn required allargs in
            match run_ext e (firstn required allargs) (st_log s) with
            | (Some (inl r), log) =>
                Next {| st_stack := below ++ r :: later;
                        st_frames := st_frames s; st_store := st_store s; st_log := log;
                        st_pending := match later with [] => None | _ => Some (length later) end |}
            | (Some (inr e), log) => Done (VFail e) log
            | (None, log) => Done (VStuck k_bad_extern) log
            end
        end
    | _ => stuck s k_not_callable
    end.

  (* the callee is below [args] arguments on top of the stack *)
  Definition do_call (s : state) (args : nat) : outcome :=
    let st := st_stack s in
    let len := length st in
    if Nat.ltb len (S args) then stuck s k_bad_stack else
    let fi := len - 1 - args in
    match nth_error st fi with
    | None => stuck s k_bad_stack
    | Some callee0 => call_on s (firstn fi st) callee0 (skipn (S fi) st)
    end.

  Definition binop (s : state) (f : mval -> mval -> option (mval + verr)) : outcome :=
    let st := st_stack s in
    match lastn 2 st with
    | [l; r] =>
        match f l r with
        | Some (inl v) => Next (with_stack s (dropn 2 st ++ [v]))
        | Some (inr e) => fail s e
        | None => stuck s k_shape
        end
    | _ => stuck s k_bad_stack
    end.

  Definition int_op (f : Z -> Z -> option Z) (l r : mval) : option (mval + verr) :=
    match l, r with
    | MInt x, MInt y => match f x y with
                        | Some z => if in_i64 z then Some (inl (MInt z)) else Some (inr VArith)
                        | None => Some (inr VArith)
                        end
    | _, _ => None
    end.
  Definition byte_op (f : Z -> Z -> option Z) (l r : mval) : option (mval + verr) :=
    match l, r with
    | MByte x, MByte y => match f x y with
                          | Some z => if in_u8 z then Some (inl (MByte z)) else Some (inr VArith)
                          | None => Some (inr VArith)
                          end
    | _, _ => None
    end.
  Definition mbool (b : bool) : mval := MTag (if b then 1%N else 0%N).
  Definition int_cmp (f : Z -> Z -> bool) (l r : mval) : option (mval + verr) :=
    match l, r with MInt x, MInt y => Some (inl (mbool (f x y))) | _, _ => None end.
  Definition byte_cmp (f : Z -> Z -> bool) (l r : mval) : option (mval + verr) :=
    match l, r with MByte x, MByte y => Some (inl (mbool (f x y))) | _, _ => None end.
  Definition zdiv (x y : Z) : option Z := if Z.eqb y 0 then None else Some (Z.quot x y).

  (* leaving the innermost frame with [result] (Return, thread.rs 2535–2572) *)
  Definition do_return (s : state) (f : frame) (rest : list frame) (result : mval) : outcome :=
    let st := st_stack s in
    if fr_excess f then
      match nth_error st (fr_off f - 2) with
      | Some ex =>
          match resolve (st_store s) ex with
          | MData _ _ fields =>
              Next {| st_stack := firstn (fr_off f - 2) st ++ [result] ++ fields;
                      st_frames := rest; st_store := st_store s; st_log := st_log s;
                      st_pending := Some (length fields) |}
          | _ => stuck s k_shape
          end
      | None => stuck s k_bad_stack
      end
    else
      match rest with
      | [] => Done (VOk result (st_store s)) (st_log s)
      | _ => Next {| st_stack := firstn (fr_off f - 1) st ++ [result];
                     st_frames := rest; st_store := st_store s; st_log := st_log s; st_pending := None |}
      end.

  (* The instructions that only touch the values of the current frame ([seg] = the stack from the
     frame's offset upwards), its instruction index and the store: everything except Call,
     TailCall and Return.  [None] for those three. *)
  Inductive local := LNext (seg' : list mval) (pc' : nat) (store' : list cell) | LStuck (k : nat) | LFail (e : verr).

  Definition lbinop (seg : list mval) (pc : nat) (store : list cell) (f : mval -> mval -> option (mval + verr)) : local :=
    match lastn 2 seg with
    | [l; r] =>
        match f l r with
        | Some (inl v) => LNext (dropn 2 seg ++ [v]) (S pc) store
        | Some (inr e) => LFail e
        | None => LStuck k_shape
        end
    | _ => LStuck k_bad_stack
    end.

  Definition exec_local (fn : func) (upv : list mval) (pc : nat) (store : list cell) (seg : list mval) (i : instr) : option local :=
    let next seg' := Some (LNext seg' (S pc) store) in
    let push v := Some (LNext (seg ++ [v]) (S pc) store) in
    let stuckl k := Some (LStuck k) in
    match i with
    | ICall _ | ITailCall _ | IReturn => None
    | IPush n => match nth_error seg (N.to_nat n) with Some v => push v | None => stuckl k_bad_stack end
    | IPushInt z => push (MInt z)
    | IPushByte b => push (MByte (Z.of_N b))
    | IPushFloat b => push (MFloat (Z.of_N b))
    | IPushString n => match nth_error (fn_strings fn) (N.to_nat n) with Some x => push (MStr x) | None => stuckl k_bad_instr end
    | IPushUpVar n => match nth_error upv (N.to_nat n) with Some v => push v | None => stuckl k_bad_instr end
    | IConstructVariant tag args =>
        let k := N.to_nat args in
        if Nat.ltb (length seg) k then stuckl k_bad_stack else
        next (dropn k seg ++ [if Nat.eqb k 0 then MTag tag else MData tag [] (lastn k seg)])
    | IConstructRecord record args =>
        let k := N.to_nat args in
        if Nat.ltb (length seg) k then stuckl k_bad_stack else
        if Nat.eqb k 0 then push (MTag 0) else
        match nth_error (fn_records fn) (N.to_nat record) with
        | Some names => next (dropn k seg ++ [MData 0 names (lastn k seg)])
        | None => stuckl k_bad_instr
        end
    | IConstructArray args =>
        let k := N.to_nat args in
        if Nat.ltb (length seg) k then stuckl k_bad_stack else
        next (dropn k seg ++ [MArr (lastn k seg)])
    | IConstructPolyVariant _ _ => stuckl k_unsupported
    | INewVariant tag args =>
        let k := N.to_nat args in
        if Nat.eqb k 0 then push (MTag tag) else
        Some (LNext (seg ++ [MRef (length store)]) (S pc) (store ++ [CData tag [] (repeat MUnknown k)]))
    | INewRecord record args =>
        let k := N.to_nat args in
        if Nat.eqb k 0 then push (MTag 0) else
        match nth_error (fn_records fn) (N.to_nat record) with
        | Some names => Some (LNext (seg ++ [MRef (length store)]) (S pc) (store ++ [CData 0 names (repeat MUnknown k)]))
        | None => stuckl k_bad_instr
        end
    | ICloseData index =>
        match nth_error seg (N.to_nat index) with
        | Some (MRef a) =>
            match nth_error store a with
            | Some (CData tag names old) =>
                let k := length old in
                if Nat.ltb (length seg) k then stuckl k_bad_stack else
                Some (LNext (dropn k seg) (S pc) (set_nth a (CData tag names (lastn k seg)) store))
            | _ => stuckl k_shape
            end
        | Some (MTag _) => next seg          (* a record without fields was never allocated *)
        | _ => stuckl k_shape
        end
    | IGetOffset n =>
        match lastn 1 seg with
        | [v] => match resolve store v with
                 | MData _ _ fields =>
                     match nth_error fields (N.to_nat n) with
                     | Some x => next (dropn 1 seg ++ [x])
                     | None => stuckl k_shape
                     end
                 | _ => stuckl k_shape
                 end
        | _ => stuckl k_bad_stack
        end
    | IGetField n =>
        match lastn 1 seg, nth_error (fn_strings fn) (N.to_nat n) with
        | [v], Some name =>
            match resolve store v with
            | MData _ names fields =>
                match field_index name names with
                | Some k => match nth_error fields k with
                            | Some x => next (dropn 1 seg ++ [x])
                            | None => stuckl k_shape
                            end
                | None => stuckl k_shape
                end
            | _ => stuckl k_shape
            end
        | _, _ => stuckl k_bad_stack
        end
    | ISplit =>
        match lastn 1 seg with
        | [v] => match resolve store v with
                 | MData _ _ fields => next (dropn 1 seg ++ fields)
                 | MTag _ => next (dropn 1 seg)
                 | _ => stuckl k_shape
                 end
        | _ => stuckl k_bad_stack
        end
    | ITestTag tag =>
        match lastn 1 seg with
        | [v] => match resolve store v with
                 | MData t _ _ => push (mbool (N.eqb t tag))
                 | MTag t => push (mbool (N.eqb t tag))
                 | _ => stuckl k_shape
                 end
        | _ => stuckl k_bad_stack
        end
    | ITestPolyTag _ => stuckl k_unsupported
    | IJump n => Some (LNext seg (N.to_nat n) store)
    | ICJump n =>
        match lastn 1 seg with
        | [MTag 0%N] => next (dropn 1 seg)
        | [_] => Some (LNext (dropn 1 seg) (N.to_nat n) store)
        | _ => stuckl k_bad_stack
        end
    | IPop n =>
        let k := N.to_nat n in
        if Nat.ltb (length seg) k then stuckl k_bad_stack else next (dropn k seg)
    | ISlide n =>
        let k := N.to_nat n in
        if Nat.ltb (length seg) (S k) then stuckl k_bad_stack else
        next (dropn (S k) seg ++ lastn 1 seg)
    | IMakeClosure fi upvars =>
        let k := N.to_nat upvars in
        if Nat.ltb (length seg) k then stuckl k_bad_stack else
        match nth_error (fn_inner fn) (N.to_nat fi) with
        | Some g => next (dropn k seg ++ [MClo g (lastn k seg)])
        | None => stuckl k_bad_instr
        end
    | INewClosure fi upvars =>
        match nth_error (fn_inner fn) (N.to_nat fi) with
        | Some g => Some (LNext (seg ++ [MRef (length store)]) (S pc) (store ++ [CClo g (repeat MUnknown (N.to_nat upvars))]))
        | None => stuckl k_bad_instr
        end
    | ICloseClosure n =>
        if Nat.ltb (length seg) (S (N.to_nat n)) then stuckl k_bad_stack else
        match nth_error seg (length seg - N.to_nat n - 1) with
        | Some (MRef a) =>
            match nth_error store a with
            | Some (CClo g old) =>
                let k := length old in
                if Nat.ltb (length seg) (S k) then stuckl k_bad_stack else
                Some (LNext (dropn (S k) seg) (S pc) (set_nth a (CClo g (lastn k seg)) store))
            | _ => stuckl k_shape
            end
        | _ => stuckl k_shape
        end
    | IAddInt => Some (lbinop seg pc store (int_op (fun x y => Some (x + y)%Z)))
    | ISubtractInt => Some (lbinop seg pc store (int_op (fun x y => Some (x - y)%Z)))
    | IMultiplyInt => Some (lbinop seg pc store (int_op (fun x y => Some (x * y)%Z)))
    | IDivideInt => Some (lbinop seg pc store (int_op zdiv))
    | IIntLT => Some (lbinop seg pc store (int_cmp Z.ltb))
    | IIntEQ => Some (lbinop seg pc store (int_cmp Z.eqb))
    | IAddByte => Some (lbinop seg pc store (byte_op (fun x y => Some (x + y)%Z)))
    | ISubtractByte => Some (lbinop seg pc store (byte_op (fun x y => Some (x - y)%Z)))
    | IMultiplyByte => Some (lbinop seg pc store (byte_op (fun x y => Some (x * y)%Z)))
    | IDivideByte => Some (lbinop seg pc store (byte_op zdiv))
    | IByteLT => Some (lbinop seg pc store (byte_cmp Z.ltb))
    | IByteEQ => Some (lbinop seg pc store (byte_cmp Z.eqb))
    | IAddFloat | ISubtractFloat | IMultiplyFloat | IDivideFloat | IFloatLT | IFloatEQ => stuckl k_unsupported
    end.

  Definition exec (s : state) (f : frame) (rest : list frame) (fn : func) (i : instr) : outcome :=
    let st := st_stack s in
    let off := fr_off f in
    let seg := skipn off st in
    match exec_local fn (fr_upv f) (fr_pc f) (st_store s) seg i with
    | Some (LNext seg' pc' store') =>
        Next {| st_stack := firstn off st ++ seg';
                st_frames := {| fr_off := off; fr_excess := fr_excess f; fr_fn := fr_fn f; fr_upv := fr_upv f; fr_pc := pc' |} :: rest;
                st_store := store'; st_log := st_log s; st_pending := None |}
    | Some (LStuck k) => stuck s k
    | Some (LFail e) => fail s e
    | None =>
        match i with
        | ICall n =>
            if Nat.ltb (length seg) (S (N.to_nat n)) then stuck s k_bad_stack
            else do_call (set_pc s (S (fr_pc f))) (N.to_nat n)
        | ITailCall n =>
            let args := N.to_nat n in
            if Nat.ltb (length seg) (S args) then stuck s k_bad_stack else
            if fr_excess f then
              match nth_error st (off - 2) with
              | Some ex =>
                  match resolve (st_store s) ex with
                  | MData _ _ fields =>
                      do_call {| st_stack := firstn (off - 2) st ++ lastn (S args) seg ++ fields;
                                 st_frames := rest; st_store := st_store s; st_log := st_log s; st_pending := None |}
                              (args + length fields)
                  | _ => stuck s k_shape
                  end
              | None => stuck s k_bad_stack
              end
            else
              do_call {| st_stack := firstn (off - 1) st ++ lastn (S args) seg;
                         st_frames := rest; st_store := st_store s; st_log := st_log s; st_pending := None |} args
        | IReturn =>
            match lastn 1 seg with
            | [result] => do_return s f rest result
            | _ => stuck s k_bad_stack
            end
        | _ => stuck s k_bad_instr
        end
    end.

  Definition step (s : state) : outcome :=
    match st_pending s with
    | Some n => do_call s n            (* re-application to excess arguments *)
    | None =>
        match st_frames s with
        | [] =>
            (* the top-level function tail-called an extern or built a partial application:
               nothing is left to run, the value on top is the result *)
            match lastn 1 (st_stack s) with
            | [v] => Done (VOk v (st_store s)) (st_log s)
            | _ => stuck s k_bad_stack
            end
        | f :: rest =>
            match get_fn (fr_fn f) with
            | None => stuck s k_bad_instr
            | Some fn =>
                match nth_error (fn_code fn) (fr_pc f) with
                | None => stuck s k_bad_instr
                | Some i => exec s f rest fn i
                end
            end
        end
    end.

  Fixpoint run (fuel : nat) (s : state) : vres * list Z :=
    match fuel with
    | O => (VOutOfFuel, st_log s)
    | S n => match step s with
             | Next s' => run n s'
             | Done r l => (r, l)
             end
    end.

  (* the top-level function (index [main]) called with no arguments and the module's globals
     as upvariables *)
  Definition init (main : nat) (globals : list mval) : state :=
    {| st_stack := [MClo main globals];
       st_frames := [{| fr_off := 1; fr_excess := false; fr_fn := main; fr_upv := globals; fr_pc := 0 |}];
       st_store := []; st_log := []; st_pending := None |}.

  Definition run_module (fuel : nat) (main : nat) (globals : list mval) : vres * list Z :=
    run fuel (init main globals).
End Machine.
