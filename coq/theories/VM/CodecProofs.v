(* C12 — proofs about VM/Codec.v: decode ∘ encode = id (with any trailing bytes), every strict prefix of
   an encoding fails to decode (for any fuel), encodings are prefix-free / injective — for both integer
   encodings of bincode.  The per-variant facts ([instr_shape_ok], [instr_build_ok], [instr_index_lt],
   [table_lengths]) are the only places that look at the GENERATED instruction table; they are proved by
   case analysis + computation and are re-checked whenever coq/gen/Instr{,Codec}Gen.v is regenerated. *)
From Coq Require Import ZArith NArith List Bool Lia Arith.
From GVgen Require Import InstrGen InstrCodecGen.
From GV Require Import VM.Codec.
Import ListNotations.
Local Open Scope N_scope.

(* ---------- the two properties every codec in the development has ---------- *)
Definition rt1 {A : Type} (e : A -> bytes) (d : dec_t A) (x : A) : Prop :=
  forall rest, d (e x ++ rest) = Some (x, rest).
Definition pf1 {A : Type} (e : A -> bytes) (d : dec_t A) (x : A) : Prop :=
  forall p q, e x = p ++ q -> q <> [] -> d p = None.

Lemma app_split {A : Type} (a b p q : list A) : a ++ b = p ++ q ->
  (exists p', p = a ++ p' /\ b = p' ++ q) \/ (exists a', a' <> [] /\ a = p ++ a' /\ q = a' ++ b).
Proof.
  revert p. induction a as [|x a IH]; intros p H.
  - left. exists p. split; [reflexivity|exact H].
  - destruct p as [|y p].
    + right. exists (x :: a). split; [discriminate|]. split; [reflexivity|]. symmetry. exact H.
    + cbn [app] in H. injection H as Hxy H. subst y.
      destruct (IH _ H) as [[p' [Hp Hb]]|[a' [Hne [Ha Hq]]]].
      * left. exists p'. subst. split; reflexivity.
      * right. exists a'. subst. split; [exact Hne|]. split; reflexivity.
Qed.

(* sequencing: a prefix of [e x ++ E2] either cuts [e x] (decoding fails) or contains it entirely *)
Lemma seq_split {A : Type} (e : A -> bytes) (d : dec_t A) (x : A) (E2 p q : bytes) :
  rt1 e d x -> pf1 e d x -> e x ++ E2 = p ++ q -> q <> [] ->
  d p = None \/ exists p', d p = Some (x, p') /\ E2 = p' ++ q.
Proof.
  intros Hrt Hpf H Hq. destruct (app_split _ _ _ _ H) as [[p' [Hp Hb]]|[a' [Hne [Ha Hq']]]].
  - right. exists p'. subst p. split; [apply Hrt|exact Hb].
  - left. eapply Hpf; eauto.
Qed.

Lemma nil_split {A : Type} (p q : list A) : [] = p ++ q -> q <> [] -> False.
Proof. intros H Hq. symmetry in H. apply app_eq_nil in H. destruct H as [_ H]. contradiction. Qed.

(* ---------- fixed width ---------- *)
Lemma le_length k : forall n, length (le_bytes k n) = k.
Proof. induction k as [|k IH]; intros n; cbn [le_bytes length]; [reflexivity|]. rewrite IH. reflexivity. Qed.

Lemma get_le_short k : forall p, (length p < k)%nat -> get_le k p = None.
Proof.
  induction k as [|k IH]; intros p H; [lia|].
  destruct p as [|b p]; cbn [get_le]; [reflexivity|].
  rewrite IH; [reflexivity|]. cbn [length] in H. lia.
Qed.

Lemma le_rt k : forall n, n < 256 ^ N.of_nat k -> rt1 (le_bytes k) (get_le k) n.
Proof.
  induction k as [|k IH]; intros n Hn rest.
  - change (256 ^ N.of_nat 0) with 1 in Hn. assert (n = 0) by lia. subst. reflexivity.
  - rewrite Nat2N.inj_succ, N.pow_succ_r' in Hn.
    cbn [le_bytes get_le app]. rewrite IH.
    + pose proof (N.div_mod' n 256) as E. f_equal. f_equal. lia.
    + apply N.div_lt_upper_bound; lia.
Qed.

Lemma le_pf k n : pf1 (le_bytes k) (get_le k) n.
Proof.
  intros p q H Hq. apply get_le_short. pose proof (le_length k n) as L.
  rewrite H, app_length in L. destruct q; [congruence|]. cbn [length] in L. lia.
Qed.

(* ---------- varint ---------- *)
Lemma get_varint_small w b r : (b <? 251) = true -> get_varint w (b :: r) = Some (b, r).
Proof. intros H. cbn [get_varint]. rewrite H. reflexivity. Qed.
Lemma get_varint_251 w r : get_varint w (251 :: r) = get_le 2 r.
Proof. reflexivity. Qed.
Lemma get_varint_252 w r : get_varint w (252 :: r) = get_le 4 r.
Proof. reflexivity. Qed.
Lemma get_varint_253 w r : get_varint w (253 :: r) = if w then get_le 8 r else None.
Proof. destruct w; reflexivity. Qed.

Lemma varint_rt (wide : bool) n : (if wide then n < two64 else n < two32) -> rt1 put_varint (get_varint wide) n.
Proof.
  intros Hn rest. unfold put_varint.
  destruct (n <? 251) eqn:E1.
  - cbn [app]. apply get_varint_small. exact E1.
  - destruct (n <? 65536) eqn:E2.
    + cbn [app]. rewrite get_varint_251. apply (le_rt 2). apply N.ltb_lt. exact E2.
    + destruct (n <? 4294967296) eqn:E3.
      * cbn [app]. rewrite get_varint_252. apply (le_rt 4). apply N.ltb_lt. exact E3.
      * cbn [app]. rewrite get_varint_253. destruct wide.
        -- apply (le_rt 8). exact Hn.
        -- apply N.ltb_ge in E3. unfold two32 in Hn. lia.
Qed.

Lemma varint_pf (wide : bool) n : pf1 put_varint (get_varint wide) n.
Proof.
  intros p q H Hq. unfold put_varint in H.
  assert (Hcons : forall t k, t :: le_bytes k n = p ++ q ->
                              p = [] \/ exists p', p = t :: p' /\ (length p' < k)%nat).
  { intros t k H'. destruct p as [|b p']; [left; reflexivity|]. right.
    cbn [app] in H'. injection H' as Hb H'. subst b. exists p'. split; [reflexivity|].
    pose proof (le_length k n) as L. rewrite H', app_length in L.
    destruct q; [congruence|]. cbn [length] in L. lia. }
  destruct (n <? 251).
  - destruct p as [|b p']; [reflexivity|]. cbn [app] in H. injection H as _ H.
    exfalso. eapply nil_split; eauto.
  - destruct (n <? 65536).
    + destruct (Hcons _ _ H) as [Hp|[p' [Hp L]]]; subst p; [reflexivity|].
      rewrite get_varint_251. apply get_le_short. exact L.
    + destruct (n <? 4294967296).
      * destruct (Hcons _ _ H) as [Hp|[p' [Hp L]]]; subst p; [reflexivity|].
        rewrite get_varint_252. apply get_le_short. exact L.
      * destruct (Hcons _ _ H) as [Hp|[p' [Hp L]]]; subst p; [reflexivity|].
        rewrite get_varint_253. destruct wide; [|reflexivity]. apply get_le_short. exact L.
Qed.

(* ---------- primitives ---------- *)
Lemma u8_rt n : rt1 put_u8 get_u8 n.
Proof. intros rest. reflexivity. Qed.
Lemma u8_pf n : pf1 put_u8 get_u8 n.
Proof.
  intros p q H Hq. destruct p as [|b p]; [reflexivity|]. unfold put_u8 in H. cbn [app] in H.
  injection H as _ H. exfalso. eapply nil_split; eauto.
Qed.

Lemma u32_rt c n : n < two32 -> rt1 (put_u32 c) (get_u32 c) n.
Proof.
  intros H rest. destruct c; cbn [put_u32 get_u32].
  - apply (le_rt 4 n H rest).
  - apply (varint_rt false n H rest).
Qed.
Lemma u32_pf c n : pf1 (put_u32 c) (get_u32 c) n.
Proof.
  intros p q H Hq. destruct c; cbn [put_u32 get_u32] in *.
  - apply (le_pf 4 n p q H Hq).
  - apply (varint_pf false n p q H Hq).
Qed.

Lemma u64_rt c n : n < two64 -> rt1 (put_u64 c) (get_u64 c) n.
Proof.
  intros H rest. destruct c; cbn [put_u64 get_u64].
  - apply (le_rt 8 n H rest).
  - apply (varint_rt true n H rest).
Qed.
Lemma u64_pf c n : pf1 (put_u64 c) (get_u64 c) n.
Proof.
  intros p q H Hq. destruct c; cbn [put_u64 get_u64] in *.
  - apply (le_pf 8 n p q H Hq).
  - apply (varint_pf true n p q H Hq).
Qed.

Definition i64_ok (z : Z) : Prop := (- two63z <= z < two63z)%Z.

Lemma wrap64_lt z : wrap64 z < two64.
Proof.
  unfold wrap64, two64. pose proof (Z.mod_pos_bound z two64z eq_refl) as B.
  unfold two64z in *. lia.
Qed.

Lemma unwrap_wrap z : i64_ok z -> unwrap64 (wrap64 z) = z.
Proof.
  unfold i64_ok, unwrap64, wrap64. intros H. cbv zeta.
  pose proof (Z.mod_pos_bound z two64z eq_refl) as B.
  rewrite Z2N.id by lia.
  destruct (Z.ltb_spec z 0) as [Hneg|Hpos].
  - assert (E : (z mod two64z = z + two64z)%Z).
    { symmetry. apply Z.mod_unique with (q := (-1)%Z); unfold two63z, two64z in *; lia. }
    rewrite E. destruct (Z.ltb_spec (z + two64z) two63z); unfold two63z, two64z in *; lia.
  - rewrite Z.mod_small by (unfold two63z, two64z in *; lia).
    destruct (Z.ltb_spec z two63z); unfold two63z, two64z in *; lia.
Qed.

Lemma zigzag_lt z : i64_ok z -> zigzag z < two64.
Proof.
  unfold i64_ok, zigzag, two64, two63z. intros H. destruct (Z.ltb_spec z 0); lia.
Qed.

Lemma unzigzag_zigzag z : unzigzag (zigzag z) = z.
Proof.
  unfold unzigzag, zigzag. cbv zeta. destruct (Z.ltb_spec z 0) as [Hneg|Hpos].
  - rewrite Z2N.id by lia.
    replace (-2 * z - 1)%Z with (1 + 2 * (- z - 1))%Z by lia.
    rewrite Z.even_add_mul_2. change (Z.even 1) with false. cbv iota.
    replace (1 + 2 * (- z - 1) + 1)%Z with ((- z) * 2)%Z by lia.
    rewrite Z.div_mul by lia. lia.
  - rewrite Z2N.id by lia.
    replace (2 * z)%Z with (0 + 2 * z)%Z by lia.
    rewrite Z.even_add_mul_2. change (Z.even 0) with true. cbv iota.
    replace (0 + 2 * z)%Z with (z * 2)%Z by lia.
    rewrite Z.div_mul by lia. reflexivity.
Qed.

Lemma i64_rt c z : i64_ok z -> rt1 (put_i64 c) (get_i64 c) z.
Proof.
  intros H rest. destruct c; cbn [put_i64 get_i64].
  - rewrite (le_rt 8 (wrap64 z) (wrap64_lt z) rest). rewrite (unwrap_wrap z H). reflexivity.
  - rewrite (varint_rt true (zigzag z) (zigzag_lt z H) rest). rewrite unzigzag_zigzag. reflexivity.
Qed.
Lemma i64_pf c z : pf1 (put_i64 c) (get_i64 c) z.
Proof.
  intros p q H Hq. destruct c; cbn [put_i64 get_i64] in *.
  - rewrite (le_pf 8 _ p q H Hq). reflexivity.
  - rewrite (varint_pf true _ p q H Hq). reflexivity.
Qed.

Lemma f64_rt b : b < two64 -> rt1 put_f64 get_f64 b.
Proof. intros H rest. apply (le_rt 8 b H rest). Qed.
Lemma f64_pf b : pf1 put_f64 get_f64 b.
Proof. intros p q H Hq. apply (le_pf 8 b p q H Hq). Qed.

(* ---------- instruction fields ---------- *)
Lemma fval_rt c v : wf_fvalb v = true -> rt1 (put_fval c) (get_fval c (ty_of v)) v.
Proof.
  intros H rest. destruct v as [z|n|n|b]; cbn [put_fval get_fval ty_of wf_fvalb] in *.
  - apply andb_true_iff in H. destruct H as [H1 H2]. apply Z.leb_le in H1. apply Z.ltb_lt in H2.
    rewrite (i64_rt c z (conj H1 H2) rest). reflexivity.
  - reflexivity.
  - apply N.ltb_lt in H. rewrite (u32_rt c n H rest). reflexivity.
  - apply N.ltb_lt in H. rewrite (f64_rt b H rest). reflexivity.
Qed.

Lemma fval_pf c v : pf1 (put_fval c) (get_fval c (ty_of v)) v.
Proof.
  intros p q H Hq. destruct v as [z|n|n|b]; cbn [put_fval get_fval ty_of] in *.
  - rewrite (i64_pf c z p q H Hq). reflexivity.
  - rewrite (u8_pf n p q H Hq). reflexivity.
  - rewrite (u32_pf c n p q H Hq). reflexivity.
  - rewrite (f64_pf b p q H Hq). reflexivity.
Qed.

Lemma fvals_rt c vs : forallb wf_fvalb vs = true ->
  forall rest, get_fvals c (map ty_of vs) (flat_map (put_fval c) vs ++ rest) = Some (vs, rest).
Proof.
  induction vs as [|v vs IH]; intros H rest; cbn [map flat_map get_fvals forallb app] in *.
  - reflexivity.
  - apply andb_true_iff in H. destruct H as [Hv Hvs].
    rewrite <- app_assoc. rewrite (fval_rt c v Hv). rewrite (IH Hvs). reflexivity.
Qed.

Lemma fvals_pf c vs : forallb wf_fvalb vs = true ->
  forall p q, flat_map (put_fval c) vs = p ++ q -> q <> [] -> get_fvals c (map ty_of vs) p = None.
Proof.
  induction vs as [|v vs IH]; intros H p q E Hq; cbn [map flat_map get_fvals forallb] in *.
  - exfalso. eapply nil_split; eauto.
  - apply andb_true_iff in H. destruct H as [Hv Hvs].
    destruct (seq_split (put_fval c) (get_fval c (ty_of v)) v _ p q (fval_rt c v Hv) (fval_pf c v) E Hq)
      as [Hn|[p' [Hs E']]].
    + rewrite Hn. reflexivity.
    + rewrite Hs. rewrite (IH Hvs p' q E' Hq). reflexivity.
Qed.

(* ---------- facts about the GENERATED table ---------- *)
Lemma instr_shape_ok i : shape_of_index (instr_index i) = Some (map ty_of (instr_fields i)).
Proof. destruct i; reflexivity. Qed.
Lemma instr_build_ok i : instr_build (instr_index i) (instr_fields i) = Some i.
Proof. destruct i; reflexivity. Qed.
Lemma instr_index_lt i : N.of_nat (instr_index i) < two32.
Proof. destruct i; vm_compute; reflexivity. Qed.
Lemma table_lengths :
  length instr_table = instr_variant_count /\ length instr_builders = instr_variant_count.
Proof. split; reflexivity. Qed.

(* ---------- instructions ---------- *)
Lemma instr_rt c i : wf_instrb i = true -> rt1 (enc_instr c) (dec_instr c) i.
Proof.
  intros H rest. unfold enc_instr, dec_instr. rewrite <- app_assoc.
  rewrite (u32_rt c _ (instr_index_lt i)). rewrite Nat2N.id, instr_shape_ok.
  rewrite (fvals_rt c _ H). rewrite instr_build_ok. reflexivity.
Qed.

Lemma instr_pf c i : wf_instrb i = true -> pf1 (enc_instr c) (dec_instr c) i.
Proof.
  intros H p q E Hq. unfold enc_instr in E. unfold dec_instr.
  destruct (seq_split (put_u32 c) (get_u32 c) _ _ p q (u32_rt c _ (instr_index_lt i)) (u32_pf c _) E Hq)
    as [Hn|[p' [Hs E']]].
  - rewrite Hn. reflexivity.
  - rewrite Hs, Nat2N.id, instr_shape_ok. rewrite (fvals_pf c _ H p' q E' Hq). reflexivity.
Qed.

(* a variant index outside the table is a decoding error *)
Lemma dec_unknown_variant c idx rest :
  idx < two32 -> (instr_variant_count <= N.to_nat idx)%nat -> dec_instr c (put_u32 c idx ++ rest) = None.
Proof.
  intros H Hk. unfold dec_instr. rewrite (u32_rt c idx H rest).
  unfold shape_of_index. replace (nth_error instr_table (N.to_nat idx)) with (@None (list N * vshape)).
  - reflexivity.
  - symmetry. apply nth_error_None. destruct table_lengths as [L _]. rewrite L. exact Hk.
Qed.

(* ---------- sequences ---------- *)
Lemma dec_n_rt {A : Type} (e : A -> bytes) (d : dec_t A) l : Forall (rt1 e d) l ->
  forall rest, dec_n d (length l) (flat_map e l ++ rest) = Some (l, rest).
Proof.
  induction 1 as [|x l Hx Hl IH]; intros rest; cbn [length flat_map dec_n app].
  - reflexivity.
  - rewrite <- app_assoc, Hx, IH. reflexivity.
Qed.

Lemma list_rt {A : Type} c (e : A -> bytes) (d : dec_t A) l :
  Forall (rt1 e d) l -> len_ok l = true -> rt1 (enc_list c e) (dec_list c d) l.
Proof.
  intros H L rest. unfold enc_list, dec_list. rewrite <- app_assoc.
  apply N.ltb_lt in L. rewrite (u64_rt c _ L). rewrite Nat2N.id. apply dec_n_rt. exact H.
Qed.

Lemma dec_n_pf {A : Type} (e : A -> bytes) (d : dec_t A) l :
  Forall (rt1 e d) l -> Forall (pf1 e d) l ->
  forall p q, flat_map e l = p ++ q -> q <> [] -> dec_n d (length l) p = None.
Proof.
  induction l as [|x l IH]; intros Hr Hp p q E Hq; cbn [flat_map length dec_n] in *.
  - exfalso. eapply nil_split; eauto.
  - inversion Hr as [|? ? Hr1 Hr2]; subst. inversion Hp as [|? ? Hp1 Hp2]; subst.
    destruct (seq_split e d x _ p q Hr1 Hp1 E Hq) as [Hn|[p' [Hs E']]].
    + rewrite Hn. reflexivity.
    + rewrite Hs. rewrite (IH Hr2 Hp2 p' q E' Hq). reflexivity.
Qed.

Lemma list_pf {A : Type} c (e : A -> bytes) (d : dec_t A) l :
  Forall (rt1 e d) l -> Forall (pf1 e d) l -> len_ok l = true -> pf1 (enc_list c e) (dec_list c d) l.
Proof.
  intros Hr Hp L p q E Hq. unfold enc_list in E. unfold dec_list. apply N.ltb_lt in L.
  destruct (seq_split (put_u64 c) (get_u64 c) _ _ p q (u64_rt c _ L) (u64_pf c _) E Hq) as [Hn|[p' [Hs E']]].
  - rewrite Hn. reflexivity.
  - rewrite Hs, Nat2N.id. eapply dec_n_pf; eauto.
Qed.

Lemma forallb_Forall {A : Type} (f : A -> bool) l : forallb f l = true -> Forall (fun x => f x = true) l.
Proof.
  intros H. apply Forall_forall. intros x Hx. rewrite forallb_forall in H. apply H. exact Hx.
Qed.

Lemma str_rt c s : len_ok s = true -> rt1 (enc_str c) (dec_str c) s.
Proof.
  intros L. apply list_rt; [|exact L]. apply Forall_forall. intros x _. apply u8_rt.
Qed.
Lemma str_pf c s : len_ok s = true -> pf1 (enc_str c) (dec_str c) s.
Proof.
  intros L. apply list_pf; [| |exact L]; apply Forall_forall; intros x _; [apply u8_rt|apply u8_pf].
Qed.

Lemma instrs_rt c ins : forallb wf_instrb ins = true -> len_ok ins = true ->
  rt1 (enc_list c (enc_instr c)) (dec_list c (dec_instr c)) ins.
Proof.
  intros W L. apply list_rt; [|exact L].
  eapply Forall_impl; [|apply forallb_Forall; exact W]. intros i Hi. apply instr_rt. exact Hi.
Qed.
Lemma instrs_pf c ins : forallb wf_instrb ins = true -> len_ok ins = true ->
  pf1 (enc_list c (enc_instr c)) (dec_list c (dec_instr c)) ins.
Proof.
  intros W L. apply list_pf; [| |exact L].
  - eapply Forall_impl; [|apply forallb_Forall; exact W]. intros i Hi. apply instr_rt. exact Hi.
  - eapply Forall_impl; [|apply forallb_Forall; exact W]. intros i Hi. apply instr_pf. exact Hi.
Qed.
Lemma strs_rt c strs : forallb (fun s => len_ok s) strs = true -> len_ok strs = true ->
  rt1 (enc_list c (enc_str c)) (dec_list c (dec_str c)) strs.
Proof.
  intros W L. apply list_rt; [|exact L].
  eapply Forall_impl; [|apply forallb_Forall; exact W]. intros s Hs. apply str_rt. exact Hs.
Qed.
Lemma strs_pf c strs : forallb (fun s => len_ok s) strs = true -> len_ok strs = true ->
  pf1 (enc_list c (enc_str c)) (dec_list c (dec_str c)) strs.
Proof.
  intros W L. apply list_pf; [| |exact L].
  - eapply Forall_impl; [|apply forallb_Forall; exact W]. intros s Hs. apply str_rt. exact Hs.
  - eapply Forall_impl; [|apply forallb_Forall; exact W]. intros s Hs. apply str_pf. exact Hs.
Qed.

(* ---------- functions: nested induction ---------- *)
Section FnInd.
  Variable P : fn -> Prop.
  Hypothesis Hfn : forall a m ins inner strs, Forall P inner -> P (Fn a m ins inner strs).
  Fixpoint fn_ind' (f : fn) : P f :=
    match f with
    | Fn a m ins inner strs =>
        Hfn a m ins inner strs
          ((fix go (l : list fn) : Forall P l :=
              match l with
              | [] => Forall_nil P
              | g :: l' => Forall_cons g (fn_ind' g) (go l')
              end) inner)
    end.
End FnInd.

Lemma enc_fn_eq c a m ins inner strs :
  enc_fn c (Fn a m ins inner strs) =
  put_u32 c a ++ put_u32 c m ++ enc_list c (enc_instr c) ins ++ enc_list c (enc_fn c) inner
  ++ enc_list c (enc_str c) strs.
Proof. reflexivity. Qed.

Lemma dec_fn_eq c k bs :
  dec_fn c (S k) bs =
  match get_u32 c bs with None => None | Some (a, r1) =>
  match get_u32 c r1 with None => None | Some (m, r2) =>
  match dec_list c (dec_instr c) r2 with None => None | Some (ins, r3) =>
  match dec_list c (dec_fn c k) r3 with None => None | Some (inner, r4) =>
  match dec_list c (dec_str c) r4 with None => None | Some (strs, r5) =>
  Some (Fn a m ins inner strs, r5)
  end end end end end.
Proof. reflexivity. Qed.

Definition maxdepth (l : list fn) : nat := fold_right (fun g d => Nat.max (depth g) d) O l.
Lemma depth_eq a m ins inner strs : depth (Fn a m ins inner strs) = S (maxdepth inner).
Proof. reflexivity. Qed.

Lemma wf_fnb_eq a m ins inner strs :
  wf_fnb (Fn a m ins inner strs) =
  ((a <? two32) && (m <? two32) && forallb wf_instrb ins && len_ok ins
   && forallb wf_fnb inner && len_ok inner && forallb (fun s => len_ok s) strs && len_ok strs).
Proof. reflexivity. Qed.

Lemma maxdepth_in g l : In g l -> (depth g <= maxdepth l)%nat.
Proof.
  induction l as [|h l IH]; intros H; [destruct H|]. unfold maxdepth in *. cbn [fold_right].
  destruct H as [->|H]; [lia|]. specialize (IH H). lia.
Qed.

Record wf_parts (a m : N) (ins : list instr) (inner : list fn) (strs : list (list N)) : Prop := {
  wp_a : a < two32; wp_m : m < two32;
  wp_ins : forallb wf_instrb ins = true; wp_insl : len_ok ins = true;
  wp_inner : forallb wf_fnb inner = true; wp_innerl : len_ok inner = true;
  wp_strs : forallb (fun s => len_ok s) strs = true; wp_strsl : len_ok strs = true }.

Lemma wf_fnb_parts a m ins inner strs :
  wf_fnb (Fn a m ins inner strs) = true -> wf_parts a m ins inner strs.
Proof.
  rewrite wf_fnb_eq. intros W.
  repeat match goal with H : (_ && _) = true |- _ => apply andb_true_iff in H; destruct H end.
  constructor; try assumption; apply N.ltb_lt; assumption.
Qed.

Lemma fn_rt c f : wf_fnb f = true -> forall k, (depth f <= k)%nat -> rt1 (enc_fn c) (dec_fn c k) f.
Proof.
  induction f as [a m ins inner strs IH] using fn_ind'. intros W k D rest.
  apply wf_fnb_parts in W. destruct W.
  rewrite depth_eq in D. destruct k as [|k]; [lia|].
  rewrite enc_fn_eq, dec_fn_eq. repeat rewrite <- app_assoc.
  rewrite (u32_rt c a wp_a0). rewrite (u32_rt c m wp_m0).
  rewrite (instrs_rt c ins wp_ins0 wp_insl0).
  assert (Hin : Forall (rt1 (enc_fn c) (dec_fn c k)) inner).
  { apply Forall_forall. intros g Hg. rewrite Forall_forall in IH. apply IH; [exact Hg| |].
    - rewrite forallb_forall in wp_inner0. apply wp_inner0. exact Hg.
    - pose proof (maxdepth_in g inner Hg). lia. }
  rewrite (list_rt c (enc_fn c) (dec_fn c k) inner Hin wp_innerl0).
  rewrite (strs_rt c strs wp_strs0 wp_strsl0). reflexivity.
Qed.

Lemma fn_pf c f : wf_fnb f = true -> forall k, (depth f <= k)%nat -> pf1 (enc_fn c) (dec_fn c k) f.
Proof.
  induction f as [a m ins inner strs IH] using fn_ind'. intros W k D p q E Hq.
  apply wf_fnb_parts in W. destruct W.
  rewrite depth_eq in D. destruct k as [|k]; [lia|].
  rewrite enc_fn_eq in E. rewrite dec_fn_eq.
  assert (Hin : Forall (rt1 (enc_fn c) (dec_fn c k)) inner /\ Forall (pf1 (enc_fn c) (dec_fn c k)) inner).
  { rewrite Forall_forall in IH. rewrite forallb_forall in wp_inner0.
    split; apply Forall_forall; intros g Hg; pose proof (maxdepth_in g inner Hg).
    - apply fn_rt; [apply wp_inner0; exact Hg|lia].
    - apply IH; [exact Hg|apply wp_inner0; exact Hg|lia]. }
  destruct Hin as [Hin1 Hin2].
  destruct (seq_split (put_u32 c) (get_u32 c) a _ p q (u32_rt c a wp_a0) (u32_pf c a) E Hq)
    as [Hn|[p1 [Hs E1]]]; [rewrite Hn; reflexivity|rewrite Hs; cbv beta iota].
  destruct (seq_split (put_u32 c) (get_u32 c) m _ p1 q (u32_rt c m wp_m0) (u32_pf c m) E1 Hq)
    as [Hn|[p2 [Hs2 E2]]]; [rewrite Hn; reflexivity|rewrite Hs2; cbv beta iota].
  destruct (seq_split _ _ ins _ p2 q (instrs_rt c ins wp_ins0 wp_insl0) (instrs_pf c ins wp_ins0 wp_insl0) E2 Hq)
    as [Hn|[p3 [Hs3 E3]]]; [rewrite Hn; reflexivity|rewrite Hs3; cbv beta iota].
  destruct (seq_split _ _ inner _ p3 q (list_rt c _ _ inner Hin1 wp_innerl0) (list_pf c _ _ inner Hin1 Hin2 wp_innerl0) E3 Hq)
    as [Hn|[p4 [Hs4 E4]]]; [rewrite Hn; reflexivity|rewrite Hs4; cbv beta iota].
  rewrite (strs_pf c strs wp_strs0 wp_strsl0 p4 q E4 Hq). reflexivity.
Qed.

(* ---------- more fuel never changes a successful decoding ---------- *)
Lemma dec_n_mono {A : Type} (d1 d2 : dec_t A) :
  (forall bs v, d1 bs = Some v -> d2 bs = Some v) ->
  forall n bs v, dec_n d1 n bs = Some v -> dec_n d2 n bs = Some v.
Proof.
  intros H n. induction n as [|n IH]; intros bs v E; cbn [dec_n] in *; [exact E|].
  destruct (d1 bs) as [[x r]|] eqn:E1; [|discriminate]. rewrite (H _ _ E1).
  destruct (dec_n d1 n r) as [[xs r']|] eqn:E2; [|discriminate]. rewrite (IH _ _ E2). exact E.
Qed.

Lemma dec_list_mono {A : Type} c (d1 d2 : dec_t A) :
  (forall bs v, d1 bs = Some v -> d2 bs = Some v) ->
  forall bs v, dec_list c d1 bs = Some v -> dec_list c d2 bs = Some v.
Proof.
  intros H bs v E. unfold dec_list in *. destruct (get_u64 c bs) as [[n r]|]; [|discriminate].
  eapply dec_n_mono; eauto.
Qed.

Lemma dec_fn_mono_S c k : forall bs v, dec_fn c k bs = Some v -> dec_fn c (S k) bs = Some v.
Proof.
  induction k as [|k IH]; intros bs v E; [discriminate|].
  rewrite dec_fn_eq in E. rewrite dec_fn_eq.
  destruct (get_u32 c bs) as [[a r1]|]; [|discriminate].
  destruct (get_u32 c r1) as [[m r2]|]; [|discriminate].
  destruct (dec_list c (dec_instr c) r2) as [[ins r3]|]; [|discriminate].
  destruct (dec_list c (dec_fn c k) r3) as [[inner r4]|] eqn:E4; [|discriminate].
  rewrite (dec_list_mono c _ _ IH _ _ E4). exact E.
Qed.

Lemma dec_fn_mono c k k' : (k <= k')%nat -> forall bs v, dec_fn c k bs = Some v -> dec_fn c k' bs = Some v.
Proof.
  induction 1 as [|k' Hle IH]; intros bs v E; [exact E|]. apply dec_fn_mono_S. apply IH. exact E.
Qed.

(* ---------- the input length is enough fuel ---------- *)
Lemma put_u32_len c n : (1 <= length (put_u32 c n))%nat.
Proof.
  destruct c; cbn [put_u32]; [rewrite le_length; lia|]. unfold put_varint.
  destruct (n <? 251); [cbn [length]; lia|].
  destruct (n <? 65536); [cbn [length]; lia|].
  destruct (n <? 4294967296); cbn [length]; lia.
Qed.

Lemma enc_list_len {A : Type} c (e : A -> bytes) l : (length (flat_map e l) <= length (enc_list c e l))%nat.
Proof. unfold enc_list. rewrite app_length. lia. Qed.

Lemma flat_len_ge_max c inner :
  Forall (fun g => (depth g <= length (enc_fn c g))%nat) inner ->
  (maxdepth inner <= length (flat_map (enc_fn c) inner))%nat.
Proof.
  induction 1 as [|g l Hg Hl IH]; unfold maxdepth in *; cbn [fold_right flat_map]; [lia|].
  rewrite app_length. lia.
Qed.

Lemma depth_le_len c f : (depth f <= length (enc_fn c f))%nat.
Proof.
  induction f as [a m ins inner strs IH] using fn_ind'.
  rewrite enc_fn_eq, depth_eq. repeat rewrite app_length.
  pose proof (put_u32_len c a). pose proof (flat_len_ge_max c inner IH).
  pose proof (enc_list_len c (enc_fn c) inner). lia.
Qed.

(* ================= the theorems pinned in Props/C12.v ================= *)

Theorem de_ser_instr : forall c i rest,
  wf_instrb i = true -> dec_instr c (enc_instr c i ++ rest) = Some (i, rest).
Proof. intros c i rest W. apply instr_rt. exact W. Qed.

Theorem de_ser_instrs : forall c ins rest,
  forallb wf_instrb ins = true -> len_ok ins = true ->
  dec_list c (dec_instr c) (enc_list c (enc_instr c) ins ++ rest) = Some (ins, rest).
Proof. intros c ins rest W L. apply instrs_rt; assumption. Qed.

Theorem instr_prefix_fails : forall c i p q,
  wf_instrb i = true -> enc_instr c i = p ++ q -> q <> [] -> dec_instr c p = None.
Proof. intros c i p q W. apply instr_pf. exact W. Qed.

Theorem instrs_prefix_fails : forall c ins p q,
  forallb wf_instrb ins = true -> len_ok ins = true ->
  enc_list c (enc_instr c) ins = p ++ q -> q <> [] -> dec_list c (dec_instr c) p = None.
Proof. intros c ins p q W L. apply instrs_pf; assumption. Qed.

Theorem de_ser_fn_fuel : forall c f fuel rest,
  wf_fnb f = true -> (depth f <= fuel)%nat -> dec_fn c fuel (enc_fn c f ++ rest) = Some (f, rest).
Proof. intros c f fuel rest W D. apply fn_rt; assumption. Qed.

Theorem de_ser_fn : forall c f rest,
  wf_fnb f = true -> decode_fn c (enc_fn c f ++ rest) = Some (f, rest).
Proof.
  intros c f rest W. unfold decode_fn. apply fn_rt; [exact W|].
  pose proof (depth_le_len c f). rewrite app_length. lia.
Qed.

(* truncation is an error value for every fuel, never a (wrong) function *)
Theorem de_prefix_fails_fuel : forall c f fuel p q,
  wf_fnb f = true -> enc_fn c f = p ++ q -> q <> [] -> dec_fn c fuel p = None.
Proof.
  intros c f fuel p q W E Hq. destruct (dec_fn c fuel p) as [v|] eqn:D; [|reflexivity]. exfalso.
  pose proof (dec_fn_mono c fuel (Nat.max fuel (depth f)) (Nat.le_max_l _ _) _ _ D) as D'.
  rewrite (fn_pf c f W _ (Nat.le_max_r _ _) p q E Hq) in D'. discriminate.
Qed.

Theorem de_prefix_fails : forall c f p q,
  wf_fnb f = true -> enc_fn c f = p ++ q -> q <> [] -> decode_fn c p = None.
Proof. intros c f p q W E Hq. unfold decode_fn. eapply de_prefix_fails_fuel; eauto. Qed.

Theorem enc_prefix_free : forall c f1 f2 r1 r2,
  wf_fnb f1 = true -> wf_fnb f2 = true -> enc_fn c f1 ++ r1 = enc_fn c f2 ++ r2 -> f1 = f2 /\ r1 = r2.
Proof.
  intros c f1 f2 r1 r2 W1 W2 E.
  pose proof (fn_rt c f1 W1 (Nat.max (depth f1) (depth f2)) (Nat.le_max_l _ _) r1) as R1.
  pose proof (fn_rt c f2 W2 (Nat.max (depth f1) (depth f2)) (Nat.le_max_r _ _) r2) as R2.
  rewrite E in R1. rewrite R1 in R2. injection R2 as H1 H2. split; assumption.
Qed.

Theorem enc_injective : forall c f1 f2,
  wf_fnb f1 = true -> wf_fnb f2 = true -> enc_fn c f1 = enc_fn c f2 -> f1 = f2.
Proof.
  intros c f1 f2 W1 W2 E. apply (enc_prefix_free c f1 f2 [] [] W1 W2). rewrite E. reflexivity.
Qed.

Theorem enc_instr_injective : forall c i1 i2,
  wf_instrb i1 = true -> wf_instrb i2 = true -> enc_instr c i1 = enc_instr c i2 -> i1 = i2.
Proof.
  intros c i1 i2 W1 W2 E. pose proof (instr_rt c i1 W1 []) as R1. pose proof (instr_rt c i2 W2 []) as R2.
  rewrite E in R1. rewrite R1 in R2. injection R2 as H. exact H.
Qed.

Theorem unknown_variant_fails : forall c idx rest,
  idx < two32 -> (instr_variant_count <= N.to_nat idx)%nat -> dec_instr c (put_u32 c idx ++ rest) = None.
Proof. exact dec_unknown_variant. Qed.

(* whatever "running a function" means, the loaded function runs like the original *)
Theorem load_behaves : forall (R : Type) (run : fn -> R) c f,
  wf_fnb f = true ->
  match decode_fn c (enc_fn c f) with Some (g, _) => Some (run g) | None => None end = Some (run f).
Proof.
  intros R run c f W. pose proof (de_ser_fn c f [] W) as H. rewrite app_nil_r in H. rewrite H. reflexivity.
Qed.

(* ---------- dangling references (known finding `load-crash:corrupt:instr-index:*`) ---------- *)
(* The decoder is faithful to the implementation: it returns functions whose instructions point outside
   their own tables.  The full statement is false; the checked decoder has it. *)
Definition decode_checks_refs_full_stmt : Prop :=
  forall c bs f r, decode_fn c bs = Some (f, r) -> refs_ok f = true.

Theorem decode_checks_refs_refuted :
  exists c bs f r, decode_fn c bs = Some (f, r) /\ wf_fnb f = true /\ refs_ok f = false.
Proof.
  exists Varint, (enc_fn Varint (Fn 0 1 [IPushString 7; IReturn] [] [])),
         (Fn 0 1 [IPushString 7; IReturn] [] []), [].
  vm_compute. repeat split; reflexivity.
Qed.

Theorem checked_decode_sound : forall c bs f r,
  checked_decode c bs = Some (f, r) -> refs_ok f = true /\ decode_fn c bs = Some (f, r).
Proof.
  intros c bs f r H. unfold checked_decode in H.
  destruct (decode_fn c bs) as [[g r']|]; [|discriminate].
  destruct (refs_ok g) eqn:E; [|discriminate]. injection H as H1 H2. subst. split; [exact E|reflexivity].
Qed.

Theorem checked_decode_complete : forall c f r,
  wf_fnb f = true -> refs_ok f = true -> checked_decode c (enc_fn c f ++ r) = Some (f, r).
Proof.
  intros c f r W R. unfold checked_decode. rewrite (de_ser_fn c f r W). rewrite R. reflexivity.
Qed.

Theorem checked_decode_prefix_fails : forall c f p q,
  wf_fnb f = true -> enc_fn c f = p ++ q -> q <> [] -> checked_decode c p = None.
Proof.
  intros c f p q W E Hq. unfold checked_decode. rewrite (de_prefix_fails c f p q W E Hq). reflexivity.
Qed.
