(* C12 — [load_behaves] made concrete with the model VM: running what was decoded from an encoding is
   running the function that was encoded; a truncated encoding is never run. *)
From Coq Require Import List ZArith NArith Bool.
From GVgen Require Import InstrGen InstrCodecGen.
From GV Require Import VM.Codec VM.CodecProofs VM.Machine VM.LoadModel.
Import ListNotations.

Theorem load_behaves_model_vm : forall c r globals fuel f rest,
  wf_fnb f = true ->
  load_and_run c r globals fuel (enc_fn c f ++ rest) = Some (run_fn r globals fuel f).
Proof.
  intros c r globals fuel f rest W. unfold load_and_run. rewrite (de_ser_fn c f rest W). reflexivity.
Qed.

(* both integer encodings of the same function run alike *)
Theorem load_behaves_model_vm_any_encoding : forall c1 c2 r globals fuel f,
  wf_fnb f = true ->
  load_and_run c1 r globals fuel (enc_fn c1 f) = load_and_run c2 r globals fuel (enc_fn c2 f).
Proof.
  intros c1 c2 r globals fuel f W.
  pose proof (load_behaves_model_vm c1 r globals fuel f [] W) as H1.
  pose proof (load_behaves_model_vm c2 r globals fuel f [] W) as H2.
  rewrite app_nil_r in H1, H2. rewrite H1, H2. reflexivity.
Qed.

Theorem truncated_never_runs : forall c r globals fuel f p q,
  wf_fnb f = true -> enc_fn c f = p ++ q -> q <> [] -> load_and_run c r globals fuel p = None.
Proof.
  intros c r globals fuel f p q W E Hq. unfold load_and_run.
  rewrite (de_prefix_fails c f p q W E Hq). reflexivity.
Qed.
