(* C07 — frames of the value stack: entry check and TailCall frame replacement.
   Definitions only (proofs in TailCallProofs.v); nothing here is extracted.

   Modelled code:
     vm/src/stack.rs:906  add_new_frame: offset = stack.len() - args; refuses with
                          StackOverflow when stack.len() + max_stack_size > limit (:937)
     vm/src/thread.rs:2181 TailCall(args): amount = frame_len - args (+1 and the excess fields are
                          re-pushed when the frame has excess arguments); exit_scope pops the frame;
                          end = len - args - 1; remove_range(end - amount, end); do_call(args)
   The stack is a list with the BOTTOM first, so absolute positions are list indices. *)
From Coq Require Import List Arith Bool Lia.
Import ListNotations.

Section Frames.
  Variable A : Type.                         (* values: irrelevant here *)

  Record frame : Type := { f_offset : nat; f_excess : bool }.
  Record mstate : Type := { m_stack : list A; m_frames : list frame (* innermost first *) }.

  (* stack.rs:906 add_new_frame *)
  Definition enter (args max limit : nat) (excess : bool) (st : mstate) : option mstate :=
    let len := length (m_stack st) in
    if args <=? len then
      if limit <? len + max then None      (* Error::StackOverflow(limit) *)
      else Some {| m_stack := m_stack st;
                   m_frames := {| f_offset := len - args; f_excess := excess |} :: m_frames st |}
    else None.

  (* thread.rs:2181 TailCall(n); [ex] = fields of the excess-arguments object (only read when the
     frame has f_excess = true).  Returns the state after the frame was removed and the number of
     arguments handed to do_call. *)
  Definition tail_call (n : nat) (ex : list A) (st : mstate) : option (mstate * nat) :=
    match m_frames st with
    | [] => None
    | fr :: rest =>
        let o := f_offset fr in
        let stk := m_stack st in
        let len := length stk in
        if (o + S n <=? len) then
          if f_excess fr then
            (* [.., excess object, callee | frame ... g b1..bn]  ->  [.., g b1..bn e1..ek] *)
            if 2 <=? o then
              Some ({| m_stack := firstn (o - 2) stk ++ skipn (len - S n) stk ++ ex; m_frames := rest |},
                    n + length ex)
            else None
          else
            (* [.., callee | frame ... g b1..bn]  ->  [.., g b1..bn] *)
            if 1 <=? o then
              Some ({| m_stack := firstn (o - 1) stk ++ skipn (len - S n) stk; m_frames := rest |}, n)
            else None
        else None
    end.

  (* the frame's own part of the stack is replaced by [vs] (any computation inside the frame) *)
  Definition work (vs : list A) (st : mstate) : mstate :=
    match m_frames st with
    | [] => st
    | fr :: _ => {| m_stack := firstn (f_offset fr) (m_stack st) ++ vs; m_frames := m_frames st |}
    end.

  (* One link: the frame computes (its part of the stack becomes [vs]), tail-calls with n
     arguments, and the callee (max_stack_size [max]) is entered with exact arity. *)
  Definition link (vs : list A) (n max limit : nat) (st : mstate) : option mstate :=
    match tail_call n [] (work vs st) with
    | Some (st1, k) => enter k max limit false st1
    | None => None
    end.

  Fixpoint chain (l : list (list A * nat * nat)) (limit : nat) (st : mstate) : option mstate :=
    match l with
    | [] => Some st
    | (vs, n, max) :: l' =>
        match link vs n max limit st with
        | Some st' => chain l' limit st'
        | None => None
        end
    end.

End Frames.

Arguments m_stack {A}.
Arguments m_frames {A}.
Arguments Build_mstate {A}.
Arguments enter {A}.
Arguments tail_call {A}.
Arguments work {A}.
Arguments link {A}.
Arguments chain {A}.
