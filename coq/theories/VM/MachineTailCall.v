(* TailCall n  versus  Call n; Return  on the model VM: a simulation between the two stack shapes. *)
From Coq Require Import List ZArith NArith Bool Lia.
From GVgen Require Import InstrGen.
From GV Require Import VM.Machine VM.MachineProofs.
Import ListNotations.

Definition mk st fr store log pend : state :=
  {| st_stack := st; st_frames := fr; st_store := store; st_log := log; st_pending := pend |}.

Lemma do_call_split : forall prog s P c argsl,
  st_stack s = P ++ c :: argsl -> do_call prog s (length argsl) = call_on prog s P c argsl.
Proof.
  intros prog s P c argsl H. unfold do_call. rewrite H. rewrite app_length. cbn [length].
  assert (Nat.ltb (length P + S (length argsl)) (S (length argsl)) = false) as -> by (apply Nat.ltb_ge; lia).
  replace (length P + S (length argsl) - 1 - length argsl) with (length P) by lia.
  rewrite nth_error_app2 by lia. rewrite Nat.sub_diag. cbn [nth_error].
  rewrite firstn_app_exact by reflexivity.
  replace (P ++ c :: argsl) with ((P ++ [c]) ++ argsl) by (rewrite <- app_assoc; reflexivity).
  rewrite skipn_app_exact by (rewrite app_length; cbn [length]; lia).
  reflexivity.
Qed.

Lemma split_top : forall (top : list mval) n, S n <= length top ->
  exists pre c argsl, top = pre ++ c :: argsl /\ length argsl = n /\ length pre = length top - S n.
Proof.
  intros top n H.
  pose proof (firstn_skipn (length top - S n) top) as E.
  assert (length (skipn (length top - S n) top) = S n) as L by (rewrite skipn_length; lia).
  destruct (skipn (length top - S n) top) as [| c argsl]; [discriminate |].
  exists (firstn (length top - S n) top), c, argsl. split; [symmetry; exact E |].
  split; [cbn [length] in L; lia | rewrite firstn_length; lia].
Qed.

Section Sim.
  Variable prog : program.
  Variables (base : list mval) (fnval : mval) (locals : list mval) (fr2 : frame) (below : list frame).
  Let ins := fnval :: locals.

  Hypothesis below_ne : below <> [].
  Hypothesis fr2_off : fr_off fr2 = S (length base).
  Hypothesis fr2_noex : fr_excess fr2 = false.
  Variable fn2 : func.
  Hypothesis fr2_fn : get_fn prog (fr_fn fr2) = Some fn2.
  Hypothesis fr2_ret : nth_error (fn_code fn2) (fr_pc fr2) = Some IReturn.

  Definition shiftf (fr : frame) : frame :=
    {| fr_off := fr_off fr + length ins; fr_excess := fr_excess fr; fr_fn := fr_fn fr; fr_upv := fr_upv fr; fr_pc := fr_pc fr |}.

  Definition need (fr : frame) : nat := if fr_excess fr then 2 else 1.
  Definition frame_ok (fr : frame) : Prop := length base + need fr <= fr_off fr.

  Fixpoint bottom_exact (l : list frame) : Prop :=
    match l with
    | [] => True
    | [fr] => fr_off fr = length base + need fr
    | _ :: l' => bottom_exact l'
    end.

  Inductive R : state -> state -> Prop :=
  | R_intro : forall top above store log pending,
      Forall frame_ok above -> bottom_exact above ->
      (forall n, pending = Some n -> S n <= length top) ->
      (above = [] -> exists n, pending = Some n /\ length top = S n) ->
      R (mk (base ++ top) (above ++ below) store log pending)
        (mk (base ++ ins ++ top) (map shiftf above ++ fr2 :: below) store log pending).

  Inductive Synced : state -> state -> Prop :=
  | Synced_intro : forall r store log,
      Synced (mk (base ++ [r]) below store log None) (mk (base ++ ins ++ [r]) (fr2 :: below) store log None).

  Definition rel_out (o1 o2 : outcome) : Prop :=
    match o1, o2 with
    | Next s1, Next s2 => R s1 s2 \/ Synced s1 s2
    | Done r1 l1, Done r2 l2 => r1 = r2 /\ l1 = l2
    | _, _ => False
    end.

  Lemma R_make : forall st1 st2 f1 f2 top above store log pending,
    st1 = base ++ top -> st2 = base ++ ins ++ top ->
    f1 = above ++ below -> f2 = map shiftf above ++ fr2 :: below ->
    Forall frame_ok above -> bottom_exact above ->
    (forall n, pending = Some n -> S n <= length top) ->
    (above = [] -> exists n, pending = Some n /\ length top = S n) ->
    R (mk st1 f1 store log pending) (mk st2 f2 store log pending).
  Proof. intros; subst; apply R_intro; assumption. Qed.

  Lemma Synced_make : forall st1 st2 f1 f2 r store log,
    st1 = base ++ [r] -> st2 = base ++ ins ++ [r] -> f1 = below -> f2 = fr2 :: below ->
    Synced (mk st1 f1 store log None) (mk st2 f2 store log None).
  Proof. intros; subst; apply Synced_intro. Qed.

  Lemma bottom_exact_cons : forall fr l, l <> [] -> bottom_exact l -> bottom_exact (fr :: l).
  Proof. intros fr l Hl H. destruct l; [congruence | exact H]. Qed.

  Lemma bottom_exact_tail : forall fr l, bottom_exact (fr :: l) -> bottom_exact l.
  Proof. intros fr l H. destruct l; [exact I | exact H]. Qed.

  (* ------------------------------------------------------------ calls *)
  Lemma call_on_sim : forall pre c argsl above store log x1 x2 p1 p2,
    Forall frame_ok above -> bottom_exact above -> (above = [] -> pre = []) ->
    rel_out (call_on prog (mk x1 (above ++ below) store log p1) (base ++ pre) c argsl)
            (call_on prog (mk x2 (map shiftf above ++ fr2 :: below) store log p2) (base ++ ins ++ pre) c argsl).
  Proof.
    intros pre c argsl above store log x1 x2 p1 p2 Hok Hbot Hpre.
    unfold call_on. cbn [st_store st_frames st_log mk].
    match goal with |- context [match ?X with pair _ _ => _ end] => destruct X as [callee allargs] end.
    assert (forall v lg, (above = [] -> False) \/ above = [] ->
              rel_out (Next (mk ((base ++ pre) ++ [v]) (above ++ below) store lg None))
                      (Next (mk ((base ++ ins ++ pre) ++ [v]) (map shiftf above ++ fr2 :: below) store lg None))) as Hone.
    { intros v lg _. cbn [rel_out]. destruct above as [| fr above'].
      - pose proof (Hpre eq_refl); subst pre. right.
        eapply Synced_make; try reflexivity; rewrite ?app_nil_r, <- ?app_assoc; reflexivity.
      - left. eapply R_make with (top := pre ++ [v]) (above := fr :: above');
          try reflexivity; try assumption; try (rewrite <- ?app_assoc; reflexivity).
        + intros n Hn; discriminate.
        + intro H; discriminate. }
    destruct (resolve store callee); try (cbn [rel_out stuck st_log mk]; auto; fail).
    - (* closure *)
      destruct (get_fn prog fn) as [f |]; [| cbn [rel_out stuck st_log mk]; auto].
      destruct (Nat.compare (length allargs) (fn_args f)).
      + cbn [rel_out]. left.
        eapply R_make with (top := pre ++ c :: allargs)
                           (above := {| fr_off := S (length (base ++ pre)); fr_excess := false; fr_fn := fn; fr_upv := upvars; fr_pc := 0 |} :: above);
          try reflexivity; try (rewrite <- ?app_assoc; reflexivity).
        * cbn [map app]. f_equal. unfold shiftf. cbn [fr_off fr_excess fr_fn fr_upv fr_pc].
          f_equal. rewrite !app_length. unfold ins. cbn [length]. lia.
        * constructor; [| assumption]. unfold frame_ok, need. cbn [fr_excess fr_off]. rewrite app_length. lia.
        * destruct above as [| fr above'].
          -- cbn [bottom_exact]. unfold need. cbn [fr_off fr_excess]. rewrite (Hpre eq_refl), app_nil_r. lia.
          -- apply bottom_exact_cons; [discriminate | assumption].
        * intros n Hn; discriminate.
        * intro H; discriminate.
      + apply Hone. destruct above; [right; reflexivity | left; discriminate].
      + cbn [rel_out]. left.
        eapply R_make with (top := pre ++ MData 0 [] (skipn (fn_args f) allargs) :: c :: firstn (fn_args f) allargs)
                           (above := {| fr_off := S (S (length (base ++ pre))); fr_excess := true; fr_fn := fn; fr_upv := upvars; fr_pc := 0 |} :: above);
          try reflexivity; try (rewrite <- ?app_assoc; reflexivity).
        * cbn [map app]. f_equal. unfold shiftf. cbn [fr_off fr_excess fr_fn fr_upv fr_pc].
          f_equal. rewrite !app_length. unfold ins. cbn [length]. lia.
        * constructor; [| assumption]. unfold frame_ok, need. cbn [fr_excess fr_off]. rewrite app_length. lia.
        * destruct above as [| fr above'].
          -- cbn [bottom_exact]. unfold need. cbn [fr_off fr_excess]. rewrite (Hpre eq_refl), app_nil_r. lia.
          -- apply bottom_exact_cons; [discriminate | assumption].
        * intros n Hn; discriminate.
        * intro H; discriminate.
    - (* extern *)
      assert (rel_out
        match run_ext e (firstn (ext_arity e) allargs) log with
        | (Some (inl r), log0) =>
            Next {| st_stack := (base ++ pre) ++ r :: skipn (ext_arity e) allargs; st_frames := above ++ below; st_store := store; st_log := log0;
                    st_pending := match skipn (ext_arity e) allargs with [] => None | _ :: _ => Some (length (skipn (ext_arity e) allargs)) end |}
        | (Some (inr e0), log0) => Done (VFail e0) log0
        | (None, log0) => Done (VStuck k_bad_extern) log0
        end
        match run_ext e (firstn (ext_arity e) allargs) log with
        | (Some (inl r), log0) =>
            Next {| st_stack := (base ++ ins ++ pre) ++ r :: skipn (ext_arity e) allargs; st_frames := map shiftf above ++ fr2 :: below; st_store := store; st_log := log0;
                    st_pending := match skipn (ext_arity e) allargs with [] => None | _ :: _ => Some (length (skipn (ext_arity e) allargs)) end |}
        | (Some (inr e0), log0) => Done (VFail e0) log0
        | (None, log0) => Done (VStuck k_bad_extern) log0
        end) as Hext.
      { destruct (run_ext e (firstn (ext_arity e) allargs) log) as [[[r | e0] |] log0]; cbn [rel_out]; auto.
        destruct (skipn (ext_arity e) allargs) as [| a later] eqn:El.
        - apply (Hone r log0). destruct above; [right; reflexivity | left; discriminate].
        - left. eapply R_make with (top := pre ++ r :: a :: later) (above := above);
            try reflexivity; try assumption; try (rewrite <- ?app_assoc; reflexivity).
          + intros n Hn. inversion Hn; subst. rewrite app_length. cbn [length]. lia.
          + intro Ha. exists (length (a :: later)). split; [reflexivity |].
            rewrite (Hpre Ha). reflexivity. }
      destruct (Nat.compare (length allargs) (ext_arity e)); try exact Hext.
      apply Hone. destruct above; [right; reflexivity | left; discriminate].
  Qed.

  Lemma do_call_sim : forall top above store log p1 p2 args,
    Forall frame_ok above -> bottom_exact above ->
    S args <= length top -> (above = [] -> length top = S args) ->
    rel_out (do_call prog (mk (base ++ top) (above ++ below) store log p1) args)
            (do_call prog (mk (base ++ ins ++ top) (map shiftf above ++ fr2 :: below) store log p2) args).
  Proof.
    intros top above store log p1 p2 args Hok Hbot Hlen Hex.
    destruct (split_top top args Hlen) as (pre & c & argsl & -> & Hargs & Hpre).
    subst args.
    rewrite (do_call_split prog _ (base ++ pre) c argsl) by (cbn [st_stack mk]; rewrite <- app_assoc; reflexivity).
    rewrite (do_call_split prog _ (base ++ ins ++ pre) c argsl) by (cbn [st_stack mk]; rewrite <- !app_assoc; reflexivity).
    apply call_on_sim; try assumption.
    intro Ha. specialize (Hex Ha). rewrite Hex in Hpre. rewrite Nat.sub_diag in Hpre.
    destruct pre; [reflexivity | discriminate].
  Qed.

  (* ------------------------------------------------------------ list facts under the shift *)
  Lemma firstn_shift : forall top p, length base <= p ->
    firstn p (base ++ top) = base ++ firstn (p - length base) top /\
    firstn (p + length ins) (base ++ ins ++ top) = base ++ ins ++ firstn (p - length base) top.
  Proof.
    intros top p Hp. split.
    - rewrite firstn_app. rewrite firstn_all2 by lia. reflexivity.
    - rewrite (app_assoc base ins top). rewrite firstn_app. rewrite firstn_all2 by (rewrite app_length; lia).
      rewrite app_length. replace (p + length ins - (length base + length ins)) with (p - length base) by lia.
      rewrite <- app_assoc. reflexivity.
  Qed.

  Lemma skipn_shift : forall top p, length base <= p ->
    skipn p (base ++ top) = skipn (p - length base) top /\
    skipn (p + length ins) (base ++ ins ++ top) = skipn (p - length base) top.
  Proof.
    intros top p Hp. split.
    - rewrite skipn_app. rewrite skipn_all2 by lia. reflexivity.
    - rewrite (app_assoc base ins top). rewrite skipn_app. rewrite skipn_all2 by (rewrite app_length; lia).
      rewrite app_length. replace (p + length ins - (length base + length ins)) with (p - length base) by lia.
      reflexivity.
  Qed.

  Lemma nth_shift : forall top p, length base <= p ->
    nth_error (base ++ ins ++ top) (p + length ins) = nth_error (base ++ top) p.
  Proof.
    intros top p Hp. rewrite (app_assoc base ins top).
    rewrite nth_error_app2 by (rewrite app_length; lia). rewrite nth_error_app2 by lia.
    rewrite app_length. f_equal. lia.
  Qed.

  Lemma lastn_length : forall A (l : list A) n, n <= length l -> length (lastn n l) = n.
  Proof. intros A l n H. unfold lastn. rewrite skipn_length. lia. Qed.

  Lemma frame_ok_base0 : forall fr, frame_ok fr -> length base + need fr <= fr_off fr.
  Proof. intros fr H; exact H. Qed.

  Lemma frame_ok_base : forall fr, frame_ok fr -> length base + 1 <= fr_off fr.
  Proof. intros fr H. unfold frame_ok, need in H. destruct (fr_excess fr); lia. Qed.

  Definition with_pc (fr : frame) (pc : nat) : frame :=
    {| fr_off := fr_off fr; fr_excess := fr_excess fr; fr_fn := fr_fn fr; fr_upv := fr_upv fr; fr_pc := pc |}.

  Lemma bottom_exact_pc : forall fr pc l, bottom_exact (fr :: l) -> bottom_exact (with_pc fr pc :: l).
  Proof. intros fr pc l H. destruct l; exact H. Qed.

  (* ------------------------------------------------------------ one step *)
  Lemma exec_sim : forall top fr above' store log fn i,
    Forall frame_ok (fr :: above') -> bottom_exact (fr :: above') ->
    rel_out (exec prog (mk (base ++ top) ((fr :: above') ++ below) store log None) fr (above' ++ below) fn i)
            (exec prog (mk (base ++ ins ++ top) (map shiftf (fr :: above') ++ fr2 :: below) store log None)
                  (shiftf fr) (map shiftf above' ++ fr2 :: below) fn i).
  Proof.
    intros top fr above' store log fn i Hok Hbot.
    inversion Hok as [| ? ? Hfr Hok']; subst.
    pose proof (frame_ok_base fr Hfr) as Hb1.
    assert (length base <= fr_off fr) as Hb by lia.
    unfold exec. cbn [st_stack st_store st_log mk shiftf fr_off fr_excess fr_fn fr_upv fr_pc].
    destruct (firstn_shift top (fr_off fr) Hb) as [F1 F2].
    destruct (skipn_shift top (fr_off fr) Hb) as [K1 K2].
    rewrite F1, F2, K1, K2.
    set (seg := skipn (fr_off fr - length base) top).
    set (lo := firstn (fr_off fr - length base) top).
    assert (length seg <= length top) as Hseg by (unfold seg; rewrite skipn_length; lia).
    destruct (exec_local fn (fr_upv fr) (fr_pc fr) store seg i) as [[seg' pc' store' | k | e] |] eqn:E.
    - cbn [rel_out]. left.
      eapply R_make with (top := lo ++ seg') (above := with_pc fr pc' :: above');
        try reflexivity; try (rewrite <- ?app_assoc; reflexivity).
      + constructor; [exact Hfr | exact Hok'].
      + apply bottom_exact_pc; exact Hbot.
      + intros n Hn; discriminate.
      + intro H; discriminate.
    - cbn [rel_out stuck st_log mk]. auto.
    - cbn [rel_out fail st_log mk]. auto.
    - destruct i; try (cbn [rel_out stuck st_log mk]; auto; fail).
      + (* Call *)
        destruct (Nat.ltb (length seg) (S (N.to_nat a0))) eqn:G; [cbn [rel_out stuck st_log mk]; auto |].
        apply Nat.ltb_ge in G.
        unfold set_pc. cbn [st_frames st_stack st_store st_log st_pending mk app map shiftf fr_off fr_excess fr_fn fr_upv fr_pc].
        apply (do_call_sim top (with_pc fr (S (fr_pc fr)) :: above') store log None None (N.to_nat a0)).
        * constructor; [exact Hfr | exact Hok'].
        * apply bottom_exact_pc; exact Hbot.
        * lia.
        * intro H; discriminate.
      + (* TailCall *)
        destruct (Nat.ltb (length seg) (S (N.to_nat a0))) eqn:G; [cbn [rel_out stuck st_log mk]; auto |].
        apply Nat.ltb_ge in G.
        pose proof (lastn_length _ seg (S (N.to_nat a0)) G) as Hl.
        unfold frame_ok, need in Hfr.
        destruct (fr_excess fr) eqn:Ex.
        * (* excess *)
          assert (length base <= fr_off fr - 2) as Hb2 by lia.
          replace (fr_off fr + length ins - 2) with (fr_off fr - 2 + length ins) by lia.
          rewrite (nth_shift top (fr_off fr - 2) Hb2).
          destruct (nth_error (base ++ top) (fr_off fr - 2)) as [ex |]; [| cbn [rel_out stuck st_log mk]; auto].
          destruct (resolve store ex); try (cbn [rel_out stuck st_log mk]; auto; fail).
          destruct (firstn_shift top (fr_off fr - 2) Hb2) as [G1 G2]. rewrite G1, G2.
          rewrite <- !app_assoc.
          apply (do_call_sim (firstn (fr_off fr - 2 - length base) top ++ lastn (S (N.to_nat a0)) seg ++ fields) above' store log None None).
          -- exact Hok'.
          -- eapply bottom_exact_tail; exact Hbot.
          -- rewrite !app_length, Hl. lia.
          -- intro Ha. subst above'. cbn [bottom_exact] in Hbot. unfold need in Hbot. rewrite Ex in Hbot.
             replace (fr_off fr - 2 - length base) with 0 by lia. cbn [firstn app]. rewrite app_length, Hl. lia.
        * assert (length base <= fr_off fr - 1) as Hb2 by lia.
          replace (fr_off fr + length ins - 1) with (fr_off fr - 1 + length ins) by lia.
          destruct (firstn_shift top (fr_off fr - 1) Hb2) as [G1 G2]. rewrite G1, G2.
          rewrite <- !app_assoc.
          apply (do_call_sim (firstn (fr_off fr - 1 - length base) top ++ lastn (S (N.to_nat a0)) seg) above' store log None None).
          -- exact Hok'.
          -- eapply bottom_exact_tail; exact Hbot.
          -- rewrite !app_length, Hl. lia.
          -- intro Ha. subst above'. cbn [bottom_exact] in Hbot. unfold need in Hbot. rewrite Ex in Hbot.
             replace (fr_off fr - 1 - length base) with 0 by lia. cbn [firstn app]. exact Hl.
      + (* Return *)
        destruct (lastn 1 seg) as [| result [| ? ?]]; try (cbn [rel_out stuck st_log mk]; auto; fail).
        unfold do_return. cbn [st_stack st_store st_log mk shiftf fr_off fr_excess].
        unfold frame_ok, need in Hfr.
        destruct (fr_excess fr) eqn:Ex.
        * assert (length base <= fr_off fr - 2) as Hb2 by lia.
          replace (fr_off fr + length ins - 2) with (fr_off fr - 2 + length ins) by lia.
          rewrite (nth_shift top (fr_off fr - 2) Hb2).
          destruct (nth_error (base ++ top) (fr_off fr - 2)) as [ex |]; [| cbn [rel_out stuck st_log mk]; auto].
          destruct (resolve store ex); try (cbn [rel_out stuck st_log mk]; auto; fail).
          destruct (firstn_shift top (fr_off fr - 2) Hb2) as [G1 G2]. rewrite G1, G2.
          cbn [rel_out]. left.
          eapply R_make with (top := firstn (fr_off fr - 2 - length base) top ++ [result] ++ fields) (above := above');
            try reflexivity; try (rewrite <- ?app_assoc; reflexivity).
          -- exact Hok'.
          -- eapply bottom_exact_tail; exact Hbot.
          -- intros n Hn. inversion Hn; subst. rewrite !app_length. cbn [length]. lia.
          -- intro Ha. subst above'. cbn [bottom_exact] in Hbot. unfold need in Hbot. rewrite Ex in Hbot.
             exists (length fields). split; [reflexivity |].
             replace (fr_off fr - 2 - length base) with 0 by lia. cbn [firstn app length]. reflexivity.
        * assert (length base <= fr_off fr - 1) as Hb2 by lia.
          replace (fr_off fr + length ins - 1) with (fr_off fr - 1 + length ins) by lia.
          destruct (firstn_shift top (fr_off fr - 1) Hb2) as [G1 G2]. rewrite G1, G2.
          destruct (above' ++ below) as [| c0 r0] eqn:E1.
          { apply app_eq_nil in E1. destruct E1 as [_ E1]. contradiction. }
          destruct (map shiftf above' ++ fr2 :: below) as [| c1 r1] eqn:E2.
          { apply app_eq_nil in E2. destruct E2 as [_ E2]. discriminate. }
          rewrite <- E1, <- E2. cbn [rel_out].
          destruct above' as [| fa above''].
          -- right. cbn [bottom_exact] in Hbot. unfold need in Hbot. rewrite Ex in Hbot.
             replace (fr_off fr - 1 - length base) with 0 by lia. cbn [firstn app map].
             eapply Synced_make; try reflexivity; rewrite ?app_nil_r, <- ?app_assoc; reflexivity.
          -- left. eapply R_make with (top := firstn (fr_off fr - 1 - length base) top ++ [result]) (above := fa :: above'');
               try reflexivity; try (rewrite <- ?app_assoc; reflexivity).
             ++ exact Hok'.
             ++ eapply bottom_exact_tail; exact Hbot.
             ++ intros n Hn; discriminate.
             ++ intro H; discriminate.
  Qed.

  Lemma step_sim : forall s1 s2, R s1 s2 -> rel_out (step prog s1) (step prog s2).
  Proof.
    intros s1 s2 H. inversion H as [top above store log pending Hok Hbot Hpend Hemp]; subst.
    unfold step. cbn [st_pending st_frames mk].
    destruct pending as [n |].
    - apply do_call_sim; try assumption.
      + apply Hpend; reflexivity.
      + intro Ha. destruct (Hemp Ha) as (n' & Hn & Hl). inversion Hn; subst. exact Hl.
    - destruct above as [| fr above'].
      + destruct (Hemp eq_refl) as (n' & Hn & _). discriminate.
      + cbn [app map]. cbn [shiftf fr_fn fr_pc].
        destruct (get_fn prog (fr_fn fr)) as [fn |]; [| cbn [rel_out stuck st_log mk]; auto].
        destruct (nth_error (fn_code fn) (fr_pc fr)) as [i |]; [| cbn [rel_out stuck st_log mk]; auto].
        apply (exec_sim top fr above' store log fn i Hok Hbot).
  Qed.

  Lemma synced_step : forall s1 s2, Synced s1 s2 -> step prog s2 = Next s1.
  Proof.
    intros s1 s2 H. inversion H as [r store log]; subst.
    unfold step. cbn [st_pending st_frames mk]. rewrite fr2_fn, fr2_ret.
    unfold exec. cbn [st_stack st_store mk exec_local]. rewrite fr2_off.
    unfold ins.
    replace (base ++ (fnval :: locals) ++ [r]) with ((base ++ [fnval]) ++ (locals ++ [r]))
      by (rewrite <- app_assoc; reflexivity).
    rewrite skipn_app_exact by (rewrite app_length; cbn [length]; lia).
    rewrite lastn_app_exact by reflexivity.
    unfold do_return. rewrite fr2_noex. cbn [st_stack st_store st_log mk].
    rewrite fr2_off. cbn [Nat.sub]. rewrite Nat.sub_0_r.
    rewrite <- app_assoc. rewrite firstn_app_exact by reflexivity.
    destruct below as [| c0 r0]; [contradiction | reflexivity].
  Qed.

  Theorem sim_run : forall n s1 s2 r l,
    R s1 s2 \/ Synced s1 s2 ->
    run prog n s1 = (r, l) -> r <> VOutOfFuel -> exists m, run prog m s2 = (r, l).
  Proof.
    induction n as [| n IH]; intros s1 s2 r l Hrel Hrun Hr.
    - cbn [run] in Hrun. inversion Hrun; subst. congruence.
    - destruct Hrel as [HR | HS].
      + pose proof (step_sim s1 s2 HR) as Hs. cbn [run] in Hrun.
        destruct (step prog s1) as [s1' | r1 l1] eqn:E1; destruct (step prog s2) as [s2' | r2 l2] eqn:E2;
          cbn [rel_out] in Hs; try contradiction.
        * destruct (IH s1' s2' r l Hs Hrun Hr) as [m Hm]. exists (S m). cbn [run]. rewrite E2. exact Hm.
        * destruct Hs as [-> ->]. exists 1. cbn [run]. rewrite E2. exact Hrun.
      + exists (S (S n)). change (run prog (S (S n)) s2) with (match step prog s2 with Next s' => run prog (S n) s' | Done r0 l0 => (r0, l0) end).
        rewrite (synced_step s1 s2 HS). exact Hrun.
  Qed.
End Sim.

(* ================================================================ the theorem *)
(* A frame that executes `TailCall n` reaches the same final outcome — value or error, store,
   effect log — as the same frame executing `Call n; Return`, for every callee: bytecode closure
   at exact arity, with too few arguments (partial application), with excess arguments,
   partial-application values and built-ins; whatever code the callee runs (including further
   calls, tail calls and failures).  The tail-called frame replaces the current one; the called
   frame sits above it and returns through it.  The current frame has no excess arguments. *)
Theorem tailcall_preserves_result :
  forall prog base fnval locals callee args f f2 caller rest store log fn1 fn2 n fuel r l,
  get_fn prog (fr_fn f) = Some fn1 -> nth_error (fn_code fn1) (fr_pc f) = Some (ITailCall n) ->
  fr_off f = S (length base) -> fr_excess f = false ->
  get_fn prog (fr_fn f2) = Some fn2 -> nth_error (fn_code fn2) (fr_pc f2) = Some (ICall n) ->
  nth_error (fn_code fn2) (S (fr_pc f2)) = Some IReturn ->
  fr_off f2 = S (length base) -> fr_excess f2 = false ->
  N.to_nat n = length args ->
  let stack := base ++ fnval :: locals ++ callee :: args in
  run prog fuel (mk stack (f :: caller :: rest) store log None) = (r, l) -> r <> VOutOfFuel ->
  exists fuel', run prog fuel' (mk stack (f2 :: caller :: rest) store log None) = (r, l).
Proof.
  intros prog base fnval locals callee args f f2 caller rest store log fn1 fn2 n fuel r l
         Hfn1 Hi1 Hoff Hex Hfn2 Hi2 Hret Hoff2 Hex2 Hn stack Hrun Hr.
  destruct fuel as [| fuel]; [cbn [run] in Hrun; inversion Hrun; subst; congruence |].
  set (fr2 := {| fr_off := fr_off f2; fr_excess := fr_excess f2; fr_fn := fr_fn f2; fr_upv := fr_upv f2; fr_pc := S (fr_pc f2) |}).
  assert (stack = (base ++ [fnval]) ++ (locals ++ callee :: args)) as Hst
    by (unfold stack; rewrite <- app_assoc; reflexivity).
  assert (length (locals ++ callee :: args) >= S (length args)) as Hseg by (rewrite app_length; cbn [length]; lia).
  (* one step of the TailCall frame *)
  assert (step prog (mk stack (f :: caller :: rest) store log None)
          = do_call prog (mk (base ++ callee :: args) (caller :: rest) store log None) (length args)) as E1.
  { unfold step. cbn [st_pending st_frames mk]. rewrite Hfn1, Hi1.
    unfold exec. cbn [st_stack st_store st_log mk exec_local]. rewrite Hoff, Hex, Hn.
    rewrite Hst. rewrite skipn_app_exact by (rewrite app_length; cbn [length]; lia).
    assert (Nat.ltb (length (locals ++ callee :: args)) (S (length args)) = false) as -> by (apply Nat.ltb_ge; lia).
    cbn [Nat.sub]. rewrite Nat.sub_0_r.
    rewrite <- app_assoc. rewrite firstn_app_exact by reflexivity.
    replace (locals ++ callee :: args) with (locals ++ (callee :: args)) by reflexivity.
    rewrite lastn_app_exact by reflexivity. reflexivity. }
  (* one step of the Call frame *)
  assert (step prog (mk stack (f2 :: caller :: rest) store log None)
          = do_call prog (mk (base ++ (fnval :: locals) ++ callee :: args) (fr2 :: caller :: rest) store log None) (length args)) as E2.
  { unfold step. cbn [st_pending st_frames mk]. rewrite Hfn2, Hi2.
    unfold exec. cbn [st_stack st_store st_log mk exec_local]. rewrite Hoff2, Hn.
    rewrite Hst. rewrite skipn_app_exact by (rewrite app_length; cbn [length]; lia).
    assert (Nat.ltb (length (locals ++ callee :: args)) (S (length args)) = false) as -> by (apply Nat.ltb_ge; lia).
    unfold set_pc. cbn [st_frames st_stack st_store st_log st_pending mk].
    rewrite <- app_assoc. reflexivity. }
  assert (caller :: rest <> []) as Hne by discriminate.
  assert (fr_off fr2 = S (length base)) as Hoff2' by exact Hoff2.
  pose proof (do_call_sim prog base fnval locals fr2 (caller :: rest) Hoff2'
                (callee :: args) [] store log None None (length args)
                (Forall_nil _) I (le_n _) (fun _ => eq_refl)) as Hsim.
  cbn [map] in Hsim. change ([] ++ caller :: rest) with (caller :: rest) in Hsim.
  change ([] ++ fr2 :: caller :: rest) with (fr2 :: caller :: rest) in Hsim.
  change (run prog (S fuel) (mk stack (f :: caller :: rest) store log None))
    with (match step prog (mk stack (f :: caller :: rest) store log None) with
          | Next s' => run prog fuel s' | Done r0 l0 => (r0, l0) end) in Hrun.
  rewrite E1 in Hrun.
  destruct (do_call prog (mk (base ++ callee :: args) (caller :: rest) store log None) (length args)) as [s1' | r1 l1] eqn:D1;
    destruct (do_call prog (mk (base ++ (fnval :: locals) ++ callee :: args) (fr2 :: caller :: rest) store log None) (length args)) as [s2' | r2 l2] eqn:D2;
    cbn [rel_out] in Hsim; try contradiction.
  - destruct (sim_run prog base fnval locals fr2 (caller :: rest) Hne Hoff2' Hex2 fn2 Hfn2 Hret fuel s1' s2' r l Hsim Hrun Hr) as [m Hm].
    exists (S m). cbn [run]. rewrite E2. exact Hm.
  - destruct Hsim as [-> ->]. exists 1. cbn [run]. rewrite E2. exact Hrun.
Qed.
