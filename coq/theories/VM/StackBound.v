(* C07 — bytecode stack-bound verifier and the one-frame execution model (definitions only;
   proofs in StackBoundProofs.v).  Everything here is executable and extracted (coq/extract/c07).

   Modelled code (read, not assumed):
     vm/src/thread.rs  ExecuteContext::execute_  (:2123-2559) — what every instruction pops/pushes,
                       TailCall's re-push of excess arguments (:2181-2212), Return (:2514, :2542)
     vm/src/stack.rs   StackFrame::len = stack.len() - frame.offset (:728), slide (:493), pop_many
                       (assert_pop :744: popping below the frame's offset panics)
     vm/src/compiler.rs FunctionEnv::emit (:287) / increase_stack (:310): max_stack_size is the
                       maximum of the running sum of [adjust]; the places where the compiler
                       corrects that sum by hand are exactly Split (+ fields, push_stack_var :891,
                       :1103), CloseClosure (stack_size -= vars :762) and CloseData (:726/:735).
   [adjust] itself is GENERATED from vm/src/types.rs (coq/gen/InstrGen.v). *)
From Coq Require Import ZArith NArith List Bool Arith.
From GVgen Require Import InstrGen.
Import ListNotations.

(* ---------- abstract values ---------- *)
(* What the verifier remembers about a stack slot.  [AData n]: an object with exactly n fields
   allocated by NewRecord/NewVariant (CloseData pops `data.fields.len()` values, thread.rs:2323);
   [AClo u]: a closure with u upvars (CloseClosure pops `closure.upvars.len() + 1`, thread.rs:2483). *)
Inductive atag : Type := ATop | AData (n : nat) | AClo (u : nat).
Definition astack := list atag.            (* head = top of the stack *)

Definition atag_eqb (a b : atag) : bool :=
  match a, b with
  | ATop, ATop => true
  | AData n, AData m => Nat.eqb n m
  | AClo n, AClo m => Nat.eqb n m
  | _, _ => false
  end.

(* a ⊑ b : b is at least as abstract as a *)
Definition atag_le (a b : atag) : bool :=
  match b with ATop => true | _ => atag_eqb a b end.

Fixpoint astack_le (s t : astack) : bool :=
  match s, t with
  | [], [] => true
  | a :: s', b :: t' => atag_le a b && astack_le s' t'
  | _, _ => false
  end.

Definition atag_join (a b : atag) : atag := if atag_eqb a b then a else ATop.

Fixpoint astack_join (s t : astack) : option astack :=
  match s, t with
  | [], [] => Some []
  | a :: s', b :: t' =>
      match astack_join s' t' with Some r => Some (atag_join a b :: r) | None => None end
  | _, _ => None
  end.

(* slot k counted from the bottom of the frame (the index space of Push/CloseData) *)
Definition slot {A} (s : list A) (k : nat) : option A :=
  if k <? length s then nth_error s (length s - S k) else None.

(* ---------- instruction effects (from thread.rs) ---------- *)
Inductive aeff : Type :=
| EPopPush (need pop : nat) (push : list atag)   (* needs `need` values, pops `pop`, pushes *)
| EPushSlot (k : nat)                            (* Push(k): copy frame slot k *)
| ECall (n : nat)                                (* Call(n): function + n arguments -> result *)
| ETail (n : nat)                                (* TailCall(n): leaves the frame *)
| ECloseData (idx : nat)
| ESplit
| EJump (t : nat)
| ECJump (t : nat)
| ESlide (n : nat)
| ECloseClosure (n : nat)
| ERet.

Definition nn (n : N) : nat := N.to_nat n.

Definition new_data_tag (args : N) : atag := if (args =? 0)%N then ATop else AData (nn args).

Definition classify (i : instr) : aeff :=
  match i with
  | IPushInt _ | IPushByte _ | IPushFloat _ | IPushString _ | IPushUpVar _ => EPopPush 0 0 [ATop]
  | IPush k => EPushSlot (nn k)
  | ICall n => ECall (nn n)
  | ITailCall n => ETail (nn n)
  | IConstructVariant _ args | IConstructPolyVariant _ args | IConstructRecord _ args
  | IConstructArray args => EPopPush (nn args) (nn args) [ATop]
  (* NewVariant/NewRecord with args = 0 push a plain tag (thread.rs:2274, :2292) *)
  | INewVariant _ args | INewRecord _ args => EPopPush 0 0 [new_data_tag args]
  | ICloseData idx => ECloseData (nn idx)
  | IGetOffset _ | IGetField _ => EPopPush 1 1 [ATop]
  | ISplit => ESplit
  (* TestTag reads top() and pushes the answer (thread.rs:2364) *)
  | ITestTag _ | ITestPolyTag _ => EPopPush 1 0 [ATop]
  | IJump t => EJump (nn t)
  | ICJump t => ECJump (nn t)
  | IPop n => EPopPush (nn n) (nn n) []
  | ISlide n => ESlide (nn n)
  | IMakeClosure _ upvars => EPopPush (nn upvars) (nn upvars) [AClo (nn upvars)]
  | INewClosure _ upvars => EPopPush 0 0 [AClo (nn upvars)]
  | ICloseClosure n => ECloseClosure (nn n)
  | IAddInt | ISubtractInt | IMultiplyInt | IDivideInt | IIntLT | IIntEQ
  | IAddByte | ISubtractByte | IMultiplyByte | IDivideByte | IByteLT | IByteEQ
  | IAddFloat | ISubtractFloat | IMultiplyFloat | IDivideFloat | IFloatLT | IFloatEQ =>
      EPopPush 2 2 [ATop]
  | IReturn => ERet
  end.

(* ---------- compiled functions ---------- *)
(* [fn_code]: every instruction paired with an annotation that only matters for Split: the number
   of fields the compiler assumed the scrutinee to have (it calls push_stack_var that many times).
   The annotation is supplied from outside (harness) and is part of what is verified: the
   theorems say "if every Split at run time yields as many fields as annotated". *)
Record compiled_fn : Type := {
  fn_args : nat;
  fn_max_stack : nat;
  fn_code : list (instr * nat);
}.

(* ---------- abstract interpretation of one instruction ---------- *)
(* Successors (target pc, abstract stack there), or None when the instruction is rejected. *)
Definition asucc (pc : nat) (e : aeff) (ann : nat) (s : astack) : option (list (nat * astack)) :=
  let h := length s in
  match e with
  | EPopPush need pop push =>
      if (need <=? h) && (pop <=? need) then Some [(S pc, push ++ skipn pop s)] else None
  | EPushSlot k =>
      match slot s k with Some t => Some [(S pc, t :: s)] | None => None end
  | ECall n | ETail n =>
      (* TailCall never falls through at run time; the compiler keeps accounting as for Call and
         emits (dead) Slide/Jump after it, so the abstract interpreter follows it like a Call. *)
      if S n <=? h then Some [(S pc, ATop :: skipn (S n) s)] else None
  | ECloseData idx =>
      match slot s idx with
      | Some (AData m) => if m <=? h then Some [(S pc, skipn m s)] else None
      | _ => None
      end
  | ESplit =>
      match s with
      | _ :: r => Some [(S pc, repeat ATop ann ++ r)]
      | [] => None
      end
  | EJump t => Some [(t, s)]
  | ECJump t =>
      match s with
      | _ :: r => Some [(t, r); (S pc, r)]
      | [] => None
      end
  | ESlide n =>
      match s with
      | a :: r => if n <=? length r then Some [(S pc, a :: skipn n r)] else None
      | [] => None
      end
  | ECloseClosure n =>
      if S n <=? h then
        match nth_error s n with
        | Some (AClo u) => if S u <=? h then Some [(S pc, skipn (S u) s)] else None
        | _ => None
        end
      else None
  | ERet => if 1 <=? h then Some [] else None
  end.

(* The compiler's own accounting, through the GENERATED [adjust]: for every instruction the
   height after it must be `height before + adjust i`, except for the three instructions whose
   accounting the compiler corrects by hand (compiler.rs:891/:1103, :762, :726/:735). *)
Definition adjust_agrees (i : instr) (ann : nat) (s : astack) (succs : list (nat * astack)) : bool :=
  let h := Z.of_nat (length s) in
  match classify i with
  | ESplit => (adjust i =? -1)%Z
  | ECloseData _ => (adjust i =? 0)%Z
  | ECloseClosure _ => (adjust i =? -1)%Z
  | ERet => (adjust i =? 0)%Z
  | EJump _ => (adjust i =? 0)%Z
  | _ =>
      match succs with
      | (_, s') :: _ => (Z.of_nat (length s') =? h + adjust i)%Z
      | [] => false
      end
  end.

Definition table := list (option astack).

Definition flows (tbl : table) (t : nat) (s : astack) : bool :=
  match nth_error tbl t with
  | Some (Some s') => astack_le s s'
  | _ => false
  end.

Definition check_instr (f : compiled_fn) (tbl : table) (pc : nat) (ia : instr * nat) (s : astack) : bool :=
  let '(i, ann) := ia in
  (length s <=? fn_max_stack f) &&
  match asucc pc (classify i) ann s with
  | None => false
  | Some succs =>
      adjust_agrees i ann s succs &&
      forallb (fun ts => (pc <? fst ts) && flows tbl (fst ts) (snd ts)) succs
  end.

Fixpoint check_from (f : compiled_fn) (tbl : table) (pc : nat) (code : list (instr * nat)) (rest : table) : bool :=
  match code, rest with
  | [], [] => true
  | ia :: code', o :: rest' =>
      match o with
      | None => true                      (* not reachable from pc 0: nothing flows here *)
      | Some s => check_instr f tbl pc ia s
      end && check_from f tbl (S pc) code' rest'
  | _, _ => false
  end.

Definition last_is_return (code : list (instr * nat)) : bool :=
  match rev code with
  | (IReturn, _) :: _ => true
  | _ => false
  end.

Definition check_table (f : compiled_fn) (tbl : table) : bool :=
  flows tbl 0 (repeat ATop (fn_args f)) &&
  last_is_return (fn_code f) &&
  check_from f tbl 0 (fn_code f) tbl.

(* ---------- inference of the table (untrusted: only [check_table] is proved sound) ---------- *)
Fixpoint set_nth {A} (l : list A) (n : nat) (x : A) : list A :=
  match l, n with
  | [], _ => []
  | _ :: l', O => x :: l'
  | a :: l', S n' => a :: set_nth l' n' x
  end.

Definition merge_into (tbl : table) (ts : nat * astack) : option table :=
  let '(t, s) := ts in
  match nth_error tbl t with
  | None => None
  | Some None => Some (set_nth tbl t (Some s))
  | Some (Some s') =>
      match astack_join s s' with
      | Some j => Some (set_nth tbl t (Some j))
      | None => None
      end
  end.

Fixpoint merge_all (tbl : table) (l : list (nat * astack)) : option table :=
  match l with
  | [] => Some tbl
  | ts :: l' => match merge_into tbl ts with Some tbl' => merge_all tbl' l' | None => None end
  end.

(* one forward pass; [code] is the suffix starting at [pc] *)
Fixpoint infer_from (tbl : table) (pc : nat) (code : list (instr * nat)) : option table :=
  match code with
  | [] => Some tbl
  | (i, ann) :: code' =>
      match nth_error tbl pc with
      | Some (Some s) =>
          match asucc pc (classify i) ann s with
          | Some succs =>
              match merge_all tbl succs with
              | Some tbl' => infer_from tbl' (S pc) code'
              | None => None
              end
          | None => None
          end
      | _ => infer_from tbl (S pc) code'
      end
  end.

Definition infer (f : compiled_fn) : option table :=
  match fn_code f with
  | [] => None
  | _ :: _ =>
      infer_from (Some (repeat ATop (fn_args f)) :: repeat None (length (fn_code f) - 1)) 0 (fn_code f)
  end.

Definition verify_fn (f : compiled_fn) : bool :=
  match infer f with
  | Some tbl => check_table f tbl
  | None => false
  end.

(* Diagnostics for the driver (not used by any theorem): first pc the check fails at. *)
Fixpoint first_bad (f : compiled_fn) (tbl : table) (pc : nat) (code : list (instr * nat)) (rest : table) : option nat :=
  match code, rest with
  | ia :: code', o :: rest' =>
      match o with
      | Some s => if check_instr f tbl pc ia s then first_bad f tbl (S pc) code' rest' else Some pc
      | None => first_bad f tbl (S pc) code' rest'
      end
  | _, _ => None
  end.

Fixpoint infer_fail_pc (tbl : table) (pc : nat) (code : list (instr * nat)) : option nat :=
  match code with
  | [] => None
  | (i, ann) :: code' =>
      match nth_error tbl pc with
      | Some (Some s) =>
          match asucc pc (classify i) ann s with
          | Some succs =>
              match merge_all tbl succs with
              | Some tbl' => infer_fail_pc tbl' (S pc) code'
              | None => Some pc
              end
          | None => Some pc
          end
      | _ => infer_fail_pc tbl (S pc) code'
      end
  end.

Definition heights (tbl : table) : list (option nat) := map (option_map (@length atag)) tbl.

(* ---------- the concrete one-frame machine ---------- *)
(* Values carry only what determines how many slots an instruction moves. *)
Inductive val : Type := VData (n : nat) | VClo (u : nat) | VOther.

Definition vmatch (t : atag) (v : val) : Prop :=
  match t with
  | ATop => True
  | AData n => v = VData n
  | AClo u => v = VClo u
  end.

Inductive fstate : Type :=
| Running (pc : nat) (stk : list val)      (* at an instruction boundary; head = top *)
| Exited (h : nat)                         (* left the frame (Return, TailCall, error) at height h *)
| Bad.                                     (* out-of-frame access: a Rust panic or unchecked jump *)

Section Step.
  Variable code : list (instr * nat).
  (* number of excess arguments the frame was entered with (0 when Frame.excess = false) *)
  Variable excess : nat.

  Inductive step : fstate -> fstate -> Prop :=
  | St_off_end pc stk :
      nth_error code pc = None -> step (Running pc stk) Bad
  (* any instruction can fail with an error value (OutOfMemory, arithmetic overflow, ...) *)
  | St_error pc stk ia :
      nth_error code pc = Some ia -> step (Running pc stk) (Exited (length stk))
  | St_poppush pc stk i ann need pop push vs :
      nth_error code pc = Some (i, ann) -> classify i = EPopPush need pop push ->
      need <= length stk -> Forall2 vmatch push vs ->
      step (Running pc stk) (Running (S pc) (vs ++ skipn pop stk))
  | St_poppush_bad pc stk i ann need pop push :
      nth_error code pc = Some (i, ann) -> classify i = EPopPush need pop push ->
      length stk < need -> step (Running pc stk) Bad
  | St_push pc stk i ann k v :
      nth_error code pc = Some (i, ann) -> classify i = EPushSlot k ->
      slot stk k = Some v -> step (Running pc stk) (Running (S pc) (v :: stk))
  | St_push_bad pc stk i ann k :
      nth_error code pc = Some (i, ann) -> classify i = EPushSlot k ->
      slot stk k = None -> step (Running pc stk) Bad
  | St_call pc stk i ann n v :
      nth_error code pc = Some (i, ann) -> classify i = ECall n ->
      S n <= length stk -> step (Running pc stk) (Running (S pc) (v :: skipn (S n) stk))
  | St_call_bad pc stk i ann n :
      nth_error code pc = Some (i, ann) -> classify i = ECall n ->
      length stk < S n -> step (Running pc stk) Bad
  (* TailCall in a frame with excess arguments pushes them before leaving (thread.rs:2189) *)
  | St_tail pc stk i ann n :
      nth_error code pc = Some (i, ann) -> classify i = ETail n ->
      S n <= length stk -> step (Running pc stk) (Exited (length stk + excess))
  | St_tail_bad pc stk i ann n :
      nth_error code pc = Some (i, ann) -> classify i = ETail n ->
      length stk < S n -> step (Running pc stk) Bad
  | St_closedata pc stk i ann idx m :
      nth_error code pc = Some (i, ann) -> classify i = ECloseData idx ->
      slot stk idx = Some (VData m) -> m <= length stk ->
      step (Running pc stk) (Running (S pc) (skipn m stk))
  | St_closedata_bad pc stk i ann idx :
      nth_error code pc = Some (i, ann) -> classify i = ECloseData idx ->
      (forall m, slot stk idx = Some (VData m) -> length stk < m) ->
      step (Running pc stk) Bad
  (* Split: the object must have as many fields as the compiler assumed; a different count is a
     type error of the program (C02), and has no transition here. *)
  | St_split_data pc stk i ann r fields :
      nth_error code pc = Some (i, ann) -> classify i = ESplit ->
      stk = VData ann :: r -> length fields = ann ->
      step (Running pc stk) (Running (S pc) (fields ++ r))
  | St_split_tag pc stk i r :
      nth_error code pc = Some (i, 0) -> classify i = ESplit ->
      stk = VOther :: r -> step (Running pc stk) (Running (S pc) r)
  | St_split_bad pc stk i ann :
      nth_error code pc = Some (i, ann) -> classify i = ESplit ->
      stk = [] -> step (Running pc stk) Bad
  | St_jump pc stk i ann t :
      nth_error code pc = Some (i, ann) -> classify i = EJump t ->
      t < length code -> step (Running pc stk) (Running t stk)
  | St_jump_bad pc stk i ann t :
      nth_error code pc = Some (i, ann) -> classify i = EJump t ->
      length code <= t -> step (Running pc stk) Bad
  | St_cjump_taken pc stk i ann t v r :
      nth_error code pc = Some (i, ann) -> classify i = ECJump t ->
      stk = v :: r -> t < length code -> step (Running pc stk) (Running t r)
  | St_cjump_not pc stk i ann t v r :
      nth_error code pc = Some (i, ann) -> classify i = ECJump t ->
      stk = v :: r -> step (Running pc stk) (Running (S pc) r)
  | St_cjump_bad pc stk i ann t :
      nth_error code pc = Some (i, ann) -> classify i = ECJump t ->
      stk = [] \/ length code <= t -> step (Running pc stk) Bad
  | St_slide pc stk i ann n v r :
      nth_error code pc = Some (i, ann) -> classify i = ESlide n ->
      stk = v :: r -> n <= length r -> step (Running pc stk) (Running (S pc) (v :: skipn n r))
  | St_slide_bad pc stk i ann n :
      nth_error code pc = Some (i, ann) -> classify i = ESlide n ->
      length stk < S n -> step (Running pc stk) Bad
  | St_closeclosure pc stk i ann n u :
      nth_error code pc = Some (i, ann) -> classify i = ECloseClosure n ->
      nth_error stk n = Some (VClo u) -> S u <= length stk ->
      step (Running pc stk) (Running (S pc) (skipn (S u) stk))
  | St_closeclosure_bad pc stk i ann n :
      nth_error code pc = Some (i, ann) -> classify i = ECloseClosure n ->
      (forall u, nth_error stk n = Some (VClo u) -> length stk < S u) ->
      step (Running pc stk) Bad
  | St_ret pc stk i ann :
      nth_error code pc = Some (i, ann) -> classify i = ERet ->
      1 <= length stk -> step (Running pc stk) (Exited (length stk))
  | St_ret_bad pc stk i ann :
      nth_error code pc = Some (i, ann) -> classify i = ERet ->
      stk = [] -> step (Running pc stk) Bad.

  (* n-step executions *)
  Inductive steps : nat -> fstate -> fstate -> Prop :=
  | steps_O s : steps 0 s s
  | steps_S n s1 s2 s3 : steps n s1 s2 -> step s2 s3 -> steps (S n) s1 s3.
End Step.

Definition fheight (s : fstate) : nat :=
  match s with Running _ stk => length stk | Exited h => h | Bad => 0 end.
