(* C12 — byte-level model of the serialised form of compiled functions (definitions only; proofs in
   CodecProofs.v).  Everything here is executable and extracted (coq/extract/c12).

   What is modelled (read, not assumed):
     vm/src/types.rs:57   `enum Instruction` carries plain serde derives (externally tagged: a variant is
                          written as its *index in declaration order* followed by its fields in order);
                          field wire types VmInt = i64, u8, VmIndex = VmTag = u32, EqFloat = f64.
                          The variant table (names, shapes, index, fields, builders) is GENERATED:
                          coq/gen/InstrCodecGen.v over the `Inductive instr` of coq/gen/InstrGen.v.
     vm/src/compiler.rs:124 `struct CompiledFunction { args, max_stack_size, id, typ, instructions,
                          inner_functions, strings, records, debug_info }` (derived, fields in order).  The
                          model keeps the *skeleton* (args, max_stack_size, instructions, inner_functions
                          (nested), strings) in that relative order; id/typ/records/debug_info (symbols and
                          types with sharing tables) are not modelled.
     bincode 2 (serde feature), the binary format the harness serialises to:
        features/serde/ser.rs  unit/newtype/struct variant = `variant_index: u32` then the fields;
                               seq/str = `len as u64` then the elements / bytes; struct = fields only;
        varint/encode_unsigned.rs  config::standard(): u16/u32/u64/usize are varints: v <= 250 -> [v];
                               <= u16::MAX -> 251 ++ 2 bytes LE; <= u32::MAX -> 252 ++ 4 bytes LE;
                               else 253 ++ 8 bytes LE;  i64 = zigzag then the u64 varint
                               (varint/encode_signed.rs:42);  u8 and f64 are always raw (1 / 8 bytes LE);
        config::legacy(): every integer has its fixed width, little endian, i64 in two's complement.
   Both integer encodings are modelled ([cfg]); the composite codecs and all proofs are shared. *)
From Coq Require Import ZArith NArith List Bool.
From GVgen Require Import InstrGen InstrCodecGen.
Import ListNotations.
Local Open Scope N_scope.

Definition bytes := list N.
Definition dec_t (A : Type) := bytes -> option (A * bytes).

(* bincode::config::legacy() | bincode::config::standard() *)
Inductive cfg : Type := Fixed | Varint.

(* ---------- little-endian fixed width ---------- *)
Fixpoint le_bytes (k : nat) (n : N) : bytes :=
  match k with
  | O => []
  | S k' => (n mod 256) :: le_bytes k' (n / 256)
  end.

Fixpoint get_le (k : nat) (bs : bytes) : option (N * bytes) :=
  match k with
  | O => Some (0, bs)
  | S k' =>
      match bs with
      | [] => None
      | b :: bs' =>
          match get_le k' bs' with
          | Some (n, r) => Some (b + 256 * n, r)
          | None => None
          end
      end
  end.

(* ---------- bincode varint ---------- *)
Definition put_varint (n : N) : bytes :=
  if n <? 251 then [n]
  else if n <? 65536 then 251 :: le_bytes 2 n
  else if n <? 4294967296 then 252 :: le_bytes 4 n
  else 253 :: le_bytes 8 n.

(* [wide = false]: decoding a u32 (a 253 marker is an error, varint/decode_unsigned.rs);
   [wide = true]: decoding a u64/usize. *)
Definition get_varint (wide : bool) (bs : bytes) : option (N * bytes) :=
  match bs with
  | [] => None
  | b :: r =>
      if b <? 251 then Some (b, r)
      else if b =? 251 then get_le 2 r
      else if b =? 252 then get_le 4 r
      else if (b =? 253) && wide then get_le 8 r
      else None
  end.

(* ---------- primitive codecs ---------- *)
Definition put_u8 (n : N) : bytes := [n].
Definition get_u8 : dec_t N := fun bs => match bs with [] => None | b :: r => Some (b, r) end.

Definition put_u32 (c : cfg) (n : N) : bytes := match c with Fixed => le_bytes 4 n | Varint => put_varint n end.
Definition get_u32 (c : cfg) : dec_t N := match c with Fixed => get_le 4 | Varint => get_varint false end.

Definition put_u64 (c : cfg) (n : N) : bytes := match c with Fixed => le_bytes 8 n | Varint => put_varint n end.
Definition get_u64 (c : cfg) : dec_t N := match c with Fixed => get_le 8 | Varint => get_varint true end.

Definition two32 : N := 4294967296.
Definition two63z : Z := 9223372036854775808%Z.
Definition two64z : Z := 18446744073709551616%Z.
Definition two64 : N := 18446744073709551616.

(* two's complement of an i64 *)
Definition wrap64 (z : Z) : N := Z.to_N (z mod two64z).
Definition unwrap64 (n : N) : Z := let z := Z.of_N n in if (z <? two63z)%Z then z else (z - two64z)%Z.
(* bincode's zigzag: n >= 0 -> 2n, n < 0 -> -2n - 1 *)
Definition zigzag (z : Z) : N := Z.to_N (if (z <? 0)%Z then (-2 * z - 1)%Z else (2 * z)%Z).
Definition unzigzag (n : N) : Z := let z := Z.of_N n in if Z.even z then (z / 2)%Z else (- ((z + 1) / 2))%Z.

Definition put_i64 (c : cfg) (z : Z) : bytes :=
  match c with Fixed => le_bytes 8 (wrap64 z) | Varint => put_varint (zigzag z) end.
Definition get_i64 (c : cfg) : dec_t Z := fun bs =>
  match c with
  | Fixed => match get_le 8 bs with Some (n, r) => Some (unwrap64 n, r) | None => None end
  | Varint => match get_varint true bs with Some (n, r) => Some (unzigzag n, r) | None => None end
  end.

(* f64: the IEEE bit pattern, 8 bytes little endian in both configurations *)
Definition put_f64 (bits : N) : bytes := le_bytes 8 bits.
Definition get_f64 : dec_t N := get_le 8.

(* ---------- instruction fields, by wire type ---------- *)
Definition ty_of (v : fval) : fty :=
  match v with VI64 _ => FI64 | VU8 _ => FU8 | VU32 _ => FU32 | VF64 _ => FF64 end.

Definition put_fval (c : cfg) (v : fval) : bytes :=
  match v with
  | VI64 z => put_i64 c z
  | VU8 n => put_u8 n
  | VU32 n => put_u32 c n
  | VF64 b => put_f64 b
  end.

Definition get_fval (c : cfg) (t : fty) : dec_t fval := fun bs =>
  match t with
  | FI64 => match get_i64 c bs with Some (z, r) => Some (VI64 z, r) | None => None end
  | FU8 => match get_u8 bs with Some (n, r) => Some (VU8 n, r) | None => None end
  | FU32 => match get_u32 c bs with Some (n, r) => Some (VU32 n, r) | None => None end
  | FF64 => match get_f64 bs with Some (n, r) => Some (VF64 n, r) | None => None end
  end.

Fixpoint get_fvals (c : cfg) (ts : list fty) (bs : bytes) : option (list fval * bytes) :=
  match ts with
  | [] => Some ([], bs)
  | t :: ts' =>
      match get_fval c t bs with
      | None => None
      | Some (v, r) =>
          match get_fvals c ts' r with
          | None => None
          | Some (vs, r') => Some (v :: vs, r')
          end
      end
  end.

(* ---------- instructions, generically from the generated table ---------- *)
Definition shape_tys (sh : vshape) : list fty :=
  match sh with SUnit => [] | SNewtype t => [t] | SStruct fs => map snd fs end.

(* field types of the variant with serde index k *)
Definition shape_of_index (k : nat) : option (list fty) :=
  match nth_error instr_table k with Some (_, sh) => Some (shape_tys sh) | None => None end.

Definition instr_build (k : nat) (vs : list fval) : option instr :=
  match nth_error instr_builders k with Some b => b vs | None => None end.

Definition enc_instr (c : cfg) (i : instr) : bytes :=
  put_u32 c (N.of_nat (instr_index i)) ++ flat_map (put_fval c) (instr_fields i).

Definition dec_instr (c : cfg) : dec_t instr := fun bs =>
  match get_u32 c bs with
  | None => None
  | Some (idx, r) =>
      match shape_of_index (N.to_nat idx) with
      | None => None                                   (* unknown variant index *)
      | Some ts =>
          match get_fvals c ts r with
          | None => None
          | Some (vs, r') =>
              match instr_build (N.to_nat idx) vs with
              | None => None
              | Some i => Some (i, r')
              end
          end
      end
  end.

(* ---------- length-prefixed sequences (Vec<T>, str) ---------- *)
Definition enc_list {A : Type} (c : cfg) (e : A -> bytes) (l : list A) : bytes :=
  put_u64 c (N.of_nat (length l)) ++ flat_map e l.

Fixpoint dec_n {A : Type} (d : dec_t A) (n : nat) (bs : bytes) : option (list A * bytes) :=
  match n with
  | O => Some ([], bs)
  | S n' =>
      match d bs with
      | None => None
      | Some (x, r) =>
          match dec_n d n' r with
          | None => None
          | Some (xs, r') => Some (x :: xs, r')
          end
      end
  end.

Definition dec_list {A : Type} (c : cfg) (d : dec_t A) : dec_t (list A) := fun bs =>
  match get_u64 c bs with
  | None => None
  | Some (n, r) => dec_n d (N.to_nat n) r
  end.

(* a string constant: length then its UTF-8 bytes *)
Definition enc_str (c : cfg) (s : list N) : bytes := enc_list c put_u8 s.
Definition dec_str (c : cfg) : dec_t (list N) := dec_list c get_u8.

(* ---------- the CompiledFunction skeleton ---------- *)
Inductive fn : Type :=
  Fn (args max_stack_size : N) (instructions : list instr) (inner_functions : list fn) (strings : list (list N)).

Fixpoint enc_fn (c : cfg) (f : fn) : bytes :=
  match f with
  | Fn a m ins inner strs =>
      put_u32 c a ++ put_u32 c m ++ enc_list c (enc_instr c) ins ++ enc_list c (enc_fn c) inner
      ++ enc_list c (enc_str c) strs
  end.

(* fuel bounds the nesting depth of inner functions; running out of fuel is a decoding error *)
Fixpoint dec_fn (c : cfg) (fuel : nat) (bs : bytes) : option (fn * bytes) :=
  match fuel with
  | O => None
  | S k =>
      match get_u32 c bs with None => None | Some (a, r1) =>
      match get_u32 c r1 with None => None | Some (m, r2) =>
      match dec_list c (dec_instr c) r2 with None => None | Some (ins, r3) =>
      match dec_list c (dec_fn c k) r3 with None => None | Some (inner, r4) =>
      match dec_list c (dec_str c) r4 with None => None | Some (strs, r5) =>
      Some (Fn a m ins inner strs, r5)
      end end end end end
  end.

Fixpoint depth (f : fn) : nat :=
  match f with
  | Fn _ _ _ inner _ => S (fold_right (fun g d => Nat.max (depth g) d) O inner)
  end.

(* Every nesting level costs at least one byte, so the input length is enough fuel. *)
Definition decode_fn (c : cfg) (bs : bytes) : option (fn * bytes) := dec_fn c (S (length bs)) bs.

(* ---------- well-formedness: the ranges the Rust types guarantee ---------- *)
Definition wf_fvalb (v : fval) : bool :=
  match v with
  | VI64 z => ((- two63z <=? z) && (z <? two63z))%Z
  | VU8 n => n <? 256
  | VU32 n => n <? two32
  | VF64 b => b <? two64
  end.
Definition wf_instrb (i : instr) : bool := forallb wf_fvalb (instr_fields i).
Definition len_ok {A : Type} (l : list A) : bool := N.of_nat (length l) <? two64.

Fixpoint wf_fnb (f : fn) : bool :=
  match f with
  | Fn a m ins inner strs =>
      (a <? two32) && (m <? two32)
      && forallb wf_instrb ins && len_ok ins
      && forallb wf_fnb inner && len_ok inner
      && forallb (fun s => len_ok s) strs && len_ok strs
  end.

(* ---------- references an instruction makes into its own function ---------- *)
(* `new_bytecode_function` (vm/src/vm.rs:85) stores the decoded function as it is; nothing checks that the
   indices its instructions carry exist.  The interpreter then indexes with them:
     PushString k           function.strings[k]                     (thread.rs: index out of bounds)
     MakeClosure/NewClosure function.inner_functions[function_index]
     Jump/CJump t           `assert!(index < self.instructions.len())`
   [refs_ok] is the check a loader needs for these three tables; [checked_decode] is the decoder with it. *)
Definition instr_refs_ok (nstr nfn nins : N) (i : instr) : bool :=
  match i with
  | IPushString k => k <? nstr
  | IMakeClosure fi _ => fi <? nfn
  | INewClosure fi _ => fi <? nfn
  | IJump t => t <? nins
  | ICJump t => t <? nins
  | _ => true
  end.

Definition nlen {A : Type} (l : list A) : N := N.of_nat (length l).

Fixpoint refs_ok (f : fn) : bool :=
  match f with
  | Fn _ _ ins inner strs =>
      forallb (instr_refs_ok (nlen strs) (nlen inner) (nlen ins)) ins && forallb refs_ok inner
  end.

Definition checked_decode (c : cfg) (bs : bytes) : option (fn * bytes) :=
  match decode_fn c bs with
  | Some (f, r) => if refs_ok f then Some (f, r) else None
  | None => None
  end.

(* ---------- what the driver runs on a real skeleton ---------- *)
(* every strict prefix at the given cut points must fail to decode (the round trip itself is
   compared structurally by the driver) *)
Fixpoint prefixes_fail (c : cfg) (bs : bytes) (cuts : list nat) : bool :=
  match cuts with
  | [] => true
  | k :: cuts' =>
      (if Nat.ltb k (length bs)
       then match decode_fn c (firstn k bs) with None => true | Some _ => false end
       else true)
      && prefixes_fail c bs cuts'
  end.
