(* C07 — soundness of the bytecode stack-bound verifier (VM/StackBound.v). *)
From Coq Require Import ZArith NArith List Bool Arith Lia.
From GVgen Require Import InstrGen.
From GV Require Import VM.StackBound.
Import ListNotations.

(* ---------- abstract order ---------- *)
Lemma atag_eqb_eq : forall a b, atag_eqb a b = true -> a = b.
Proof.
  intros [|n|n] [|m|m] H; cbn in H; try discriminate; auto;
    apply Nat.eqb_eq in H; subst; reflexivity.
Qed.

Lemma atag_le_vmatch : forall a b v, atag_le a b = true -> vmatch a v -> vmatch b v.
Proof.
  intros a b v Hle Hm. destruct b as [|m|m]; cbn in *; auto;
    apply atag_eqb_eq in Hle; subst a; exact Hm.
Qed.

Lemma astack_le_sim : forall s t stk,
  astack_le s t = true -> Forall2 vmatch s stk -> Forall2 vmatch t stk.
Proof.
  induction s as [|a s IH]; intros t stk Hle Hs.
  - destruct t; cbn in Hle; try discriminate. inversion Hs; subst. constructor.
  - destruct t as [|b t]; cbn in Hle; try discriminate.
    apply andb_true_iff in Hle as [Hab Hst].
    inversion Hs as [|? v ? stk' Hv Hrest]; subst.
    constructor; [eapply atag_le_vmatch; eauto | eapply IH; eauto].
Qed.

Lemma flows_spec : forall tbl t s,
  flows tbl t s = true -> exists s', nth_error tbl t = Some (Some s') /\ astack_le s s' = true.
Proof.
  unfold flows. intros tbl t s H.
  destruct (nth_error tbl t) as [[s'|]|]; try discriminate. eauto.
Qed.

(* ---------- list helpers ---------- *)
Lemma Forall2_len : forall {A B} (R : A -> B -> Prop) l1 l2, Forall2 R l1 l2 -> length l1 = length l2.
Proof. induction 1; cbn; auto. Qed.

Lemma Forall2_skipn : forall {A B} (R : A -> B -> Prop) n l1 l2,
  Forall2 R l1 l2 -> Forall2 R (skipn n l1) (skipn n l2).
Proof.
  induction n as [|n IH]; intros l1 l2 H; cbn; auto.
  destruct H; cbn; auto.
Qed.

Lemma Forall2_nth : forall {A B} (R : A -> B -> Prop) l1 l2 n a,
  Forall2 R l1 l2 -> nth_error l1 n = Some a -> exists b, nth_error l2 n = Some b /\ R a b.
Proof.
  intros A B R l1 l2 n a H. revert n. induction H as [|x y l1 l2 Hxy H IH]; intros n Hn.
  - destruct n; discriminate.
  - destruct n as [|n]; cbn in *.
    + inversion Hn; subst. eauto.
    + eauto.
Qed.

Lemma Forall2_nth_none : forall {A B} (R : A -> B -> Prop) l1 l2 n,
  Forall2 R l1 l2 -> nth_error l1 n = None -> nth_error l2 n = None.
Proof.
  intros A B R l1 l2 n H Hn. apply nth_error_None in Hn. apply nth_error_None.
  rewrite <- (Forall2_len _ _ _ H). exact Hn.
Qed.

Lemma slot_sim : forall s stk k t,
  Forall2 vmatch s stk -> slot s k = Some t -> exists v, slot stk k = Some v /\ vmatch t v.
Proof.
  unfold slot. intros s stk k t H Hs.
  rewrite <- (Forall2_len _ _ _ H).
  destruct (k <? length s); try discriminate.
  eapply Forall2_nth; eauto.
Qed.

Lemma slot_sim_none : forall s stk k,
  Forall2 vmatch s stk -> slot stk k = None -> slot s k = None.
Proof.
  unfold slot. intros s stk k H Hs.
  rewrite <- (Forall2_len _ _ _ H) in Hs.
  destruct (k <? length s) eqn:E; auto.
  apply Nat.ltb_lt in E.
  assert (Hlt : length s - S k < length stk) by (rewrite <- (Forall2_len _ _ _ H); lia).
  apply nth_error_Some in Hlt. congruence.
Qed.

Lemma repeat_top_sim : forall n vs, length vs = n -> Forall2 vmatch (repeat ATop n) vs.
Proof.
  induction n as [|n IH]; intros [|v vs] H; cbn in *; try discriminate; constructor; cbn; auto.
Qed.

(* ---------- what check_table gives ---------- *)
Lemma check_from_spec : forall f tbl code rest p,
  check_from f tbl p code rest = true ->
  length code = length rest /\
  forall k ia s, nth_error code k = Some ia -> nth_error rest k = Some (Some s) ->
                 check_instr f tbl (p + k) ia s = true.
Proof.
  induction code as [|ia code IH]; intros rest p H.
  - destruct rest; cbn in H; try discriminate. split; auto.
    intros k ia s Hk. destruct k; discriminate.
  - destruct rest as [|o rest]; cbn in H; try discriminate.
    apply andb_true_iff in H as [Ho Hrest].
    destruct (IH _ _ Hrest) as [Hlen Hall].
    split; [cbn; congruence|].
    intros k ia' s Hk Hs. destruct k as [|k]; cbn in *.
    + inversion Hk; subst ia'. inversion Hs; subst o. rewrite Nat.add_0_r. exact Ho.
    + replace (p + S k) with (S p + k) by lia. eauto.
Qed.

Opaque skipn.
Section Sound.
  Variable f : compiled_fn.
  Variable tbl : table.
  Variable excess : nat.
  Hypothesis Hcheck : check_table f tbl = true.

  Let code := fn_code f.

  Lemma tbl_len : length code = length tbl.
  Proof.
    unfold check_table in Hcheck. apply andb_true_iff in Hcheck as [_ H].
    apply check_from_spec in H. tauto.
  Qed.

  Lemma tbl_check : forall pc ia s,
    nth_error code pc = Some ia -> nth_error tbl pc = Some (Some s) -> check_instr f tbl pc ia s = true.
  Proof.
    unfold check_table in Hcheck. apply andb_true_iff in Hcheck as [_ H].
    apply check_from_spec in H. destruct H as [_ H]. intros. apply (H pc); auto.
  Qed.

  Definition ok_state (st : fstate) : Prop :=
    match st with
    | Running pc stk => exists s, nth_error tbl pc = Some (Some s) /\ Forall2 vmatch s stk
    | Exited h => h <= fn_max_stack f + excess
    | Bad => False
    end.

  (* unpack check_instr *)
  Lemma check_instr_spec : forall pc i ann s,
    check_instr f tbl pc (i, ann) s = true ->
    length s <= fn_max_stack f /\
    exists succs, asucc pc (classify i) ann s = Some succs /\
      forall t s', In (t, s') succs -> pc < t /\ flows tbl t s' = true.
  Proof.
    unfold check_instr. intros pc i ann s H.
    apply andb_true_iff in H as [Hh H]. apply Nat.leb_le in Hh. split; auto.
    destruct (asucc pc (classify i) ann s) as [succs|]; try discriminate.
    apply andb_true_iff in H as [_ H]. exists succs. split; auto.
    intros t s' Hin. rewrite forallb_forall in H. specialize (H _ Hin). cbn in H.
    apply andb_true_iff in H as [H1 H2]. apply Nat.ltb_lt in H1. auto.
  Qed.

  Lemma flow_ok : forall t s' stk,
    flows tbl t s' = true -> Forall2 vmatch s' stk -> ok_state (Running t stk).
  Proof.
    intros t s' stk Hf Hs. apply flows_spec in Hf as (s'' & Hn & Hle).
    exists s''. split; auto. eapply astack_le_sim; eauto.
  Qed.

  Lemma in_range : forall pc s, nth_error tbl pc = Some (Some s) -> pc < length code.
  Proof.
    intros pc s H. rewrite tbl_len. apply nth_error_Some. congruence.
  Qed.

  Theorem step_preserves : forall st st',
    ok_state st -> step code excess st st' ->
    ok_state st' /\
    (forall pc stk pc' stk', st = Running pc stk -> st' = Running pc' stk' -> pc < pc').
  Proof.
    intros st st' Hok Hstep.
    destruct Hstep;
      destruct Hok as (s & Htbl & Hsim);
      pose proof (Forall2_len _ _ _ Hsim) as Hlen;
      try (match goal with
           | Hc : nth_error code ?pc = Some (?i, ?ann) |- _ =>
               pose proof (tbl_check _ _ _ Hc Htbl) as Hci;
               apply check_instr_spec in Hci as (Hmax & succs & Hsucc & Hflow)
           end).
    - (* off the end *)
      exfalso. apply in_range in Htbl. apply nth_error_None in H. fold code in Htbl. lia.
    - (* error exit *)
      split; [|intros; discriminate]. cbn.
      destruct ia as [i ann]. pose proof (tbl_check _ _ _ H Htbl) as Hci.
      apply check_instr_spec in Hci as (Hmax & _). lia.
    - (* pop/push *)
      rewrite H0 in Hsucc. cbn [asucc] in Hsucc.
      destruct ((need <=? length s) && (pop <=? need)) eqn:E; try discriminate.
      injection Hsucc as Hsucc; subst succs.
      destruct (Hflow (S pc) _ (or_introl eq_refl)) as [Hlt Hf].
      split.
      + eapply flow_ok; eauto. apply Forall2_app; auto. apply Forall2_skipn; auto.
      + intros ? ? ? ? E1 E2. inversion E1; inversion E2; subst. lia.
    - (* pop/push bad *)
      exfalso. rewrite H0 in Hsucc. cbn [asucc] in Hsucc.
      destruct ((need <=? length s) && (pop <=? need)) eqn:E; try discriminate.
      apply andb_true_iff in E as [E _]. apply Nat.leb_le in E. lia.
    - (* push slot *)
      rewrite H0 in Hsucc. cbn [asucc] in Hsucc.
      destruct (slot s k) as [t|] eqn:Es; try discriminate.
      injection Hsucc as Hsucc; subst succs.
      destruct (Hflow (S pc) _ (or_introl eq_refl)) as [Hlt Hf].
      destruct (slot_sim _ _ _ _ Hsim Es) as (v' & Hv' & Hm). rewrite H1 in Hv'. inversion Hv'; subst v'.
      split.
      + eapply flow_ok; eauto.
      + intros ? ? ? ? E1 E2. inversion E1; inversion E2; subst. lia.
    - (* push slot bad *)
      exfalso. rewrite H0 in Hsucc. cbn [asucc] in Hsucc.
      rewrite (slot_sim_none _ _ _ Hsim H1) in Hsucc. discriminate.
    - (* call *)
      rewrite H0 in Hsucc. cbn [asucc] in Hsucc.
      destruct (S n <=? length s) eqn:E; try discriminate.
      injection Hsucc as Hsucc; subst succs.
      destruct (Hflow (S pc) _ (or_introl eq_refl)) as [Hlt Hf].
      split.
      + eapply flow_ok; eauto. constructor; [exact I|]. apply Forall2_skipn; auto.
      + intros ? ? ? ? E1 E2. inversion E1; inversion E2; subst. lia.
    - (* call bad *)
      exfalso. rewrite H0 in Hsucc. cbn [asucc] in Hsucc.
      destruct (S n <=? length s) eqn:E; try discriminate. apply Nat.leb_le in E. lia.
    - (* tail call *)
      split; [|intros; discriminate]. cbn. lia.
    - (* tail call bad *)
      exfalso. rewrite H0 in Hsucc. cbn [asucc] in Hsucc.
      destruct (S n <=? length s) eqn:E; try discriminate. apply Nat.leb_le in E. lia.
    - (* close data *)
      rewrite H0 in Hsucc. cbn [asucc] in Hsucc.
      destruct (slot s idx) as [t|] eqn:Es; try discriminate.
      destruct (slot_sim _ _ _ _ Hsim Es) as (v' & Hv' & Hm). rewrite H1 in Hv'. inversion Hv'; subst v'.
      destruct t as [|m'|u]; try discriminate; cbn in Hm; try discriminate.
      inversion Hm; subst m'.
      destruct (m <=? length s) eqn:E; try discriminate.
      injection Hsucc as Hsucc; subst succs.
      destruct (Hflow (S pc) _ (or_introl eq_refl)) as [Hlt Hf].
      split.
      + eapply flow_ok; eauto. apply Forall2_skipn; auto.
      + intros ? ? ? ? E1 E2. inversion E1; inversion E2; subst. lia.
    - (* close data bad *)
      exfalso. rewrite H0 in Hsucc. cbn [asucc] in Hsucc.
      destruct (slot s idx) as [t|] eqn:Es; try discriminate.
      destruct (slot_sim _ _ _ _ Hsim Es) as (v' & Hv' & Hm).
      destruct t as [|m'|u]; try discriminate. cbn in Hm. subst v'.
      destruct (m' <=? length s) eqn:E; try discriminate. apply Nat.leb_le in E.
      specialize (H1 _ Hv'). lia.
    - (* split data *)
      rewrite H0 in Hsucc. cbn [asucc] in Hsucc. subst stk.
      destruct s as [|a s0]; try discriminate; cbn beta iota in Hsucc. inversion Hsim as [|? ? ? ? Ha Hs0]; subst.
      injection Hsucc as Hsucc; subst succs.
      destruct (Hflow (S pc) _ (or_introl eq_refl)) as [Hlt Hf].
      split.
      + eapply flow_ok; eauto. apply Forall2_app; auto. apply repeat_top_sim; auto.
      + intros ? ? ? ? E1 E2. inversion E1; inversion E2; subst. lia.
    - (* split tag *)
      rewrite H0 in Hsucc. cbn [asucc] in Hsucc. subst stk.
      destruct s as [|a s0]; try discriminate; cbn beta iota in Hsucc. inversion Hsim as [|? ? ? ? Ha Hs0]; subst.
      injection Hsucc as Hsucc; subst succs.
      destruct (Hflow (S pc) _ (or_introl eq_refl)) as [Hlt Hf].
      split.
      + eapply flow_ok; eauto.
      + intros ? ? ? ? E1 E2. inversion E1; inversion E2; subst. lia.
    - (* split bad *)
      exfalso. rewrite H0 in Hsucc. cbn [asucc] in Hsucc. subst stk. inversion Hsim; subst. discriminate.
    - (* jump *)
      rewrite H0 in Hsucc. cbn [asucc] in Hsucc. injection Hsucc as Hsucc; subst succs.
      destruct (Hflow t s (or_introl eq_refl)) as [Hlt Hf].
      split.
      + eapply flow_ok; eauto.
      + intros ? ? ? ? E1 E2. inversion E1; inversion E2; subst. lia.
    - (* jump bad *)
      exfalso. rewrite H0 in Hsucc. cbn [asucc] in Hsucc. injection Hsucc as Hsucc; subst succs.
      destruct (Hflow t s (or_introl eq_refl)) as [Hlt Hf].
      apply flows_spec in Hf as (s'' & Hn & _). apply in_range in Hn. fold code in Hn. lia.
    - (* cjump taken *)
      rewrite H0 in Hsucc. cbn [asucc] in Hsucc. subst stk.
      destruct s as [|a s0]; try discriminate; cbn beta iota in Hsucc. inversion Hsim as [|? ? ? ? Ha Hs0]; subst.
      injection Hsucc as Hsucc; subst succs.
      destruct (Hflow t s0 (or_introl eq_refl)) as [Hlt Hf].
      split.
      + eapply flow_ok; eauto.
      + intros ? ? ? ? E1 E2. inversion E1; inversion E2; subst. lia.
    - (* cjump not taken *)
      rewrite H0 in Hsucc. cbn [asucc] in Hsucc. subst stk.
      destruct s as [|a s0]; try discriminate; cbn beta iota in Hsucc. inversion Hsim as [|? ? ? ? Ha Hs0]; subst.
      injection Hsucc as Hsucc; subst succs.
      destruct (Hflow (S pc) s0 (or_intror (or_introl eq_refl))) as [Hlt Hf].
      split.
      + eapply flow_ok; eauto.
      + intros ? ? ? ? E1 E2. inversion E1; inversion E2; subst. lia.
    - (* cjump bad *)
      exfalso. rewrite H0 in Hsucc. cbn [asucc] in Hsucc.
      destruct s as [|a s0].
      + discriminate.
      + injection Hsucc as Hsucc; subst succs.
        destruct H1 as [H1|H1].
        * subst stk. inversion Hsim.
        * destruct (Hflow t s0 (or_introl eq_refl)) as [Hlt Hf].
          apply flows_spec in Hf as (s'' & Hn & _). apply in_range in Hn. fold code in Hn. lia.
    - (* slide *)
      rewrite H0 in Hsucc. cbn [asucc] in Hsucc. subst stk.
      destruct s as [|a s0]; try discriminate; cbn beta iota in Hsucc. inversion Hsim as [|? ? ? ? Ha Hs0]; subst.
      destruct (n <=? length s0) eqn:E; try discriminate.
      injection Hsucc as Hsucc; subst succs.
      destruct (Hflow (S pc) _ (or_introl eq_refl)) as [Hlt Hf].
      split.
      + eapply flow_ok; eauto. constructor; auto. apply Forall2_skipn; auto.
      + intros ? ? ? ? E1 E2. inversion E1; inversion E2; subst. lia.
    - (* slide bad *)
      exfalso. rewrite H0 in Hsucc. cbn [asucc] in Hsucc.
      destruct s as [|a s0]; try discriminate; cbn beta iota in Hsucc.
      destruct (n <=? length s0) eqn:E; try discriminate. apply Nat.leb_le in E. cbn in Hlen. lia.
    - (* close closure *)
      rewrite H0 in Hsucc. cbn [asucc] in Hsucc.
      destruct (S n <=? length s) eqn:E; try discriminate.
      destruct (nth_error s n) as [t|] eqn:En; try discriminate.
      destruct (Forall2_nth _ _ _ _ _ Hsim En) as (v' & Hv' & Hm). rewrite H1 in Hv'. inversion Hv'; subst v'.
      destruct t as [|m'|u']; try discriminate; cbn in Hm; try discriminate.
      inversion Hm; subst u'.
      destruct (S u <=? length s) eqn:E2; try discriminate.
      injection Hsucc as Hsucc; subst succs.
      destruct (Hflow (S pc) _ (or_introl eq_refl)) as [Hlt Hf].
      split.
      + eapply flow_ok; eauto. apply Forall2_skipn; auto.
      + intros ? ? ? ? E1 E3. inversion E1; inversion E3; subst. lia.
    - (* close closure bad *)
      exfalso. rewrite H0 in Hsucc. cbn [asucc] in Hsucc.
      destruct (S n <=? length s) eqn:E; try discriminate.
      destruct (nth_error s n) as [t|] eqn:En; try discriminate.
      destruct (Forall2_nth _ _ _ _ _ Hsim En) as (v' & Hv' & Hm).
      destruct t as [|m'|u']; try discriminate. cbn in Hm. subst v'.
      destruct (S u' <=? length s) eqn:E2; try discriminate. apply Nat.leb_le in E2.
      specialize (H1 _ Hv'). lia.
    - (* return *)
      split; [|intros; discriminate]. cbn. lia.
    - (* return bad *)
      exfalso. rewrite H0 in Hsucc. cbn [asucc] in Hsucc. subst stk. inversion Hsim; subst. cbn in Hsucc. discriminate.
  Qed.

  Lemma init_ok : forall args, length args = fn_args f -> ok_state (Running 0 args).
  Proof.
    intros args Hl. unfold check_table in Hcheck.
    apply andb_true_iff in Hcheck as [H _]. apply andb_true_iff in H as [H _].
    eapply flow_ok; eauto. apply repeat_top_sim; auto.
  Qed.

  Lemma steps_ok : forall n st st', ok_state st -> steps code excess n st st' -> ok_state st'.
  Proof.
    intros n st st' Hok Hs. induction Hs as [st|n s1 s2 s3 Hs IH Hst]; auto.
    destruct (step_preserves _ _ (IH Hok) Hst) as [H _]. exact H.
  Qed.

  Lemma ok_running_height : forall pc stk, ok_state (Running pc stk) -> length stk <= fn_max_stack f.
  Proof.
    intros pc stk (s & Htbl & Hsim).
    pose proof (in_range _ _ Htbl) as Hr. apply nth_error_Some in Hr.
    destruct (nth_error code pc) as [[i ann]|] eqn:Ec; try congruence.
    pose proof (tbl_check _ _ _ Ec Htbl) as Hci. apply check_instr_spec in Hci as (Hmax & _).
    rewrite <- (Forall2_len _ _ _ Hsim). exact Hmax.
  Qed.

  Lemma ok_height : forall st, ok_state st -> st <> Bad /\ fheight st <= fn_max_stack f + excess.
  Proof.
    intros [pc stk|h|] Hok.
    - split; [discriminate|]. apply ok_running_height in Hok. cbn. lia.
    - split; [discriminate|exact Hok].
    - contradiction.
  Qed.

  (* Running states only ever move forward, so a frame executes each instruction at most once. *)
  Lemma steps_pc : forall n st st', ok_state st -> steps code excess n st st' ->
    forall pc stk pc' stk', st = Running pc stk -> st' = Running pc' stk' -> pc + n <= pc'.
  Proof.
    intros n st st' Hok Hs. induction Hs as [st|n s1 s2 s3 Hs IH Hst]; intros pc stk pc' stk' E1 E2.
    - subst. inversion E2; subst. lia.
    - subst s1 s3. pose proof (steps_ok _ _ _ Hok Hs) as Hok2.
      destruct s2 as [pc2 stk2|h|].
      + specialize (IH Hok pc stk pc2 stk2 eq_refl eq_refl).
        destruct (step_preserves _ _ Hok2 Hst) as [_ Hfw].
        specialize (Hfw pc2 stk2 pc' stk' eq_refl eq_refl). lia.
      + inversion Hst.
      + inversion Hst.
  Qed.
End Sound.
Transparent skipn.

(* ---------- the pinned statements ---------- *)

(* [check_table] accepts only tables that bound every execution of the frame. *)
Theorem check_table_sound : forall f tbl excess args n st,
  check_table f tbl = true ->
  length args = fn_args f ->
  steps (fn_code f) excess n (Running 0 args) st ->
  st <> Bad /\
  fheight st <= fn_max_stack f + excess /\
  (forall pc stk, st = Running pc stk -> length stk <= fn_max_stack f).
Proof.
  intros f tbl excess args n st Hc Hl Hs.
  assert (Hok : ok_state f tbl excess st).
  { eapply steps_ok; eauto. apply init_ok; auto. }
  destruct (ok_height f tbl excess Hc st Hok) as [Hb Hh].
  split; [|split]; auto.
  intros pc stk E. subst st. eapply ok_running_height; eauto.
Qed.

(* The statement of DESIGN.md C07: in every execution of a frame running a verified function
   (entered with `fn_args f` arguments and `excess` excess arguments), no access leaves the
   frame, the frame height at every instruction boundary is at most max_stack_size, and the only
   moment it can be larger is the TailCall of a frame that re-pushes its excess arguments. *)
Theorem verify_fn_sound : forall f excess args n st,
  verify_fn f = true ->
  length args = fn_args f ->
  steps (fn_code f) excess n (Running 0 args) st ->
  st <> Bad /\
  fheight st <= fn_max_stack f + excess /\
  (forall pc stk, st = Running pc stk -> length stk <= fn_max_stack f).
Proof.
  unfold verify_fn. intros f excess args n st Hv Hl Hs.
  destruct (infer f) as [tbl|] eqn:Ei; try discriminate.
  eapply check_table_sound; eauto.
Qed.

(* All jumps of a verified function go forward: a frame executes at most `length code`
   instructions in total, hence at most that many between two polls of the interrupt flag
   (thread.rs:1785 polls whenever control returns to the `execute` loop, i.e. after every
   Call / TailCall / Return). *)
Theorem forward_jumps_bounded_steps : forall f excess args n st,
  verify_fn f = true ->
  length args = fn_args f ->
  steps (fn_code f) excess n (Running 0 args) st ->
  n <= length (fn_code f).
Proof.
  unfold verify_fn. intros f excess args n st Hv Hl Hs.
  destruct (infer f) as [tbl|] eqn:Ei; try discriminate.
  pose proof (init_ok f tbl excess Hv args Hl) as Hok0.
  inversion Hs as [st0 E0 E1 E2 | n0 s1 s2 s3 Hs' Hst E0 E1 E2]; subst.
  - lia.
  - pose proof (steps_ok f tbl excess Hv _ _ _ Hok0 Hs') as Hok2.
    destruct s2 as [pc2 stk2|h|]; try (inversion Hst; fail).
    pose proof (steps_pc f tbl excess Hv _ _ _ Hok0 Hs' 0 args pc2 stk2 eq_refl eq_refl) as Hpc.
    destruct Hok2 as (s & Htbl & _). apply (in_range f tbl Hv) in Htbl. cbn in Hpc. lia.
Qed.

(* ---------- the generated [adjust] against the modelled semantics ---------- *)
Definition small (n : N) : Prop := (n < 2147483648)%N.

Lemma i32_small : forall n, small n -> i32_of_u32 n = Z.of_N n.
Proof.
  unfold small, i32_of_u32. intros n H.
  assert (H1 : (0 <= Z.of_N n < 4294967296)%Z) by lia.
  rewrite (Z.mod_small _ _ H1).
  destruct (Z.ltb_spec (Z.of_N n) 2147483648); lia.
Qed.

Definition operands_small (i : instr) : Prop :=
  match i with
  | ICall n | ITailCall n | IPop n | ISlide n | IConstructArray n => small n
  | IConstructVariant _ a | IConstructPolyVariant _ a | IConstructRecord _ a => small a
  (* MakeClosure is never emitted by vm/src/compiler.rs (closures are always built with
     NewClosure + CloseClosure); its `adjust` (+1) ignores the upvars the interpreter pops, see
     [adjust_makeclosure_refuted].  Only the upvar-free form is consistent. *)
  | IMakeClosure _ u => u = 0%N
  | _ => True
  end.

(* net change of the frame height when the instruction falls through, as modelled from
   thread.rs; None for the instructions whose change depends on run-time data (Split,
   CloseData, CloseClosure) or that leave the frame *)
Definition net_effect (i : instr) : option Z :=
  match classify i with
  | EPopPush _ pop push => Some (Z.of_nat (length push) - Z.of_nat pop)%Z
  | EPushSlot _ => Some 1%Z
  | ECall n => Some (- Z.of_nat n)%Z
  | EJump _ => Some 0%Z
  | ECJump _ => Some (-1)%Z
  | ESlide n => Some (- Z.of_nat n)%Z
  | _ => None
  end.

(* For every instruction whose effect is static, the compiler's accounting function agrees with
   the interpreter's effect.  (Finite case analysis over the generated constructors; the operands
   stay universally quantified.) *)
Opaque Z.sub Z.opp Z.of_nat Z.of_N Z.add.
Theorem adjust_matches_semantics : forall i d,
  operands_small i -> net_effect i = Some d -> adjust i = d.
Proof.
  intros i d Hs Hn. unfold net_effect in Hn.
  destruct i; cbn [classify] in Hn; cbn [operands_small] in Hs;
    try discriminate; injection Hn as <-; cbn [adjust length];
    try rewrite i32_small by assumption; try subst; unfold nn; lia.
Qed.

(* The one constructor where the accounting function and the interpreter disagree. *)
Theorem adjust_makeclosure_refuted :
  exists i d, net_effect i = Some d /\ adjust i <> d.
Proof.
  exists (IMakeClosure 0 1), 0%Z. split; [reflexivity|]. cbn [adjust]. lia.
Qed.
Transparent Z.sub Z.opp Z.of_nat Z.of_N Z.add.

(* The three instructions the compiler corrects by hand, and the two that end the frame. *)
Theorem adjust_dynamic_cases :
  adjust ISplit = (-1)%Z /\ (forall i, adjust (ICloseData i) = 0%Z) /\
  (forall n, adjust (ICloseClosure n) = (-1)%Z) /\ adjust IReturn = 0%Z /\
  (forall n, small n -> adjust (ITailCall n) = (- Z.of_N n)%Z).
Proof.
  repeat split; intros; cbn [adjust]; try reflexivity.
  rewrite i32_small by assumption. reflexivity.
Qed.
