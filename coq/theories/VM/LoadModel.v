(* C12 — the codec's function skeleton (VM/Codec.v [fn]) embedded into the model VM's program type
   (VM/Machine.v, C01's executable interpreter for real bytecode), so that "loading" = decoding a
   serialised skeleton and running it on the model VM is one Gallina function.  Definitions only
   (extracted by coq/extract/c12vm); the theorem is in LoadModelProofs.v.

   The two developments differ in three places:
     * Machine.func has no max_stack_size (the model stack is a list) — dropped by the embedding;
     * Machine.program is a flat table with pre-order ids and `fn_inner : list nat`, Codec.fn is a
       tree — [flat] numbers the tree exactly like coq/extract/c01vm/driver.ml `flatten` does;
     * Machine.func carries `fn_records` (field names of the record shapes; they only decide how a
       record VALUE is labelled and what GetField finds).  In the real serialisation these are symbols
       inside the shared-node tables, which the codec does not model: they are a side table [rtree]
       of the same shape as the function tree, held fixed across encode / decode. *)
From Coq Require Import List ZArith NArith Bool.
From GVgen Require Import InstrGen InstrCodecGen.
From GV Require Import VM.Codec VM.Machine.
Import ListNotations.

Inductive rtree : Type := RT (records : list (list str)) (inner : list rtree).

Definition rt_empty : rtree := RT [] [].

(* the functions of [f] in pre-order, the first one getting id [base] *)
Fixpoint flat (base : nat) (f : fn) (r : rtree) {struct f} : list func :=
  match f, r with
  | Fn a _ ins inner strs, RT recs rinner =>
      let fix go (b : nat) (l : list fn) (rl : list rtree) {struct l} : list nat * list func :=
        match l with
        | [] => ([], [])
        | g :: l' =>
            let fs := flat b g (match rl with x :: _ => x | [] => rt_empty end) in
            let '(ids, rest) := go (b + length fs) l' (tl rl) in
            (b :: ids, fs ++ rest)
        end in
      let '(ids, fs) := go (S base) inner rinner in
      {| fn_args := N.to_nat a; fn_code := ins; fn_strings := strs; fn_records := recs; fn_inner := ids |} :: fs
  end.

Definition to_program (f : fn) (r : rtree) : program := flat 0 f r.

(* run the module whose top-level function is [f]: no arguments, [globals] as upvariables *)
Definition run_fn (r : rtree) (globals : list mval) (fuel : nat) (f : fn) : vres * list Z :=
  run_module (to_program f r) fuel 0 globals.

(* loading = decoding the serialised skeleton, then running it *)
Definition load_and_run (c : cfg) (r : rtree) (globals : list mval) (fuel : nat) (bs : bytes)
  : option (vres * list Z) :=
  match decode_fn c bs with
  | Some (g, _) => Some (run_fn r globals fuel g)
  | None => None
  end.
