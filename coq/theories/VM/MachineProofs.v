(* Theorems about the model VM (VM/Machine.v). *)
From Coq Require Import List ZArith NArith Bool Lia.
From GVgen Require Import InstrGen.
From GV Require Import VM.Machine.
Import ListNotations.

(* ---------------------------------------------------------------- fuel *)
(* A finished run does not depend on the amount of fuel: more fuel gives the same result and log. *)
Theorem vm_fuel_mono : forall prog n m s r l,
  run prog n s = (r, l) -> r <> VOutOfFuel -> n <= m -> run prog m s = (r, l).
Proof.
  intros prog n. induction n as [| n IH]; intros m s r l H Hr Hnm.
  - cbn [run] in H. inversion H; subst. congruence.
  - destruct m as [| m]; [lia |]. cbn [run] in *.
    destruct (step prog s) as [s' | r' l']; [| exact H].
    apply IH; [exact H | exact Hr | lia].
Qed.

Theorem vm_run_deterministic : forall prog n m s r1 l1 r2 l2,
  run prog n s = (r1, l1) -> run prog m s = (r2, l2) ->
  r1 <> VOutOfFuel -> r2 <> VOutOfFuel -> r1 = r2 /\ l1 = l2.
Proof.
  intros prog n m s r1 l1 r2 l2 H1 H2 N1 N2.
  destruct (Nat.le_ge_cases n m) as [Hnm | Hnm].
  - pose proof (vm_fuel_mono _ _ _ _ _ _ H1 N1 Hnm) as H. rewrite H in H2. inversion H2; auto.
  - pose proof (vm_fuel_mono _ _ _ _ _ _ H2 N2 Hnm) as H. rewrite H in H1. inversion H1; auto.
Qed.

(* ---------------------------------------------------------------- list helpers *)
Lemma lastn_app_exact : forall A (a b : list A) n, length b = n -> lastn n (a ++ b) = b.
Proof.
  intros A a b n Hn. unfold lastn. rewrite app_length, Hn.
  replace (length a + n - n) with (length a) by lia.
  rewrite skipn_app, Nat.sub_diag, skipn_all. reflexivity.
Qed.

Lemma firstn_app_exact : forall A (a b : list A) n, length a = n -> firstn n (a ++ b) = a.
Proof.
  intros A a b n Hn. subst n. rewrite firstn_app, Nat.sub_diag, firstn_all. cbn [firstn]. apply app_nil_r.
Qed.

(* ---------------------------------------------------------------- frame discipline of Return *)
(* Whatever code the callee ran, when it reaches Return with its result on top of the stack
   (no excess arguments): the callee slot and every value of the callee's frame are replaced by
   exactly one value, the result, directly above the caller's values; the caller's frame
   (offset, instruction index, upvariables, excess flag) is the innermost one again, untouched;
   store and effect log are unchanged. *)
Theorem vm_return_frame_discipline : forall prog base fnval locals result f caller rest store log fn,
  get_fn prog (fr_fn f) = Some fn ->
  nth_error (fn_code fn) (fr_pc f) = Some IReturn ->
  fr_excess f = false ->
  fr_off f = S (length base) ->
  step prog {| st_stack := base ++ fnval :: locals ++ [result]; st_frames := f :: caller :: rest;
               st_store := store; st_log := log; st_pending := None |}
  = Next {| st_stack := base ++ [result]; st_frames := caller :: rest;
            st_store := store; st_log := log; st_pending := None |}.
Proof.
  intros prog base fnval locals result f caller rest store log fn Hfn Hi Hex Hoff.
  unfold step. cbn [st_pending st_frames]. rewrite Hfn, Hi.
  unfold exec. cbn [st_stack].
  replace (base ++ fnval :: locals ++ [result]) with ((base ++ fnval :: locals) ++ [result])
    by (rewrite <- app_assoc; reflexivity).
  rewrite lastn_app_exact by reflexivity.
  unfold do_return. rewrite Hex. cbn [st_stack st_store st_log].
  rewrite Hoff. cbn [Nat.sub]. rewrite Nat.sub_0_r.
  rewrite <- app_assoc. cbn [app].
  rewrite firstn_app_exact by reflexivity. reflexivity.
Qed.

(* The same with excess arguments (the callee was applied to more arguments than its arity):
   the record of excess arguments below the callee is consumed as well, the result is followed
   by those arguments and the machine is about to apply the result to them. *)
Theorem vm_return_excess_reapplies : forall prog base tag names fields fnval locals result f caller rest store log fn,
  get_fn prog (fr_fn f) = Some fn ->
  nth_error (fn_code fn) (fr_pc f) = Some IReturn ->
  fr_excess f = true ->
  fr_off f = S (S (length base)) ->
  step prog {| st_stack := base ++ MData tag names fields :: fnval :: locals ++ [result];
               st_frames := f :: caller :: rest; st_store := store; st_log := log; st_pending := None |}
  = Next {| st_stack := base ++ [result] ++ fields; st_frames := caller :: rest;
            st_store := store; st_log := log; st_pending := Some (length fields) |}.
Proof.
  intros prog base tag names fields fnval locals result f caller rest store log fn Hfn Hi Hex Hoff.
  unfold step. cbn [st_pending st_frames]. rewrite Hfn, Hi.
  unfold exec. cbn [st_stack].
  replace (base ++ MData tag names fields :: fnval :: locals ++ [result])
    with ((base ++ MData tag names fields :: fnval :: locals) ++ [result])
    by (rewrite <- app_assoc; reflexivity).
  rewrite lastn_app_exact by reflexivity.
  unfold do_return. rewrite Hex. cbn [st_stack st_store st_log].
  rewrite Hoff. cbn [Nat.sub]. rewrite Nat.sub_0_r.
  rewrite <- app_assoc. cbn [app].
  rewrite nth_error_app2 by lia. rewrite Nat.sub_diag. cbn [nth_error resolve].
  rewrite firstn_app_exact by reflexivity. reflexivity.
Qed.

(* ---------------------------------------------------------------- Call with the exact arity *)
(* Call n on a closure of arity n opens a frame whose first slot is the first argument (the
   callee sits just below it), starting at instruction 0, not marked excess; the caller's frame
   stays below with its instruction index advanced past the Call. *)
Theorem vm_call_exact_enters_frame : forall prog base g up args f rest store log fn callee n,
  get_fn prog (fr_fn f) = Some fn ->
  nth_error (fn_code fn) (fr_pc f) = Some (ICall n) ->
  N.to_nat n = length args ->
  get_fn prog g = Some callee -> fn_args callee = length args ->
  step prog {| st_stack := base ++ MClo g up :: args; st_frames := f :: rest;
               st_store := store; st_log := log; st_pending := None |}
  = Next {| st_stack := base ++ MClo g up :: args;
            st_frames := {| fr_off := S (length base); fr_excess := false; fr_fn := g; fr_upv := up; fr_pc := 0 |}
                         :: {| fr_off := fr_off f; fr_excess := fr_excess f; fr_fn := fr_fn f; fr_upv := fr_upv f; fr_pc := S (fr_pc f) |}
                         :: rest;
            st_store := store; st_log := log; st_pending := None |}.
Proof.
  intros prog base g up args f rest store log fn callee n Hfn Hi Hn Hg Har.
  unfold step. cbn [st_pending st_frames]. rewrite Hfn, Hi.
  unfold exec, do_call, set_pc. cbn [st_stack st_frames st_store st_log st_pending].
  rewrite Hn. rewrite app_length. cbn [length].
  assert (Nat.ltb (length base + S (length args)) (S (length args)) = false) as -> by (apply Nat.ltb_ge; lia).
  replace (length base + S (length args) - 1 - length args) with (length base) by lia.
  rewrite nth_error_app2 by lia. rewrite Nat.sub_diag. cbn [nth_error resolve].
  rewrite Hg, Har, Nat.compare_refl.
  rewrite app_length. cbn [length].
  replace (length base + S (length args) - length args) with (S (length base)) by lia.
  reflexivity.
Qed.

(* ---------------------------------------------------------------- TailCall vs Call; Return *)
Lemma dropn_app_exact : forall A (a b : list A) n, length b = n -> dropn n (a ++ b) = a.
Proof.
  intros A a b n Hn. unfold dropn. rewrite app_length, Hn.
  replace (length a + n - n) with (length a) by lia. apply firstn_app_exact. reflexivity.
Qed.

(* Replacing `Call n; Return` by `TailCall n` does not change the outcome — proved here for a
   callee that needs no frame of its own (a built-in applied to exactly its arity): both code
   shapes lead to the same machine state, the caller's frame with the built-in's result in place
   of the finished function.  (For a bytecode callee the statement needs a simulation argument —
   the callee's run is independent of the finished frame below it — which is not proved.) *)
Theorem tailcall_preserves_result_partial :
  forall prog base fnval locals e args r log' f caller rest store log fn1 fn2 f2 n,
  (* the same machine state, two functions that differ in the code at the current position *)
  get_fn prog (fr_fn f) = Some fn1 -> nth_error (fn_code fn1) (fr_pc f) = Some (ITailCall n) ->
  fr_off f2 = fr_off f -> fr_excess f2 = false -> fr_excess f = false -> fr_pc f2 = fr_pc f ->
  get_fn prog (fr_fn f2) = Some fn2 -> nth_error (fn_code fn2) (fr_pc f) = Some (ICall n) ->
  nth_error (fn_code fn2) (S (fr_pc f)) = Some IReturn ->
  N.to_nat n = length args -> ext_arity e = length args ->
  run_ext e args log = (Some (inl r), log') ->
  fr_off f = S (length base) ->
  let stack := base ++ fnval :: locals ++ MExt e :: args in
  let s1 := {| st_stack := stack; st_frames := f :: caller :: rest; st_store := store; st_log := log; st_pending := None |} in
  let s2 := {| st_stack := stack; st_frames := f2 :: caller :: rest; st_store := store; st_log := log; st_pending := None |} in
  exists final,
    final = {| st_stack := base ++ [r]; st_frames := caller :: rest; st_store := store; st_log := log'; st_pending := None |}
    /\ step prog s1 = Next final
    /\ (exists mid, step prog s2 = Next mid /\ step prog mid = Next final).
Proof.
  intros prog base fnval locals e args r log' f caller rest store log fn1 fn2 f2 n
         Hfn1 Hi1 Hoff2 Hex2 Hex Hpc2 Hfn2 Hi2 Hret Hn Har Hrun Hoff stack s1 s2.
  eexists. split; [reflexivity |].
  assert (stack = (base ++ fnval :: locals) ++ MExt e :: args) as Hst
    by (unfold stack; rewrite <- app_assoc; reflexivity).
  assert (length stack = length base + S (length locals) + S (length args)) as Hlen
    by (rewrite Hst, !app_length; cbn [length]; lia).
  split.
  - (* TailCall *)
    unfold step, s1. cbn [st_pending st_frames]. rewrite Hfn1, Hi1.
    unfold exec. cbn [st_stack]. rewrite Hex, Hn, Hoff.
    fold stack. rewrite Hlen.
    assert (Nat.ltb (length base + S (length locals) + S (length args) - S (length base)) (S (length args)) = false) as ->
      by (apply Nat.ltb_ge; lia).
    cbn [Nat.sub]. rewrite Nat.sub_0_r.
    rewrite Hst at 2. rewrite lastn_app_exact by reflexivity.
    unfold stack at 1. rewrite firstn_app_exact by reflexivity.
    unfold do_call. cbn [st_stack st_store st_log st_frames].
    rewrite app_length. cbn [length].
    assert (Nat.ltb (length base + S (length args)) (S (length args)) = false) as -> by (apply Nat.ltb_ge; lia).
    replace (length base + S (length args) - 1 - length args) with (length base) by lia.
    rewrite nth_error_app2 by lia. rewrite Nat.sub_diag. cbn [nth_error resolve].
    rewrite Har, Nat.compare_refl.
    replace (base ++ MExt e :: args) with ((base ++ [MExt e]) ++ args) by (rewrite <- app_assoc; reflexivity).
    rewrite lastn_app_exact by reflexivity. rewrite firstn_all. rewrite Hrun.
    rewrite Nat.sub_diag. cbn [Nat.eqb].
    unfold lastn. rewrite Nat.sub_0_r, skipn_all, app_nil_r.
    rewrite <- app_assoc. cbn [app].
    replace (base ++ MExt e :: args) with (base ++ (MExt e :: args)) by reflexivity.
    rewrite dropn_app_exact by (cbn [length]; reflexivity). reflexivity.
  - (* Call; Return *)
    eexists. split.
    + unfold step, s2. cbn [st_pending st_frames]. rewrite Hfn2, Hpc2, Hi2.
      unfold exec, set_pc. cbn [st_stack st_frames st_store st_log st_pending].
      unfold do_call. cbn [st_stack st_store st_log st_frames]. rewrite Hn.
      fold stack. rewrite Hlen.
      assert (Nat.ltb (length base + S (length locals) + S (length args)) (S (length args)) = false) as -> by (apply Nat.ltb_ge; lia).
      replace (length base + S (length locals) + S (length args) - 1 - length args) with (length (base ++ fnval :: locals))
        by (rewrite app_length; cbn [length]; lia).
      rewrite Hst. rewrite nth_error_app2 by lia. rewrite Nat.sub_diag. cbn [nth_error resolve].
      rewrite Har, Nat.compare_refl.
      replace ((base ++ fnval :: locals) ++ MExt e :: args) with (((base ++ fnval :: locals) ++ [MExt e]) ++ args)
        by (rewrite <- !app_assoc; reflexivity).
      rewrite lastn_app_exact by reflexivity. rewrite firstn_all. rewrite Hrun.
      rewrite Nat.sub_diag. cbn [Nat.eqb].
      unfold lastn at 1. rewrite Nat.sub_0_r, skipn_all, app_nil_r.
      rewrite <- app_assoc. cbn [app].
      rewrite dropn_app_exact by (cbn [length]; reflexivity).
      reflexivity.
    + unfold step. cbn [st_pending st_frames fr_fn fr_pc]. rewrite Hfn2, Hpc2, Hret.
      unfold exec. cbn [st_stack fr_off fr_excess].
      rewrite lastn_app_exact by reflexivity.
      unfold do_return. cbn [fr_excess fr_off st_stack st_store st_log]. rewrite Hex2, Hoff2, Hoff.
      cbn [Nat.sub]. rewrite Nat.sub_0_r.
      rewrite <- app_assoc. cbn [app].
      rewrite firstn_app_exact by reflexivity. reflexivity.
Qed.

(* The full statement (not proved): for ANY callee, a finished run from the `TailCall n` state is
   matched, result and log, by a run from the `Call n; Return` state. *)
Definition tailcall_preserves_result_full_stmt : Prop :=
  forall prog stack f f2 caller rest store log fn1 fn2 n fuel r l,
    get_fn prog (fr_fn f) = Some fn1 -> nth_error (fn_code fn1) (fr_pc f) = Some (ITailCall n) ->
    fr_off f2 = fr_off f -> fr_excess f2 = fr_excess f -> fr_pc f2 = fr_pc f -> fr_upv f2 = fr_upv f ->
    get_fn prog (fr_fn f2) = Some fn2 -> nth_error (fn_code fn2) (fr_pc f) = Some (ICall n) ->
    nth_error (fn_code fn2) (S (fr_pc f)) = Some IReturn ->
    run prog fuel {| st_stack := stack; st_frames := f :: caller :: rest; st_store := store; st_log := log; st_pending := None |} = (r, l) ->
    r <> VOutOfFuel ->
    exists fuel',
      run prog fuel' {| st_stack := stack; st_frames := f2 :: caller :: rest; st_store := store; st_log := log; st_pending := None |} = (r, l).
