(* Theorems about the model VM (VM/Machine.v). *)
From Coq Require Import List ZArith NArith Bool Lia.
From GVgen Require Import InstrGen.
From GV Require Import VM.Machine.
Import ListNotations.

(* ---------------------------------------------------------------- fuel *)
(* A finished run does not depend on the amount of fuel: more fuel gives the same result and log. *)
Theorem vm_fuel_mono : forall prog n m s r l,
  run prog n s = (r, l) -> r <> VOutOfFuel -> n <= m -> run prog m s = (r, l).
Proof.
  intros prog n. induction n as [| n IH]; intros m s r l H Hr Hnm.
  - cbn [run] in H. inversion H; subst. congruence.
  - destruct m as [| m]; [lia |]. cbn [run] in *.
    destruct (step prog s) as [s' | r' l']; [| exact H].
    apply IH; [exact H | exact Hr | lia].
Qed.

Theorem vm_run_deterministic : forall prog n m s r1 l1 r2 l2,
  run prog n s = (r1, l1) -> run prog m s = (r2, l2) ->
  r1 <> VOutOfFuel -> r2 <> VOutOfFuel -> r1 = r2 /\ l1 = l2.
Proof.
  intros prog n m s r1 l1 r2 l2 H1 H2 N1 N2.
  destruct (Nat.le_ge_cases n m) as [Hnm | Hnm].
  - pose proof (vm_fuel_mono _ _ _ _ _ _ H1 N1 Hnm) as H. rewrite H in H2. inversion H2; auto.
  - pose proof (vm_fuel_mono _ _ _ _ _ _ H2 N2 Hnm) as H. rewrite H in H1. inversion H1; auto.
Qed.

(* ---------------------------------------------------------------- list helpers *)
Lemma lastn_app_exact : forall A (a b : list A) n, length b = n -> lastn n (a ++ b) = b.
Proof.
  intros A a b n Hn. unfold lastn. rewrite app_length, Hn.
  replace (length a + n - n) with (length a) by lia.
  rewrite skipn_app, Nat.sub_diag, skipn_all. reflexivity.
Qed.

Lemma firstn_app_exact : forall A (a b : list A) n, length a = n -> firstn n (a ++ b) = a.
Proof.
  intros A a b n Hn. subst n. rewrite firstn_app, Nat.sub_diag, firstn_all. cbn [firstn]. apply app_nil_r.
Qed.

Lemma skipn_app_exact : forall A (a b : list A) n, length a = n -> skipn n (a ++ b) = b.
Proof.
  intros A a b n Hn. subst n. rewrite skipn_app, Nat.sub_diag, skipn_all. reflexivity.
Qed.

(* ---------------------------------------------------------------- frame discipline of Return *)
(* Whatever code the callee ran, when it reaches Return with its result on top of the stack
   (no excess arguments): the callee slot and every value of the callee's frame are replaced by
   exactly one value, the result, directly above the caller's values; the caller's frame
   (offset, instruction index, upvariables, excess flag) is the innermost one again, untouched;
   store and effect log are unchanged. *)
Theorem vm_return_frame_discipline : forall prog base fnval locals result f caller rest store log fn,
  get_fn prog (fr_fn f) = Some fn ->
  nth_error (fn_code fn) (fr_pc f) = Some IReturn ->
  fr_excess f = false ->
  fr_off f = S (length base) ->
  step prog {| st_stack := base ++ fnval :: locals ++ [result]; st_frames := f :: caller :: rest;
               st_store := store; st_log := log; st_pending := None |}
  = Next {| st_stack := base ++ [result]; st_frames := caller :: rest;
            st_store := store; st_log := log; st_pending := None |}.
Proof.
  intros prog base fnval locals result f caller rest store log fn Hfn Hi Hex Hoff.
  unfold step. cbn [st_pending st_frames]. rewrite Hfn, Hi.
  unfold exec. cbn [st_stack st_store exec_local]. rewrite Hoff.
  replace (base ++ fnval :: locals ++ [result]) with ((base ++ [fnval]) ++ (locals ++ [result]))
    by (rewrite <- app_assoc; reflexivity).
  rewrite skipn_app_exact by (rewrite app_length; cbn [length]; lia).
  rewrite lastn_app_exact by reflexivity.
  unfold do_return. rewrite Hex. cbn [st_stack st_store st_log].
  rewrite Hoff. cbn [Nat.sub]. rewrite Nat.sub_0_r.
  rewrite <- app_assoc.
  rewrite firstn_app_exact by reflexivity. reflexivity.
Qed.

(* The same with excess arguments (the callee was applied to more arguments than its arity):
   the record of excess arguments below the callee is consumed as well, the result is followed
   by those arguments and the machine is about to apply the result to them. *)
Theorem vm_return_excess_reapplies : forall prog base tag names fields fnval locals result f caller rest store log fn,
  get_fn prog (fr_fn f) = Some fn ->
  nth_error (fn_code fn) (fr_pc f) = Some IReturn ->
  fr_excess f = true ->
  fr_off f = S (S (length base)) ->
  step prog {| st_stack := base ++ MData tag names fields :: fnval :: locals ++ [result];
               st_frames := f :: caller :: rest; st_store := store; st_log := log; st_pending := None |}
  = Next {| st_stack := base ++ [result] ++ fields; st_frames := caller :: rest;
            st_store := store; st_log := log; st_pending := Some (length fields) |}.
Proof.
  intros prog base tag names fields fnval locals result f caller rest store log fn Hfn Hi Hex Hoff.
  unfold step. cbn [st_pending st_frames]. rewrite Hfn, Hi.
  unfold exec. cbn [st_stack st_store exec_local]. rewrite Hoff.
  replace (base ++ MData tag names fields :: fnval :: locals ++ [result])
    with ((base ++ [MData tag names fields; fnval]) ++ (locals ++ [result]))
    by (rewrite <- app_assoc; reflexivity).
  rewrite skipn_app_exact by (rewrite app_length; cbn [length]; lia).
  rewrite lastn_app_exact by reflexivity.
  unfold do_return. rewrite Hex. cbn [st_stack st_store st_log].
  rewrite Hoff. cbn [Nat.sub]. rewrite Nat.sub_0_r.
  rewrite <- app_assoc. cbn [app].
  rewrite nth_error_app2 by lia. rewrite Nat.sub_diag. cbn [nth_error resolve].
  rewrite firstn_app_exact by reflexivity. reflexivity.
Qed.

(* ---------------------------------------------------------------- Call with the exact arity *)
(* Call n on a closure of arity n opens a frame whose first slot is the first argument (the
   callee sits just below it), starting at instruction 0, not marked excess; the caller's frame
   stays below with its instruction index advanced past the Call. *)
Theorem vm_call_exact_enters_frame : forall prog base g up args f rest store log fn callee n,
  get_fn prog (fr_fn f) = Some fn ->
  nth_error (fn_code fn) (fr_pc f) = Some (ICall n) ->
  N.to_nat n = length args ->
  get_fn prog g = Some callee -> fn_args callee = length args ->
  fr_off f <= length base ->
  step prog {| st_stack := base ++ MClo g up :: args; st_frames := f :: rest;
               st_store := store; st_log := log; st_pending := None |}
  = Next {| st_stack := base ++ MClo g up :: args;
            st_frames := {| fr_off := S (length base); fr_excess := false; fr_fn := g; fr_upv := up; fr_pc := 0 |}
                         :: {| fr_off := fr_off f; fr_excess := fr_excess f; fr_fn := fr_fn f; fr_upv := fr_upv f; fr_pc := S (fr_pc f) |}
                         :: rest;
            st_store := store; st_log := log; st_pending := None |}.
Proof.
  intros prog base g up args f rest store log fn callee n Hfn Hi Hn Hg Har Hoff.
  unfold step. cbn [st_pending st_frames]. rewrite Hfn, Hi.
  unfold exec. cbn [st_stack st_store exec_local].
  rewrite skipn_length, app_length. cbn [length]. rewrite Hn.
  assert (Nat.ltb (length base + S (length args) - fr_off f) (S (length args)) = false) as -> by (apply Nat.ltb_ge; lia).
  unfold do_call, set_pc. cbn [st_stack st_frames st_store st_log st_pending].
  rewrite app_length. cbn [length].
  assert (Nat.ltb (length base + S (length args)) (S (length args)) = false) as -> by (apply Nat.ltb_ge; lia).
  replace (length base + S (length args) - 1 - length args) with (length base) by lia.
  rewrite nth_error_app2 by lia. rewrite Nat.sub_diag. cbn [nth_error].
  rewrite firstn_app_exact by reflexivity.
  replace (base ++ MClo g up :: args) with ((base ++ [MClo g up]) ++ args) by (rewrite <- app_assoc; reflexivity).
  rewrite skipn_app_exact by (rewrite app_length; cbn [length]; lia).
  unfold call_on. cbn [st_store st_frames st_log resolve].
  rewrite Hg, Har, Nat.compare_refl. rewrite <- ?app_assoc. cbn [app]. reflexivity.
Qed.

