From Coq Require Extraction ExtrOcamlBasic.
From GV Require Import Base.Utf8N Front.Lexer.
Extraction Language OCaml.
Extraction "model.ml" lex unescape utf8_valid is_char_boundary.
