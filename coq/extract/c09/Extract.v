From Coq Require Extraction ExtrOcamlBasic.
From GV Require Import Base.Utf8 Front.Lexer.
Extraction Language OCaml.
Extraction "model.ml" lex utf8_valid is_char_boundary.
