(* Line protocol driver for the C09 lexer model.  One case per input line:
     fx=<0|1>;sp=<0|1>;ob=<0|1>;un=<0|1>;in=<hex bytes>      (which of the tokenizer fixes the tree has)
   Reply (same canonical format as harness/src/bin/c09.rs prints for the implementation):
     ok <item> <item> ... ## <side error> ... ## U:<start>:<ok:<hex>|panic:<site>> ...   (unescape of every escaped string token)
     panic:<restore_char|slice>
     fuel
   item:  T:<start>:<end>:<kind>[:<payload>]   |   E:<start>:<end>:<error>[:<code point>]
   Texts are printed as hex, integers in decimal.  The driver only converts between text and the
   extracted inductive number types (glue, not model). *)
open Model

let rec pos_of_int n =
  if n = 1 then XH else if n land 1 = 0 then XO (pos_of_int (n lsr 1)) else XI (pos_of_int (n lsr 1))
let n_of_int n = if n = 0 then N0 else Npos (pos_of_int n)
let rec int_of_pos = function XH -> 1 | XO p -> 2 * int_of_pos p | XI p -> 2 * int_of_pos p + 1
let int_of_n = function N0 -> 0 | Npos p -> int_of_pos p
let rec int_of_nat_acc acc = function O -> acc | S n -> int_of_nat_acc (acc + 1) n
let int_of_nat n = int_of_nat_acc 0 n
let rec i64_of_pos = function
  | XH -> 1L
  | XO p -> Int64.mul 2L (i64_of_pos p)
  | XI p -> Int64.add (Int64.mul 2L (i64_of_pos p)) 1L
(* values are within i64 (checked by the model); -2^63 comes out right by wrap-around *)
let i64_of_z = function Z0 -> 0L | Zpos p -> i64_of_pos p | Zneg p -> Int64.neg (i64_of_pos p)

let hexval c =
  match c with
  | '0' .. '9' -> Char.code c - 48
  | 'a' .. 'f' -> Char.code c - 87
  | 'A' .. 'F' -> Char.code c - 55
  | _ -> failwith "bad hex"

let bytes_of_hex s =
  let n = String.length s / 2 in
  let rec go i acc = if i < 0 then acc else go (i - 1) (n_of_int (hexval s.[2 * i] * 16 + hexval s.[2 * i + 1]) :: acc) in
  go (n - 1) []

let hex_of_bytes l =
  let b = Buffer.create 16 in
  List.iter (fun x -> Buffer.add_string b (Printf.sprintf "%02x" (int_of_n x))) l;
  Buffer.contents b

let field key line =
  let parts = String.split_on_char ';' line in
  let pre = key ^ "=" in
  let l = String.length pre in
  let rec find = function
    | [] -> failwith ("missing field " ^ key)
    | p :: ps -> if String.length p >= l && String.sub p 0 l = pre then String.sub p l (String.length p - l) else find ps
  in find parts

let simple = function
  | KRec -> "Rec" | KElse -> "Else" | KForall -> "Forall" | KIf -> "If" | KIn -> "In" | KLet -> "Let"
  | KDo -> "Do" | KSeq -> "Seq" | KMatch -> "Match" | KThen -> "Then" | KType -> "Type" | KWith -> "With"
  | KAt -> "At" | KColon -> "Colon" | KComma -> "Comma" | KDot -> "Dot" | KDotDot -> "DotDot"
  | KEquals -> "Equals" | KLambda -> "Lambda" | KPipe -> "Pipe" | KRArrow -> "RArrow" | KQuestion -> "Question"
  | KLBrace -> "LBrace" | KLBracket -> "LBracket" | KLParen -> "LParen" | KRBrace -> "RBrace"
  | KRBracket -> "RBracket" | KRParen -> "RParen" | KAttributeOpen -> "AttributeOpen" | KEOF -> "EOF"

let tok = function
  | TShebang t -> "Shebang:" ^ hex_of_bytes t
  | TIdent t -> "Ident:" ^ hex_of_bytes t
  | TOp t -> "Op:" ^ hex_of_bytes t
  | TStr (raw, t) -> (if raw then "RawStr:" else "Str:") ^ hex_of_bytes t
  | TChar c -> "Char:" ^ string_of_int (int_of_n c)
  | TInt z -> "Int:" ^ Int64.to_string (i64_of_z z)
  | TByte n -> "Byte:" ^ string_of_int (int_of_n n)
  | TFloat _ -> "Float"
  | TDoc (block, t) -> (if block then "DocB:" else "DocL:") ^ hex_of_bytes t
  | TSimple k -> simple k

let err = function
  | EEmptyCharLiteral -> "EmptyCharLiteral"
  | EUnexpectedChar c -> "UnexpectedChar:" ^ string_of_int (int_of_n c)
  | EUnexpectedEof -> "UnexpectedEof"
  | EUnexpectedEscapeCode c -> "UnexpectedEscapeCode:" ^ string_of_int (int_of_n c)
  | EUnterminatedCharLiteral -> "UnterminatedCharLiteral"
  | EUnterminatedStringLiteral -> "UnterminatedStringLiteral"
  | EInvalidRawStringDelimiter -> "InvalidRawStringDelimiter"
  | ENonParseableInt -> "NonParseableInt"
  | EHexLiteralOverflow -> "HexLiteralOverflow"
  | EHexLiteralUnderflow -> "HexLiteralUnderflow"
  | EHexLiteralWrongPrefix -> "HexLiteralWrongPrefix"
  | EHexLiteralIncomplete -> "HexLiteralIncomplete"

let item = function
  | ITok (t, a, b) -> Printf.sprintf "T:%d:%d:%s" (int_of_nat a) (int_of_nat b) (tok t)
  | IErr (c, a, b) -> Printf.sprintf "E:%d:%d:%s" (int_of_nat a) (int_of_nat b) (err c)

(* the grammar applies StringLiteral::unescape to every escaped string token *)
let unesc fx = function
  | ITok (TStr (false, t), a, _) ->
      Printf.sprintf " U:%d:%s" (int_of_nat a)
        (match unescape fx t with
         | Ok r -> "ok:" ^ hex_of_bytes r
         | Panic PIndex -> "panic:index"
         | Panic PInvalidEscape -> "panic:invalid_escape"
         | Panic _ -> "panic:?"
         | Fuel -> "fuel")
  | _ -> ""

let side e = Printf.sprintf "E:%d:%d:%s" (int_of_nat e.e_start) (int_of_nat e.e_end) (err e.e_code)

let () =
  try
    while true do
      let line = input_line stdin in
      if line <> "" then begin
        let fx = field "fx" line = "1" in
        let sp = field "sp" line = "1" in
        let ob = field "ob" line = "1" in
        let un = field "un" line = "1" in
        let input = bytes_of_hex (field "in" line) in
        let out =
          match lex fx sp ob input with
          | Ok (items, errs) ->
              String.concat " " ("ok" :: List.map item items) ^ " ##" ^ String.concat "" (List.map (fun e -> " " ^ side e) errs)
              ^ " ##" ^ String.concat "" (List.map (unesc un) items)
          | Panic PRestoreChar -> "panic:restore_char"
          | Panic PSlice -> "panic:slice"
          | Panic _ -> "panic:?"
          | Fuel -> "fuel"
        in
        print_endline out
      end
    done
  with End_of_file -> ()
