From Coq Require Extraction ExtrOcamlBasic.
From GV Require Import Lang.Syntax Lang.Eval Lang.Rename.
Extraction Language OCaml.
Extraction "model.ml" run eval rename_expr observe ctor_alt_keys lit_alt_keys group_by_key impl_group canon rename_tyvars.
