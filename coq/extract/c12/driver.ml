(* Line protocol driver for the C12 codec model (coq/theories/VM/Codec.v).  One skeleton per line:
     fn <args> <max_stack_size> <NI> instr* <NF> fn* <NS> str*
     instr ::= <VariantName> <K> (<field name | _> <value>)*      value: decimal | f<f64 bit pattern>
     str   ::= <hex bytes> | -
   The variant is looked up BY NAME in the generated [instr_table]; its position is the variant index the
   model writes; struct-variant fields are placed by field name (serde_json sorts object keys).
   Reply: `ok F=<hex of enc_fn Fixed> V=<hex of enc_fn Varint>` when the skeleton is well formed (ranges),
   every PushString / MakeClosure / NewClosure / Jump / CJump points inside its function ([refs_ok]), it
   decodes back to itself with nothing left over and every strict prefix at 1/64 steps fails to decode;
   `bad <reason>` / `unmodelled <reason>` otherwise.  The driver only parses, looks names up and prints. *)
open Model

let rec pos_of_int64 (n : int64) =
  if n = 1L then XH
  else if Int64.logand n 1L = 0L then XO (pos_of_int64 (Int64.shift_right_logical n 1))
  else XI (pos_of_int64 (Int64.shift_right_logical n 1))
let n_of_u64 (n : int64) = if n = 0L then N0 else Npos (pos_of_int64 n)
let n_of_int n = n_of_u64 (Int64.of_int n)
let z_of_i64 (n : int64) =
  if n = 0L then Z0 else if Int64.compare n 0L > 0 then Zpos (pos_of_int64 n) else Zneg (pos_of_int64 (Int64.neg n))
let rec int_of_pos = function XH -> 1 | XO p -> 2 * int_of_pos p | XI p -> 2 * int_of_pos p + 1
let int_of_n = function N0 -> 0 | Npos p -> int_of_pos p
let rec nat_of_int n = if n <= 0 then O else S (nat_of_int (n - 1))

let u64_of_string s = Int64.of_string ("0u" ^ s)

exception Unmodelled of string

let bytes_of_string s = List.init (String.length s) (fun i -> n_of_int (Char.code s.[i]))
let hex_of_bytes bs =
  let b = Buffer.create 256 in
  List.iter (fun n -> Buffer.add_string b (Printf.sprintf "%02x" (int_of_n n))) bs;
  Buffer.contents b
let unhex s =
  if s = "-" then []
  else List.init (String.length s / 2) (fun i -> n_of_int (int_of_string ("0x" ^ String.sub s (2 * i) 2)))

(* position and shape of a variant, by name *)
let lookup name =
  let nb = bytes_of_string name in
  let rec go k = function
    | [] -> raise (Unmodelled ("unknown instruction variant " ^ name))
    | (n, sh) :: rest -> if n = nb then (k, sh) else go (k + 1) rest
  in go 0 instr_table

let value_of ty (tok : string) =
  let is_float = String.length tok > 0 && tok.[0] = 'f' in
  match ty with
  | FI64 -> if is_float then raise (Unmodelled "float where an i64 is declared") else VI64 (z_of_i64 (Int64.of_string tok))
  | FU8 -> if is_float || tok.[0] = '-' then raise (Unmodelled "bad u8") else VU8 (n_of_u64 (u64_of_string tok))
  | FU32 -> if is_float || tok.[0] = '-' then raise (Unmodelled "bad u32") else VU32 (n_of_u64 (u64_of_string tok))
  | FF64 ->
      if is_float then VF64 (n_of_u64 (u64_of_string (String.sub tok 1 (String.length tok - 1))))
      else VF64 (n_of_u64 (Int64.bits_of_float (float_of_string tok)))

let parse toks =
  let toks = ref toks in
  let next () = match !toks with t :: r -> toks := r; t | [] -> failwith "unexpected end of line" in
  let int () = int_of_string (next ()) in
  let rec times n f = if n <= 0 then [] else let x = f () in x :: times (n - 1) f in
  let instr () =
    let name = next () in
    let k = int () in
    let fields = times k (fun () -> let f = next () in let v = next () in (f, v)) in
    let (idx, sh) = lookup name in
    let tys = shape_tys sh in
    if List.length tys <> k then raise (Unmodelled (Printf.sprintf "%s has %d fields, the table says %d" name k (List.length tys)));
    let vals =
      match sh with
      | SUnit -> []
      | SNewtype t -> (match fields with [("_", v)] -> [value_of t v] | _ -> raise (Unmodelled (name ^ ": newtype variant expected")))
      | SStruct fs ->
          List.map (fun (fname, t) ->
            match List.find_opt (fun (f, _) -> bytes_of_string f = fname) fields with
            | Some (_, v) -> value_of t v
            | None -> raise (Unmodelled (name ^ ": missing field"))) fs
    in
    match instr_build (nat_of_int idx) vals with
    | Some i -> i
    | None -> raise (Unmodelled (name ^ ": builder refused the fields"))
  in
  let rec fn () =
    if next () <> "fn" then failwith "expected fn";
    let a = n_of_u64 (u64_of_string (next ())) in
    let m = n_of_u64 (u64_of_string (next ())) in
    let ni = int () in
    let ins = times ni instr in
    let nf = int () in
    let inner = times nf fn in
    let ns = int () in
    let strs = times ns (fun () -> unhex (next ())) in
    Fn (a, m, ins, inner, strs)
  in
  let f = fn () in
  if !toks <> [] then failwith "trailing tokens";
  f

let cuts len = List.init 64 (fun k -> nat_of_int (len * k / 64)) @ [nat_of_int (max 0 (len - 1))]

let check c f =
  let bs = enc_fn c f in
  let ok_rt = (match decode_fn c bs with Some (g, []) -> g = f | _ -> false) in
  let ok_pf = prefixes_fail c bs (cuts (List.length bs)) in
  (bs, ok_rt, ok_pf)

let () =
  try
    while true do
      let line = input_line stdin in
      if line <> "" then begin
        let toks = List.filter (fun s -> s <> "") (String.split_on_char ' ' line) in
        let out =
          try
            let f = parse toks in
            if not (wf_fnb f) then "bad a field is outside the range of its Rust type"
            else if not (refs_ok f) then "bad an instruction refers to a string / inner function / jump target that does not exist"
            else begin
              let (bf, rtf, pff) = check Fixed f in
              let (bv, rtv, pfv) = check Varint f in
              if not (rtf && rtv) then "bad model round trip failed"
              else if not (pff && pfv) then "bad a strict prefix decoded"
              else Printf.sprintf "ok F=%s V=%s" (hex_of_bytes bf) (hex_of_bytes bv)
            end
          with
          | Unmodelled m -> "unmodelled " ^ m
          | Failure m -> "bad input: " ^ m
        in
        print_endline out
      end
    done
  with End_of_file -> ()
