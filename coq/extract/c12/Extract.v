From Coq Require Extraction ExtrOcamlBasic.
From GVgen Require Import InstrGen InstrCodecGen.
From GV Require Import VM.Codec.
Extraction Language OCaml.
Extraction "model.ml" enc_fn decode_fn wf_fnb refs_ok prefixes_fail instr_table instr_build shape_tys.
