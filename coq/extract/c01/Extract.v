From Coq Require Extraction ExtrOcamlBasic.
From GV Require Import Lang.Syntax Lang.Eval.
Extraction Language OCaml.
Extraction "model.ml" run eval.
