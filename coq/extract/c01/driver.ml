(* Line-protocol driver of the MiniGluon reference semantics (coq/theories/Lang/Eval.v).
   stdin : one program per line, `(prog (types …) <expr> <type>)` (a line `=` repeats the previous
           program: the harness runs each program in several styles / settings) as written by
           harness/src/mg/sexp.rs (types and the result type are ignored: tags are resolved).
   stdout: one canonical outcome per line, in exactly the format of
           harness/src/mg/run.rs `Outcome::canonical`:
             (val <value> (log n…)) | (err explicit b… (log n…)) | (err unmatched|arith (log n…))
           plus two outcomes only the model has: (stuck (log n…)) and (fuel).
   The driver is glue: it interns names (identifier -> N; `_k` -> k, the tuple-field
   convention of Syntax.v), converts decimal integers to the extracted Z and back, and prints. *)
open Model

let fuel_default = 200000

(* ---- numbers ---- *)
let rec pos_of_int64 (n : int64) : positive =
  (* n > 0 as unsigned *)
  if n = 1L then XH
  else if Int64.logand n 1L = 0L then XO (pos_of_int64 (Int64.shift_right_logical n 1))
  else XI (pos_of_int64 (Int64.shift_right_logical n 1))
let z_of_int64 (n : int64) : z =
  if n = 0L then Z0 else if n > 0L then Zpos (pos_of_int64 n) else Zneg (pos_of_int64 (Int64.neg n))
  (* Int64.neg min_int = min_int, whose unsigned reading is 2^63: correct magnitude *)
let z_of_string s = z_of_int64 (Int64.of_string s)
let n_of_int (n : int) : n = if n = 0 then N0 else Npos (pos_of_int64 (Int64.of_int n))
let rec int64_of_pos = function
  | XH -> 1L
  | XO p -> Int64.shift_left (int64_of_pos p) 1
  | XI p -> Int64.logor (Int64.shift_left (int64_of_pos p) 1) 1L
let int64_of_z = function Z0 -> 0L | Zpos p -> int64_of_pos p | Zneg p -> Int64.neg (int64_of_pos p)
let int_of_n = function N0 -> 0 | Npos p -> Int64.to_int (int64_of_pos p)
let nat_of_int n = let r = ref O in for _ = 1 to n do r := S !r done; !r

(* ---- names ---- *)
let tbl : (string, int) Hashtbl.t = Hashtbl.create 64
let names : (int, string) Hashtbl.t = Hashtbl.create 64
let next = ref 1000
let is_tuple_field s =
  String.length s >= 2 && s.[0] = '_' &&
  (let ok = ref true in String.iteri (fun i c -> if i > 0 && not (c >= '0' && c <= '9') then ok := false) s; !ok)
let intern (s : string) : n =
  if is_tuple_field s && String.length s <= 4 then n_of_int (int_of_string (String.sub s 1 (String.length s - 1)))
  else match Hashtbl.find_opt tbl s with
    | Some i -> n_of_int i
    | None -> let i = !next in incr next; Hashtbl.add tbl s i; Hashtbl.add names i s; n_of_int i
let name_of (x : n) : string =
  let i = int_of_n x in
  if i < 1000 then "_" ^ string_of_int i
  else match Hashtbl.find_opt names i with Some s -> s | None -> "?" ^ string_of_int i

(* ---- reader ---- *)
open Sexp
exception Bad of string
let atom = function Atom a -> a | List _ -> raise (Bad "atom expected")
let bytes_of items = List.map (fun x -> n_of_int (int_of_string (atom x))) items
let z_of_hex s = z_of_int64 (Int64.of_string ("0x" ^ s))

let rd_lit = function
  | List [Atom "int"; Atom n] -> LInt (z_of_string n)
  | List [Atom "byte"; Atom n] -> LByte (z_of_string n)
  | List [Atom "char"; Atom n] -> LChar (z_of_string n)
  | List (Atom "str" :: bs) -> LStr (bytes_of bs)
  | List [Atom "f64"; Atom h] -> LFloat (z_of_hex h)
  | _ -> raise (Bad "literal")

let rec rd_pat = function
  | List [Atom "pwild"] -> PWild
  | List [Atom "pvar"; Atom x] -> PVar (intern x)
  | List [Atom "plit"; l] -> PLit (rd_lit l)
  | List (Atom "pcon" :: Atom _ :: Atom tag :: ps) -> PCon (n_of_int (int_of_string tag), List.map rd_pat ps)
  | List [Atom "prcd"; List fs] ->
      PRcd (List.map (function List [Atom l; p] -> (intern l, rd_pat p) | _ -> raise (Bad "prcd field")) fs)
  | List (Atom "ptup" :: ps) -> PTup (List.map rd_pat ps)
  | List [Atom "pas"; Atom x; p] -> PAs (intern x, rd_pat p)
  | _ -> raise (Bad "pattern")

let rd_op = function
  | "int_add" -> IntAdd | "int_sub" -> IntSub | "int_mul" -> IntMul | "int_div" -> IntDiv
  | "int_eq" -> IntEq | "int_lt" -> IntLt
  | "byte_add" -> ByteAdd | "byte_sub" -> ByteSub | "byte_mul" -> ByteMul | "byte_div" -> ByteDiv
  | "byte_eq" -> ByteEq | "byte_lt" -> ByteLt
  | s -> raise (Bad ("primop " ^ s))

let rec rd = function
  | List [Atom ("int" | "byte" | "char" | "f64"); _] as l -> ELit (rd_lit l)
  | List (Atom "str" :: _) as l -> ELit (rd_lit l)
  | List [Atom "var"; Atom x] -> EVar (intern x)
  | List [Atom "lam"; List xs; b] -> ELam (List.map (fun x -> intern (atom x)) xs, rd b)
  | List (Atom "app" :: f :: args) -> EApp (rd f, List.map rd args)
  | List [Atom "let"; p; e1; e2] -> ELet (rd_pat p, rd e1, rd e2)
  | List [Atom "rec"; List bs; body] ->
      ERec (List.map (function
              | List [Atom f; List xs; b] -> (intern f, (List.map (fun x -> intern (atom x)) xs, rd b))
              | _ -> raise (Bad "rec binding")) bs, rd body)
  | List [Atom "if"; c; t; f] -> EIf (rd c, rd t, rd f)
  | List [Atom "prim"; Atom op; a; b] -> EPrim (rd_op op, rd a, rd b)
  | List [Atom "and"; a; b] -> EAnd (rd a, rd b)
  | List [Atom "or"; a; b] -> EOr (rd a, rd b)
  | List [Atom "rcd"; List fs] -> ERcd (rd_fields fs)
  | List [Atom "rcdu"; List fs; base] -> ERcdU (rd_fields fs, rd base)
  | List [Atom "proj"; e; Atom l] -> EProj (rd e, intern l)
  | List (Atom "tup" :: es) -> ETup (List.map rd es)
  | List (Atom "con" :: Atom _ :: Atom tag :: es) -> ECon (n_of_int (int_of_string tag), List.map rd es)
  | List (Atom "arr" :: es) -> EArr (List.map rd es)
  | List [Atom "aidx"; a; i] -> EAIdx (rd a, rd i)
  | List [Atom "alen"; a] -> EALen (rd a)
  | List [Atom "match"; s; List alts] ->
      EMatch (rd s, List.map (function List [p; e] -> (rd_pat p, rd e) | _ -> raise (Bad "alternative")) alts)
  | List [Atom "seq"; a; b] -> ESeq (rd a, rd b)
  | List (Atom "error" :: bs) -> EError (bytes_of bs)
  | List [Atom "eff"; e] -> EEff (rd e)
  | List [Atom "ann"; e; _] -> EAnn (rd e)
  | List (Atom h :: _) -> raise (Bad ("expression " ^ h))
  | _ -> raise (Bad "expression")
and rd_fields fs = List.map (function List [Atom l; e] -> (intern l, rd e) | _ -> raise (Bad "field")) fs

(* ---- printer ---- *)
let rec show_value b = function
  | VInt z -> Buffer.add_string b (Printf.sprintf "(int %Ld)" (int64_of_z z))
  | VByte z -> Buffer.add_string b (Printf.sprintf "(byte %Ld)" (int64_of_z z))
  | VFloat z -> Buffer.add_string b (Printf.sprintf "(f64 %016Lx)" (int64_of_z z))
  | VStr s ->
      Buffer.add_string b "(str";
      List.iter (fun c -> Buffer.add_string b (Printf.sprintf " %d" (int_of_n c))) s;
      Buffer.add_char b ')'
  | VData (tag, vs) ->
      Buffer.add_string b (Printf.sprintf "(data %d" (int_of_n tag));
      List.iter (fun v -> Buffer.add_char b ' '; show_value b v) vs;
      Buffer.add_char b ')'
  | VRcd fs ->
      Buffer.add_string b "(rcd";
      List.iter (fun (l, v) -> Buffer.add_string b (" (" ^ name_of l ^ " "); show_value b v; Buffer.add_char b ')') fs;
      Buffer.add_char b ')'
  | VArr vs ->
      Buffer.add_string b "(arr";
      List.iter (fun v -> Buffer.add_char b ' '; show_value b v) vs;
      Buffer.add_char b ')'
  | VClo _ | VPap _ -> Buffer.add_string b "(fun)"

let show_log b (l : z list) =
  Buffer.add_string b "(log";
  List.iter (fun z -> Buffer.add_string b (Printf.sprintf " %Ld" (int64_of_z z))) (List.rev l);
  Buffer.add_char b ')'

let show (r, l) =
  let b = Buffer.create 256 in
  (match r with
   | Ok v -> Buffer.add_string b "(val "; show_value b v; Buffer.add_char b ' '; show_log b l; Buffer.add_char b ')'
   | Fail (Explicit msg) ->
       Buffer.add_string b "(err explicit";
       List.iter (fun c -> Buffer.add_string b (Printf.sprintf " %d" (int_of_n c))) msg;
       Buffer.add_char b ' '; show_log b l; Buffer.add_char b ')'
   | Fail Unmatched -> Buffer.add_string b "(err unmatched "; show_log b l; Buffer.add_char b ')'
   | Fail Arith -> Buffer.add_string b "(err arith "; show_log b l; Buffer.add_char b ')'
   | Stuck -> Buffer.add_string b "(stuck "; show_log b l; Buffer.add_char b ')'
   | OutOfFuel -> Buffer.add_string b "(fuel)");
  Buffer.contents b

let () =
  let fuel =
    match Sys.getenv_opt "MG_FUEL" with Some s -> int_of_string s | None -> fuel_default in
  let fuel = nat_of_int fuel in
  let last_in = ref "" and last_out = ref "" in
  try
    while true do
      let line = input_line stdin in
      if line = "=" || (line <> "" && line = !last_in) then print_endline !last_out   (* same program, other style *)
      else if line <> "" then begin
        let out =
          try
            match Sexp.parse line with
            | List [Atom "prog"; _; e; _] -> show (run fuel (rd e))
            | e -> show (run fuel (rd e))
          with
          | Bad m -> "(err malformed " ^ m ^ ")"
          | Sexp.Parse_error m -> "(err malformed " ^ m ^ ")"
          | Stack_overflow -> "(err model-stack-overflow)"
        in
        last_in := line; last_out := out;
        print_endline out
      end
    done
  with End_of_file -> ()
