From Coq Require Extraction ExtrOcamlBasic.
From GVgen Require Import InstrGen InstrCodecGen.
From GV Require Import VM.Codec VM.Machine VM.LoadModel.
Extraction Language OCaml.
Extraction "model.ml" decode_fn wf_fnb refs_ok run_fn load_and_run instr_table instr_build shape_tys.
