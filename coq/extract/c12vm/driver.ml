(* C12 — "load the REAL serialised module on the MODEL VM".  One module per stdin line:

     G n { global-name k { field-name } }        the module's globals and the value fields of their record types
     R rtree                                      rtree ::= nrec { k { name } } ninner { rtree }   (record field names)
     F hex                                        the function skeleton as bincode legacy() wrote it (slices of the real module)
     V hex                                        ... as bincode standard() wrote it
     J skeleton                                   ... as read off the JSON text (same grammar as coq/extract/c12/driver.ml)
   all on one line in this order, names hex encoded (`-` = empty).

   The F and V bytes are decoded with the extracted [decode_fn] (VM/Codec.v); the J skeleton is parsed; the three
   functions must be structurally equal; the decoded function is embedded into the model VM's program table
   ([run_fn] = VM/LoadModel.v over VM/Machine.v) and run.  Reply: the canonical outcome in the format of
   coq/extract/c01vm/driver.ml, or `(bad <reason>)`.  Glue only: parsing, extern table, printing. *)
open Model

let fuel_default = 3000000

let rec pos_of_int64 (n : int64) : positive =
  if n = 1L then XH
  else if Int64.logand n 1L = 0L then XO (pos_of_int64 (Int64.shift_right_logical n 1))
  else XI (pos_of_int64 (Int64.shift_right_logical n 1))
let z_of_i64 (n : int64) : z =
  if n = 0L then Z0 else if Int64.compare n 0L > 0 then Zpos (pos_of_int64 n) else Zneg (pos_of_int64 (Int64.neg n))
let n_of_u64 (n : int64) : n = if n = 0L then N0 else Npos (pos_of_int64 n)
let n_of_int (n : int) : n = n_of_u64 (Int64.of_int n)
let rec int64_of_pos = function
  | XH -> 1L
  | XO p -> Int64.shift_left (int64_of_pos p) 1
  | XI p -> Int64.logor (Int64.shift_left (int64_of_pos p) 1) 1L
let int64_of_z = function Z0 -> 0L | Zpos p -> int64_of_pos p | Zneg p -> Int64.neg (int64_of_pos p)
let int_of_n = function N0 -> 0 | Npos p -> Int64.to_int (int64_of_pos p)
let nat_of_int n = let r = ref O in for _ = 1 to n do r := S !r done; !r
let rec int_of_nat = function O -> 0 | S n -> 1 + int_of_nat n
let u64_of_string s = Int64.of_string ("0u" ^ s)

exception Bad of string

let bytes_of_string s = List.init (String.length s) (fun i -> n_of_int (Char.code s.[i]))
let string_of_str (s : n list) : string = String.concat "" (List.map (fun c -> String.make 1 (Char.chr (int_of_n c land 255))) s)
let unhex s =
  if s = "-" then []
  else List.init (String.length s / 2) (fun i -> n_of_int (int_of_string ("0x" ^ String.sub s (2 * i) 2)))
let unhex_string s = string_of_str (unhex s)

(* ---- the JSON skeleton (same reader as coq/extract/c12/driver.ml) ---- *)
let lookup name =
  let nb = bytes_of_string name in
  let rec go k = function
    | [] -> raise (Bad ("unknown instruction variant " ^ name))
    | (n, sh) :: rest -> if n = nb then (k, sh) else go (k + 1) rest
  in go 0 instr_table

let value_of ty (tok : string) =
  let is_float = String.length tok > 0 && tok.[0] = 'f' in
  match ty with
  | FI64 -> if is_float then raise (Bad "float where an i64 is declared") else VI64 (z_of_i64 (Int64.of_string tok))
  | FU8 -> VU8 (n_of_u64 (u64_of_string tok))
  | FU32 -> VU32 (n_of_u64 (u64_of_string tok))
  | FF64 ->
      if is_float then VF64 (n_of_u64 (u64_of_string (String.sub tok 1 (String.length tok - 1))))
      else VF64 (n_of_u64 (Int64.bits_of_float (float_of_string tok)))

type reader = { mutable toks : string list }
let next r = match r.toks with t :: rest -> r.toks <- rest; t | [] -> raise (Bad "unexpected end of line")
let int r = int_of_string (next r)
let rec times n f = if n <= 0 then [] else let x = f () in x :: times (n - 1) f
let expect r t = if next r <> t then raise (Bad ("expected " ^ t))

let instr r =
  let name = next r in
  let k = int r in
  let fields = times k (fun () -> let f = next r in let v = next r in (f, v)) in
  let (idx, sh) = lookup name in
  let vals =
    match sh with
    | SUnit -> []
    | SNewtype t -> (match fields with [("_", v)] -> [value_of t v] | _ -> raise (Bad (name ^ ": newtype variant expected")))
    | SStruct fs ->
        List.map (fun (fname, t) ->
          match List.find_opt (fun (f, _) -> bytes_of_string f = fname) fields with
          | Some (_, v) -> value_of t v
          | None -> raise (Bad (name ^ ": missing field"))) fs
  in
  match instr_build (nat_of_int idx) vals with
  | Some i -> i
  | None -> raise (Bad (name ^ ": builder refused the fields"))

let rec fn r =
  expect r "fn";
  let a = n_of_u64 (u64_of_string (next r)) in
  let m = n_of_u64 (u64_of_string (next r)) in
  let ni = int r in
  let ins = times ni (fun () -> instr r) in
  let nf = int r in
  let inner = times nf (fun () -> fn r) in
  let ns = int r in
  let strs = times ns (fun () -> unhex (next r)) in
  Fn (a, m, ins, inner, strs)

let rec rtree r =
  let nrec = int r in
  let recs = times nrec (fun () -> let k = int r in times k (fun () -> unhex (next r))) in
  let ninner = int r in
  let inner = times ninner (fun () -> rtree r) in
  RT (recs, inner)

let ext_of g f =
  match g, f with
  | "std.prim", "error" -> MExt XError
  | "std.prim", "string_eq" -> MExt XStringEq
  | "mg.prim", "eff" -> MExt XEff
  | "std.array.prim", "index" -> MExt XArrayIndex
  | "std.array.prim", "len" -> MExt XArrayLen
  | _ -> MUnknown

let global r =
  let g = unhex_string (next r) in
  let k = int r in
  let fields = times k (fun () -> unhex_string (next r)) in
  if fields = [] then MTag N0
  else MData (N0, List.map bytes_of_string fields, List.map (fun f -> ext_of g f) fields)

(* ---- printing (format of coq/extract/c01vm/driver.ml) ---- *)
let rec show_value store depth b (v : mval) =
  let add = Buffer.add_string b in
  let list vs = List.iter (fun v -> Buffer.add_char b ' '; show_value store (depth + 1) b v) vs in
  if depth > 200 then add "(deep)" else
  match v with
  | MInt z -> add (Printf.sprintf "(int %Ld)" (int64_of_z z))
  | MByte z -> add (Printf.sprintf "(byte %Ld)" (int64_of_z z))
  | MFloat z -> add (Printf.sprintf "(f64 %016Lx)" (int64_of_z z))
  | MStr s -> add "(str"; List.iter (fun c -> add (Printf.sprintf " %d" (int_of_n c))) s; add ")"
  | MTag t -> add (Printf.sprintf "(data %d)" (int_of_n t))
  | MData (tag, names, fields) ->
      if names <> [] && List.length names = List.length fields then begin
        add "(rcd";
        List.iter2 (fun n f -> add (" (" ^ string_of_str n ^ " "); show_value store (depth + 1) b f; add ")") names fields;
        add ")"
      end else begin add (Printf.sprintf "(data %d" (int_of_n tag)); list fields; add ")" end
  | MArr vs -> add "(arr"; list vs; add ")"
  | MClo _ | MPap _ | MExt _ -> add "(fun)"
  | MRef a ->
      (match List.nth_opt store (int_of_nat a) with
       | Some (CClo _) -> add "(fun)"
       | Some (CData (t, ns, fs)) -> show_value store (depth + 1) b (MData (t, ns, fs))
       | None -> add "(dangling)")
  | MUnknown -> add "(unknown)"

let show_log b (l : z list) =
  Buffer.add_string b "(log";
  List.iter (fun z -> Buffer.add_string b (Printf.sprintf " %Ld" (int64_of_z z))) (List.rev l);
  Buffer.add_char b ')'

let unmatched = bytes_of_string "Unmatched pattern"

let show (r, l) =
  let b = Buffer.create 256 in
  let add = Buffer.add_string b in
  (match r with
   | VOk (v, store) -> add "(val "; show_value store 0 b v; add " "; show_log b l; add ")"
   | VFail VArith -> add "(err arith "; show_log b l; add ")"
   | VFail (VPanic m) when m = unmatched -> add "(err unmatched "; show_log b l; add ")"
   | VFail (VPanic m) ->
       add "(err explicit"; List.iter (fun c -> add (Printf.sprintf " %d" (int_of_n c))) m; add " "; show_log b l; add ")"
   | VStuck k when int_of_nat k = 5 -> add "(skip unsupported-instruction)"
   | VStuck k -> add (Printf.sprintf "(stuck %d " (int_of_nat k)); show_log b l; add ")"
   | VOutOfFuel -> add "(fuel)");
  Buffer.contents b

let () =
  let fuel = match Sys.getenv_opt "MG_VM_FUEL" with Some s -> int_of_string s | None -> fuel_default in
  let fuel = nat_of_int fuel in
  try
    while true do
      let line = input_line stdin in
      if line <> "" then begin
        let out =
          try
            let r = { toks = List.filter (fun s -> s <> "") (String.split_on_char ' ' line) } in
            expect r "G";
            let ng = int r in
            let globals = times ng (fun () -> global r) in
            expect r "R";
            let rt = rtree r in
            expect r "F";
            let fbytes = unhex (next r) in
            expect r "V";
            let vbytes = unhex (next r) in
            expect r "J";
            let fj = fn r in
            if r.toks <> [] then raise (Bad "trailing tokens");
            (* the real bytes, through the extracted decoder *)
            match decode_fn Fixed fbytes, decode_fn Varint vbytes with
            | Some (ff, []), Some (fv, []) ->
                if ff <> fv then "(bad the bincode-fixed and bincode-varint modules decode to different functions)"
                else if ff <> fj then "(bad the bincode module and the JSON module hold different functions)"
                else if not (wf_fnb ff) then "(bad decoded function outside the ranges of its Rust types)"
                else begin
                  (* loading on the model VM = load_and_run; both encodings (they agree by the theorem) *)
                  match load_and_run Fixed rt globals fuel fbytes with
                  | Some res -> show res
                  | None -> "(bad load_and_run refused what decode_fn accepted)"
                end
            | Some (_, _ :: _), _ | _, Some (_, _ :: _) -> "(bad bytes left over after the function skeleton)"
            | None, _ -> "(bad the extracted decoder rejects the real bincode-fixed skeleton bytes)"
            | _, None -> "(bad the extracted decoder rejects the real bincode-varint skeleton bytes)"
          with
          | Bad m -> "(bad input: " ^ m ^ ")"
          | Failure m -> "(bad input: " ^ m ^ ")"
          | Stack_overflow -> "(err model-stack-overflow)"
        in
        print_endline out
      end
    done
  with End_of_file -> ()
