(* Line protocol driver for the C08 span and layout validators (extracted from
   coq/theories/Front/SpanCheck.v and LayoutCheck.v).  One case per input line:

     S <hex source>;<tree>       tree ::= "(" lo hi leaf tree* ")"
                                 leaf ::= "-" | "i:"hex | "n:"int | "b:"int | "s" | "c" | "f"
       reply: `ok` | `fail <span|leaf|child> <lo> <hi> <leaf of that node>`
     L <clean 0|1>;<raw tokens>;<layout tokens>      tokens ::= (kind start end)* as decimals
       reply: `ok` | `fail <erase|balance|position|prefix>`

     M (<tk> <code> <line> <col> <lo> <hi>)*       the raw token stream for the layout MODEL (Layout.v)
       reply: `ok|err|panic|hang|fuel (<code> <lo> <hi>)*`   the model's output stream

     C (<tk> <code> <line> <col> <lo> <hi>)*       the same raw token stream as for M
       reply: `clean|unclean balanced|unbalanced`     LayoutBalanced.clean_run of the stream, and whether
                                                      the model's output reads as a balanced bracket word
                                                      (LayoutBalanced.bal [] out = Some [])
     E <canonical tree>TAB<canonical tree>          the two sides of a round trip case
       reply: `eq` | `ne`                             verdict of the extracted [ast_eqb] (AstEq.v)

   The driver only converts text to the extracted data types and back. *)
open Model

let rec pos_of_int n =
  if n = 1 then XH else if n land 1 = 0 then XO (pos_of_int (n lsr 1)) else XI (pos_of_int (n lsr 1))
let n_of_int n = if n <= 0 then N0 else Npos (pos_of_int n)
let rec int_of_pos = function XH -> 1 | XO p -> 2 * int_of_pos p | XI p -> 2 * int_of_pos p + 1
let int_of_n = function N0 -> 0 | Npos p -> int_of_pos p

(* decimal text (possibly with a leading '-', possibly beyond 63 bits) -> Z, by Horner on positives *)
let rec pos_add_int p k = (* p + k, k small >= 0 *) 
  let rec succ = function XH -> XO XH | XO p -> XI p | XI p -> XO (succ p) in
  if k = 0 then p else pos_add_int (succ p) (k - 1)
let pos_mul10 p = (* 10p = 8p + 2p *)
  let rec add x y = match x, y with
    | XH, XH -> XO XH
    | XH, XO q | XO q, XH -> XI q
    | XH, XI q | XI q, XH -> XO (succ q)
    | XO a, XO b -> XO (add a b)
    | XO a, XI b | XI a, XO b -> XI (add a b)
    | XI a, XI b -> XO (add_carry a b)
  and add_carry x y = match x, y with
    | XH, XH -> XI XH
    | XH, XO q | XO q, XH -> XO (succ q)
    | XH, XI q | XI q, XH -> XI (succ q)
    | XO a, XO b -> XI (add a b)
    | XO a, XI b | XI a, XO b -> XO (add_carry a b)
    | XI a, XI b -> XI (add_carry a b)
  and succ = function XH -> XO XH | XO p -> XI p | XI p -> XO (succ p) in
  add (XO (XO (XO p))) (XO p)
let n_of_decimal (s : string) : n =
  let acc = ref N0 in
  String.iter (fun c ->
    let d = Char.code c - 48 in
    acc := (match !acc with
      | N0 -> n_of_int d
      | Npos p -> Npos (pos_add_int (pos_mul10 p) d))) s;
  !acc
let z_of_decimal (s : string) : z =
  let neg = String.length s > 0 && s.[0] = '-' in
  let body = if neg then String.sub s 1 (String.length s - 1) else s in
  match n_of_decimal body with
  | N0 -> Z0
  | Npos p -> if neg then Zneg p else Zpos p

let bytes_of_hex (h : string) : n list =
  if h = "-" then [] else begin
    let len = String.length h / 2 in
    let rec go i acc = if i < 0 then acc else go (i - 1) (n_of_int (int_of_string ("0x" ^ String.sub h (2 * i) 2)) :: acc) in
    go (len - 1) []
  end

let split c s = if s = "" then [] else String.split_on_char c s

let parse_leaf (s : string) : leaf =
  if s = "-" then LNone
  else if s = "s" then LStr else if s = "c" then LChar else if s = "f" then LFloat
  else
    let body = String.sub s 2 (String.length s - 2) in
    match s.[0] with
    | 'i' -> LIdent (bytes_of_hex body)
    | 'n' -> LInt (z_of_decimal body)
    | 'b' -> LByte (n_of_decimal body)
    | _ -> failwith ("bad leaf " ^ s)

let leaf_text : (int * int, string) Hashtbl.t = Hashtbl.create 64

let parse_tree (toks : string array) : stree =
  Hashtbl.reset leaf_text;
  let i = ref 0 in
  let next () = let t = toks.(!i) in incr i; t in
  let rec node () =
    if next () <> "(" then failwith "expected (";
    let slo = next () in
    let shi = next () in
    let lo = n_of_decimal slo in
    let hi = n_of_decimal shi in
    let slf = next () in
    if slf <> "-" then Hashtbl.replace leaf_text (int_of_string slo, int_of_string shi) slf;
    let lf = parse_leaf slf in
    let cs = ref [] in
    while toks.(!i) <> ")" do cs := node () :: !cs done;
    ignore (next ());
    SNode (lo, hi, lf, List.rev !cs)
  in
  node ()

let parse_toks (s : string) : tok list =
  let a = Array.of_list (List.filter (fun x -> x <> "") (split ' ' s)) in
  let n = Array.length a / 3 in
  let rec go i acc =
    if i < 0 then acc
    else go (i - 1) ({ kind = n_of_decimal a.(3 * i); lo = n_of_decimal a.(3 * i + 1); hi = n_of_decimal a.(3 * i + 2) } :: acc)
  in
  go (n - 1) []

let do_span rest =
  match String.index_opt rest ';' with
  | None -> "bad-input"
  | Some k ->
      let src = bytes_of_hex (String.sub rest 0 k) in
      let toks = Array.of_list (List.filter (fun x -> x <> "") (split ' ' (String.sub rest (k + 1) (String.length rest - k - 1)))) in
      (* a negative offset cannot be represented: the exporter writes it with '-', reject *)
      if Array.exists (fun t -> String.length t > 1 && t.[0] = '-' && t.[1] >= '0' && t.[1] <= '9') toks then "fail span negative-offset"
      else begin
        let t = parse_tree toks in
        if spans_ok src t then "ok"
        else match first_bad src (lenN src) t with
          | Some ((w, lo), hi) ->
              let l = int_of_n lo and h = int_of_n hi in
              Printf.sprintf "fail %s %d %d %s" (match w with WSpan -> "span" | WLeaf -> "leaf" | WChild -> "child") l h
                (match Hashtbl.find_opt leaf_text (l, h) with Some s -> s | None -> "-")
          | None -> "fail ?"
      end

let do_layout rest =
  match split ';' rest with
  | [c; a; b] | [c; a; b; _] ->
      let clean = c = "1" in
      let a = parse_toks a and b = parse_toks b in
      if layout_ok clean a b then "ok"
      else if not clean then "fail prefix"
      else (match int_of_n (which_fails a b) with 1 -> "fail erase" | 2 -> "fail balance" | 3 -> "fail position" | _ -> "fail ?")
  | [c; a] -> (* empty layout stream *)
      let clean = c = "1" in
      if layout_ok clean (parse_toks a) [] then "ok" else "fail empty"
  | _ -> "bad-input"

(* s-expression reader for the comparator: atoms are maximal runs of non-blank, non-parenthesis
   bytes; an unmatched ")" is an atom, unclosed nodes are closed at the end of the line (the
   implementation side may be an error message rather than a tree) *)
let sx_of_string (s : string) : sx =
  let n = String.length s in
  let stack = ref [] and cur = ref [] in
  let atom a = cur := Atom (List.init (String.length a) (fun i -> n_of_int (Char.code a.[i]))) :: !cur in
  let i = ref 0 in
  while !i < n do
    (match s.[!i] with
     | ' ' -> incr i
     | '(' -> stack := !cur :: !stack; cur := []; incr i
     | ')' ->
         (match !stack with
          | top :: rest -> cur := Node (List.rev !cur) :: top; stack := rest
          | [] -> atom ")");
         incr i
     | _ ->
         let j = ref !i in
         while !j < n && s.[!j] <> ' ' && s.[!j] <> '(' && s.[!j] <> ')' do incr j done;
         atom (String.sub s !i (!j - !i));
         i := !j)
  done;
  List.iter (fun top -> cur := Node (List.rev !cur) :: top) !stack;
  Node (List.rev !cur)

let do_eq rest =
  match String.index_opt rest '\t' with
  | None -> "bad-input"
  | Some k ->
      let a = String.sub rest 0 k and b = String.sub rest (k + 1) (String.length rest - k - 1) in
      if ast_eqb (sx_of_string a) (sx_of_string b) then "eq" else "ne"

let tk_of_int = function
  | 0 -> TEOF | 1 -> TShebang | 2 -> TComma | 3 -> TIn | 4 -> TCloseBlock | 5 -> TOpenBlock | 6 -> TSemi
  | 7 -> TElse | 8 -> TRBrace | 9 -> TRBracket | 10 -> TRParen | 11 -> TPipe | 12 -> TAttributeOpen
  | 13 -> TDocComment | 14 -> TRec | 15 -> TType | 16 -> TLet | 17 -> TDo | 18 -> TSeq | 19 -> TIf
  | 20 -> TMatch | 21 -> TLambda | 22 -> TLBrace | 23 -> TLBracket | 24 -> TLParen | 25 -> TEquals
  | 26 -> TRArrow | 27 -> TThen | 28 -> TWith | _ -> TOther

let do_model rest =
  let a = Array.of_list (List.filter (fun x -> x <> "") (split ' ' rest)) in
  let n = Array.length a / 6 in
  let rec go i acc =
    if i < 0 then acc
    else
      let f j = n_of_decimal a.(6 * i + j) in
      go (i - 1) ({ k = tk_of_int (int_of_string a.(6 * i)); code = f 1; line = f 2; col = f 3; mlo = f 4; mhi = f 5 } :: acc)
  in
  let raw = go (n - 1) [] in
  let show st out =
    let b = Buffer.create 256 in
    Buffer.add_string b st;
    List.iter (fun t -> Buffer.add_string b (Printf.sprintf " %d %d %d" (int_of_n t.code) (int_of_n t.mlo) (int_of_n t.mhi))) out;
    Buffer.contents b
  in
  match layout raw with
  | ROk out -> show "ok" out
  | RErr out -> show "err" out
  | RPanic out -> show "panic" out
  | RHang out -> show "hang" out
  | RFuel out -> show "fuel" out

let do_clean rest =
  let a = Array.of_list (List.filter (fun x -> x <> "") (split ' ' rest)) in
  let n = Array.length a / 6 in
  let rec go i acc =
    if i < 0 then acc
    else
      let f j = n_of_decimal a.(6 * i + j) in
      go (i - 1) ({ k = tk_of_int (int_of_string a.(6 * i)); code = f 1; line = f 2; col = f 3; mlo = f 4; mhi = f 5 } :: acc)
  in
  let raw = go (n - 1) [] in
  let c = if clean_run raw then "clean" else "unclean" in
  let b = match layout raw with
    | ROk out -> (match bal [] out with Some [] -> "balanced" | _ -> "unbalanced")
    | _ -> "not-ok" in
  c ^ " " ^ b

let () =
  try
    while true do
      let line = input_line stdin in
      if String.length line >= 2 then begin
        let rest = String.sub line 2 (String.length line - 2) in
        let r = try (match line.[0] with 'S' -> do_span rest | 'L' -> do_layout rest | 'M' -> do_model rest | 'C' -> do_clean rest | 'E' -> do_eq rest | _ -> "bad-input")
                with e -> "driver-error " ^ Printexc.to_string e in
        print_endline r
      end
    done
  with End_of_file -> ()
