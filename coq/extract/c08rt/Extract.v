From Coq Require Extraction ExtrOcamlBasic.
From GV Require Import Front.SpanCheck Front.LayoutCheck Front.Layout Front.AstEq Front.LayoutBalanced.
Extraction Language OCaml.
Extraction "model.ml" spans_ok first_bad layout_ok which_fails layout ast_eqb clean_run bal.
