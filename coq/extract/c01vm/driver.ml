(* Line-protocol driver of the model VM (coq/theories/VM/Machine.v) on REAL gluon bytecode.
   stdin : one module per line as written by harness/src/mg/bytecode.rs
             (module (globals (NAME FIELD…)…) FN)     FN ::= (fn ARGS (INSTR…) (strings (b…)…) (records (NAME…)…) (inner FN…))
           or `skip <reason>` (echoed as `(skip <reason>)`); a line `=` repeats the previous answer.
   stdout: one canonical outcome per line in the format of mg::run::Outcome::canonical, with the
           untyped rendering of unit / empty records `(data 0)`:
             (val <v> (log n…)) | (err explicit b… (log …)) | (err unmatched (log …)) | (err arith (log …))
           and, only from the model: (stuck <code> (log …)) | (skip unsupported-instruction) | (fuel).
   Glue only: reading, flattening the function tree into the program table (pre-order ids),
   mapping the externs std.prim.error / string_eq, mg.prim.eff, std.array.prim.index / len to
   the model's built-ins (every other global field is MUnknown), printing. *)
open Model

let fuel_default = 3000000

let rec pos_of_int64 (n : int64) : positive =
  if n = 1L then XH
  else if Int64.logand n 1L = 0L then XO (pos_of_int64 (Int64.shift_right_logical n 1))
  else XI (pos_of_int64 (Int64.shift_right_logical n 1))
let z_of_int64 (n : int64) : z =
  if n = 0L then Z0 else if n > 0L then Zpos (pos_of_int64 n) else Zneg (pos_of_int64 (Int64.neg n))
let n_of_int64 (n : int64) : n = if n = 0L then N0 else Npos (pos_of_int64 n)
let n_of_int (n : int) : n = n_of_int64 (Int64.of_int n)
let rec int64_of_pos = function
  | XH -> 1L
  | XO p -> Int64.shift_left (int64_of_pos p) 1
  | XI p -> Int64.logor (Int64.shift_left (int64_of_pos p) 1) 1L
let int64_of_z = function Z0 -> 0L | Zpos p -> int64_of_pos p | Zneg p -> Int64.neg (int64_of_pos p)
let int_of_n = function N0 -> 0 | Npos p -> Int64.to_int (int64_of_pos p)
let nat_of_int n = let r = ref O in for _ = 1 to n do r := S !r done; !r
let rec int_of_nat = function O -> 0 | S n -> 1 + int_of_nat n

open Sexp
exception Bad of string
let atom = function Atom a -> a | List _ -> raise (Bad "atom expected")
let str_of_string (s : string) : n list = List.init (String.length s) (fun i -> n_of_int (Char.code s.[i]))
let string_of_str (s : n list) : string = String.concat "" (List.map (fun c -> String.make 1 (Char.chr (int_of_n c land 255))) s)
let nn x = n_of_int64 (Int64.of_string (atom x))

let rd_instr = function
  | List [Atom "pi"; a] -> IPushInt (z_of_int64 (Int64.of_string (atom a)))
  | List [Atom "pb"; a] -> IPushByte (nn a)
  | List [Atom "pf"; Atom h] -> IPushFloat (n_of_int64 (Int64.of_string ("0x" ^ h)))
  | List [Atom "ps"; a] -> IPushString (nn a)
  | List [Atom "pu"; a] -> IPushUpVar (nn a)
  | List [Atom "p"; a] -> IPush (nn a)
  | List [Atom "call"; a] -> ICall (nn a)
  | List [Atom "tcall"; a] -> ITailCall (nn a)
  | List [Atom "cv"; a; b] -> IConstructVariant (nn a, nn b)
  | List [Atom "cpv"; a; b] -> IConstructPolyVariant (nn a, nn b)
  | List [Atom "nv"; a; b] -> INewVariant (nn a, nn b)
  | List [Atom "nr"; a; b] -> INewRecord (nn a, nn b)
  | List [Atom "cd"; a] -> ICloseData (nn a)
  | List [Atom "cr"; a; b] -> IConstructRecord (nn a, nn b)
  | List [Atom "ca"; a] -> IConstructArray (nn a)
  | List [Atom "go"; a] -> IGetOffset (nn a)
  | List [Atom "gf"; a] -> IGetField (nn a)
  | List [Atom "split"] -> ISplit
  | List [Atom "tt"; a] -> ITestTag (nn a)
  | List [Atom "tpt"; a] -> ITestPolyTag (nn a)
  | List [Atom "j"; a] -> IJump (nn a)
  | List [Atom "cj"; a] -> ICJump (nn a)
  | List [Atom "pop"; a] -> IPop (nn a)
  | List [Atom "slide"; a] -> ISlide (nn a)
  | List [Atom "mc"; a; b] -> IMakeClosure (nn a, nn b)
  | List [Atom "nc"; a; b] -> INewClosure (nn a, nn b)
  | List [Atom "cc"; a] -> ICloseClosure (nn a)
  | List [Atom "addi"] -> IAddInt | List [Atom "subi"] -> ISubtractInt | List [Atom "muli"] -> IMultiplyInt
  | List [Atom "divi"] -> IDivideInt | List [Atom "lti"] -> IIntLT | List [Atom "eqi"] -> IIntEQ
  | List [Atom "addb"] -> IAddByte | List [Atom "subb"] -> ISubtractByte | List [Atom "mulb"] -> IMultiplyByte
  | List [Atom "divb"] -> IDivideByte | List [Atom "ltb"] -> IByteLT | List [Atom "eqb"] -> IByteEQ
  | List [Atom "addf"] -> IAddFloat | List [Atom "subf"] -> ISubtractFloat | List [Atom "mulf"] -> IMultiplyFloat
  | List [Atom "divf"] -> IDivideFloat | List [Atom "ltf"] -> IFloatLT | List [Atom "eqf"] -> IFloatEQ
  | List [Atom "ret"] -> IReturn
  | _ -> raise (Bad "instruction")

(* flatten the function tree: ids in pre-order, main = 0 *)
let flatten (root : Sexp.t) : func list =
  let table : (int * func) list ref = ref [] in
  let next = ref 0 in
  let rec go f =
    match f with
    | List [Atom "fn"; args; List code; List (Atom "strings" :: strings); List (Atom "records" :: records); List (Atom "inner" :: inner)] ->
        let id = !next in
        incr next;
        let inner_ids = List.map go inner in
        let fn = { fn_args = nat_of_int (int_of_string (atom args));
                   fn_code = List.map rd_instr code;
                   fn_strings = List.map (function List bs -> List.map nn bs | _ -> raise (Bad "string")) strings;
                   fn_records = List.map (function List ns -> List.map (fun a -> str_of_string (atom a)) ns | _ -> raise (Bad "record")) records;
                   fn_inner = List.map nat_of_int inner_ids } in
        table := (id, fn) :: !table;
        id
    | _ -> raise (Bad "fn")
  in
  ignore (go root);
  List.map snd (List.sort (fun (a, _) (b, _) -> compare a b) !table)

let ext_of g f =
  match g, f with
  | "std.prim", "error" -> MExt XError
  | "std.prim", "string_eq" -> MExt XStringEq
  | "mg.prim", "eff" -> MExt XEff
  | "std.array.prim", "index" -> MExt XArrayIndex
  | "std.array.prim", "len" -> MExt XArrayLen
  | _ -> MUnknown

let rd_global = function
  | List (Atom g :: fields) ->
      if fields = [] then MTag N0
      else MData (N0, List.map (fun f -> str_of_string (atom f)) fields, List.map (fun f -> ext_of g (atom f)) fields)
  | _ -> raise (Bad "global")

let rec show_value store depth b (v : mval) =
  let add = Buffer.add_string b in
  let list vs = List.iter (fun v -> Buffer.add_char b ' '; show_value store (depth + 1) b v) vs in
  if depth > 200 then add "(deep)" else
  match v with
  | MInt z -> add (Printf.sprintf "(int %Ld)" (int64_of_z z))
  | MByte z -> add (Printf.sprintf "(byte %Ld)" (int64_of_z z))
  | MFloat z -> add (Printf.sprintf "(f64 %016Lx)" (int64_of_z z))
  | MStr s -> add "(str"; List.iter (fun c -> add (Printf.sprintf " %d" (int_of_n c))) s; add ")"
  | MTag t -> add (Printf.sprintf "(data %d)" (int_of_n t))
  | MData (tag, names, fields) ->
      if names <> [] && List.length names = List.length fields then begin
        add "(rcd";
        List.iter2 (fun n f -> add (" (" ^ string_of_str n ^ " "); show_value store (depth + 1) b f; add ")") names fields;
        add ")"
      end else begin add (Printf.sprintf "(data %d" (int_of_n tag)); list fields; add ")" end
  | MArr vs -> add "(arr"; list vs; add ")"
  | MClo _ | MPap _ | MExt _ -> add "(fun)"
  | MRef a ->
      (match List.nth_opt store (int_of_nat a) with
       | Some (CClo _) -> add "(fun)"
       | Some (CData (t, ns, fs)) -> show_value store (depth + 1) b (MData (t, ns, fs))
       | None -> add "(dangling)")
  | MUnknown -> add "(unknown)"

let show_log b (l : z list) =
  Buffer.add_string b "(log";
  List.iter (fun z -> Buffer.add_string b (Printf.sprintf " %Ld" (int64_of_z z))) (List.rev l);
  Buffer.add_char b ')'

let unmatched = str_of_string "Unmatched pattern"

let show (r, l) =
  let b = Buffer.create 256 in
  let add = Buffer.add_string b in
  (match r with
   | VOk (v, store) -> add "(val "; show_value store 0 b v; add " "; show_log b l; add ")"
   | VFail VArith -> add "(err arith "; show_log b l; add ")"
   | VFail (VPanic m) when m = unmatched -> add "(err unmatched "; show_log b l; add ")"
   | VFail (VPanic m) ->
       add "(err explicit"; List.iter (fun c -> add (Printf.sprintf " %d" (int_of_n c))) m; add " "; show_log b l; add ")"
   | VStuck k when int_of_nat k = 5 -> add "(skip unsupported-instruction)"
   | VStuck k -> add (Printf.sprintf "(stuck %d " (int_of_nat k)); show_log b l; add ")"
   | VOutOfFuel -> add "(fuel)");
  Buffer.contents b

let () =
  let fuel = match Sys.getenv_opt "MG_VM_FUEL" with Some s -> int_of_string s | None -> fuel_default in
  let fuel = nat_of_int fuel in
  let last = ref "" in
  try
    while true do
      let line = input_line stdin in
      if line = "=" then print_endline !last
      else if line <> "" then begin
        let out =
          if String.length line >= 4 && String.sub line 0 4 = "skip" then "(" ^ line ^ ")"
          else
            try
              match Sexp.parse line with
              | List [Atom "module"; List (Atom "globals" :: gs); f] ->
                  let prog = flatten f in
                  let globals = List.map rd_global gs in
                  show (run_module prog fuel O globals)
              | _ -> raise (Bad "module")
            with
            | Bad m -> "(err malformed " ^ m ^ ")"
            | Sexp.Parse_error m -> "(err malformed " ^ m ^ ")"
            | Failure m -> "(err malformed " ^ m ^ ")"
            | Stack_overflow -> "(err model-stack-overflow)"
        in
        last := out;
        print_endline out
      end
    done
  with End_of_file -> ()
