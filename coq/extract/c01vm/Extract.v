From Coq Require Extraction ExtrOcamlBasic.
From GV Require Import VM.Machine.
Extraction Language OCaml.
Extraction "model.ml" run_module step init.
