(* Minimal s-expression reader: atoms and parenthesised lists, one expression per string. *)
type t = Atom of string | List of t list

exception Parse_error of string

let parse (s : string) : t =
  let n = String.length s in
  let pos = ref 0 in
  let rec skip () = if !pos < n && (s.[!pos] = ' ' || s.[!pos] = '\t' || s.[!pos] = '\r') then (incr pos; skip ()) in
  let rec expr () =
    skip ();
    if !pos >= n then raise (Parse_error "unexpected end");
    if s.[!pos] = '(' then begin
      incr pos;
      let items = ref [] in
      let rec loop () =
        skip ();
        if !pos >= n then raise (Parse_error "missing )");
        if s.[!pos] = ')' then incr pos
        else begin items := expr () :: !items; loop () end
      in
      loop ();
      List (List.rev !items)
    end else if s.[!pos] = ')' then raise (Parse_error "unexpected )")
    else begin
      let start = !pos in
      while !pos < n && s.[!pos] <> ' ' && s.[!pos] <> '(' && s.[!pos] <> ')' && s.[!pos] <> '\t' do incr pos done;
      Atom (String.sub s start (!pos - start))
    end
  in
  let e = expr () in
  skip ();
  if !pos < n then raise (Parse_error "trailing input");
  e
