From Coq Require Extraction ExtrOcamlBasic.
From GV Require Import Conc.Locks Conc.Once.
Extraction Language OCaml.
Extraction "model.ml"
  Locks.well_ordered Locks.well_ordered_prefix Locks.init Locks.run Locks.deadlocked Locks.all_finished Locks.blocked
  Once.init Once.run Once.eval_count Once.all_complete Once.complete.
