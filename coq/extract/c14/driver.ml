(* Line protocol driver for the C14 models (coq/theories/Conc/Locks.v, Once.v).
   Lock programs: tokens  A<n> (acquire class n)  R<n> (release)  S (step).
     wo  <prog>                      -> true|false      Locks.well_ordered [] prog
     wop <prog>                      -> true|false      Locks.well_ordered_prefix [] prog   (validator for real logs)
     sim <prog> ; <prog> ; ... | <thread ids>
                                     -> deadlocked=<b> finished=<b> blocked=<b,b,...>
   Memo protocol (body m r = 100*m + r, cost m = m; requester i has the i-th to-do list):
     once <m m ...> ; <m ...> ; ... | <requester ids>
                                     -> got=<r0: m:v,...>;<r1: ...> evals=<m:count,...> complete=<b>
   The driver only converts text <-> the extracted inductive types (glue, not model). *)
open Model

let rec nat_of_int n = if n <= 0 then O else S (nat_of_int (n - 1))
let rec int_of_nat = function O -> 0 | S n -> 1 + int_of_nat n

let words s = List.filter (fun x -> x <> "") (String.split_on_char ' ' s)
let split_on c s = List.map String.trim (String.split_on_char c s)

let instr_of tok =
  let n () = nat_of_int (int_of_string (String.sub tok 1 (String.length tok - 1))) in
  match tok.[0] with
  | 'A' -> Acquire (n ())
  | 'R' -> Release (n ())
  | 'S' -> Step
  | _ -> failwith ("bad token " ^ tok)

let prog_of s = List.map instr_of (words s)
let b = function true -> "true" | false -> "false"

let handle line =
  match words line with
  | [] -> ""
  | cmd :: _ ->
    let rest = String.trim (String.sub line (String.length cmd) (String.length line - String.length cmd)) in
    (match cmd with
     | "wo" -> b (well_ordered [] (prog_of rest))
     | "wop" -> b (well_ordered_prefix [] (prog_of rest))
     | "sim" ->
       (match split_on '|' rest with
        | [ps; sched] ->
          let progs = List.map prog_of (split_on ';' ps) in
          let sched = List.map (fun x -> nat_of_int (int_of_string x)) (words sched) in
          let s = Model.run (Model.init progs) sched in
          Printf.sprintf "deadlocked=%s finished=%s blocked=%s" (b (deadlocked s)) (b (all_finished s))
            (String.concat "," (List.map (fun t -> b (blocked s t)) s))
        | _ -> failwith "sim: expected <progs> | <schedule>")
     | "once" ->
       (match split_on '|' rest with
        | [ts; sched] ->
          let lists = List.map (fun l -> List.map (fun x -> nat_of_int (int_of_string x)) (words l)) (split_on ';' ts) in
          let n = List.length lists in
          let todos r = let i = int_of_nat r in if i < n then List.nth lists i else [] in
          let body m r = nat_of_int (100 * int_of_nat m + int_of_nat r) in
          let cost m = m in
          let sched = List.map (fun x -> nat_of_int (int_of_string x)) (words sched) in
          let s = run0 body cost (init0 todos) sched in
          let got_of r =
            let q = s.reqs (nat_of_int r) in
            String.concat "," (List.map (fun (m, v) -> Printf.sprintf "%d:%d" (int_of_nat m) (int_of_nat v)) (List.rev q.got)) in
          let mods = List.sort_uniq compare (List.concat (List.map (List.map int_of_nat) lists)) in
          Printf.sprintf "got=%s evals=%s complete=%s"
            (String.concat ";" (List.init n got_of))
            (String.concat "," (List.map (fun m -> Printf.sprintf "%d:%d" m (int_of_nat (eval_count s (nat_of_int m)))) mods))
            (b (all_complete s (nat_of_int n)))
        | _ -> failwith "once: expected <todo lists> | <schedule>")
     | _ -> failwith ("unknown command " ^ cmd))

let () =
  try
    while true do
      let line = input_line stdin in
      (try print_endline (handle line) with e -> print_endline ("error " ^ Printexc.to_string e))
    done
  with End_of_file -> ()
