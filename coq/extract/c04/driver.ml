(* Line-protocol driver for the C04 model (coq/theories/Lang/Core.v, OptValid.v).

   One case per input line, one result line per case:

     V <core> <core>          run the extracted [valid_opt] on the pair (before, after optimisation)
                              -> `accept` | `reject <diagnosis>`
     C <core> <core>          which rewrites an accepted pair uses -> `counts R1=n R2=n R3=n R4=n`
     E <env> <tags> <core>    run the extracted [eval_core] -> canonical outcome
                              `(val <v> (log n..))` | `(err <kind> (log n..))`

   <core> ::= (c <lit>) | (v ID) | (p PRIMNAME) | (call <core> <core>..) | (data CTOR <core>..)
            | (rec (FNAME..) <core>..) | (let ID <core> <core>)
            | (letrec ((ID (ID..) <core>)..) <core>) | (match <core> (<pat> <core>)..) | (cast <core>)
   <lit>  ::= (i Z) | (b Z) | (f Z) | (s N..)            (f: the bit pattern as an unsigned decimal)
   <pat>  ::= (pc CTOR ID..) | (pr (FNAME ID)..) | (pv ID) | (pl <lit>)
   <env>  ::= (env (ID (host (FNAME HOST)..)) | (ID (core <core>)) ..)   globals, in order: a record of host
                                             functions (HOST ::= eff | error) or the value of a core expression
   <tags> ::= (tags (CTOR TAG)..)            numeric tag of each variant constructor (for printing);
                                             constructor 2 is the array pseudo constructor
   Numbers are decimal.  The diagnosis of a rejection is computed here (glue, not part of the
   proved checker): it only labels the finding. *)
open Model

(* ---------- numbers ---------- *)
let rec nat_of_int n = if n <= 0 then O else S (nat_of_int (n - 1))
let rec pos_of_int n =
  if n = 1 then XH else if n land 1 = 0 then XO (pos_of_int (n lsr 1)) else XI (pos_of_int (n lsr 1))
let n_of_int n = if n = 0 then N0 else Npos (pos_of_int n)
let rec int_of_pos = function XH -> 1 | XO p -> 2 * int_of_pos p | XI p -> 2 * int_of_pos p + 1
let int_of_n = function N0 -> 0 | Npos p -> int_of_pos p
let z_of_small n = if n = 0 then Z0 else if n > 0 then Zpos (pos_of_int n) else Zneg (pos_of_int (-n))

(* decimal text -> Z through extracted Z arithmetic (values exceed OCaml's 63-bit ints) *)
let z_of_string (s : string) : z =
  let neg = String.length s > 0 && s.[0] = '-' in
  let start = if neg then 1 else 0 in
  let ten = z_of_small 10 in
  let acc = ref Z0 in
  for i = start to String.length s - 1 do
    let d = Char.code s.[i] - 48 in
    if d < 0 || d > 9 then failwith ("bad number " ^ s);
    acc := Z.add (Z.mul !acc ten) (z_of_small d)
  done;
  if neg then Z.opp !acc else !acc

(* positive -> decimal text by schoolbook doubling on a little-endian digit list *)
let dec_double_add (ds : int list) (carry0 : int) : int list =
  let rec go ds carry =
    match ds with
    | [] -> if carry = 0 then [] else [carry]
    | d :: r -> let v = 2 * d + carry in (v mod 10) :: go r (v / 10)
  in go ds carry0
let rec dec_of_pos = function
  | XH -> [1]
  | XO p -> dec_double_add (dec_of_pos p) 0
  | XI p -> dec_double_add (dec_of_pos p) 1
let string_of_pos p = String.concat "" (List.rev_map string_of_int (dec_of_pos p))
let string_of_z = function Z0 -> "0" | Zpos p -> string_of_pos p | Zneg p -> "-" ^ string_of_pos p

(* ---------- s-expressions ---------- *)
type sx = A of string | L of sx list

let parse_all (s : string) : sx list =
  let n = String.length s in
  let pos = ref 0 in
  let rec skip () = if !pos < n && (s.[!pos] = ' ' || s.[!pos] = '\t') then (incr pos; skip ()) in
  let rec one () : sx =
    skip ();
    if !pos >= n then failwith "eof"
    else if s.[!pos] = '(' then begin
      incr pos;
      let items = ref [] in
      let rec loop () =
        skip ();
        if !pos >= n then failwith "unclosed"
        else if s.[!pos] = ')' then incr pos
        else (items := one () :: !items; loop ())
      in
      loop ();
      L (List.rev !items)
    end else begin
      let st = !pos in
      while !pos < n && s.[!pos] <> ' ' && s.[!pos] <> '(' && s.[!pos] <> ')' do incr pos done;
      A (String.sub s st (!pos - st))
    end
  in
  let res = ref [] in
  let rec loop () = skip (); if !pos < n then (res := one () :: !res; loop ()) in
  loop ();
  List.rev !res

let num = function A s -> n_of_int (int_of_string s) | _ -> failwith "expected number"
let znum = function A s -> z_of_string s | _ -> failwith "expected number"

let primop_of = function
  | "#Int+" -> PIntAdd | "#Int-" -> PIntSub | "#Int*" -> PIntMul | "#Int/" -> PIntDiv
  | "#Int<" | "#Char<" -> PIntLt | "#Int==" | "#Char==" -> PIntEq
  | "#Byte+" -> PByteAdd | "#Byte-" -> PByteSub | "#Byte*" -> PByteMul | "#Byte/" -> PByteDiv
  | "#Byte<" -> PByteLt | "#Byte==" -> PByteEq
  | "#Float+" -> PFloatAdd | "#Float-" -> PFloatSub | "#Float*" -> PFloatMul | "#Float/" -> PFloatDiv
  | "#Float<" -> PFloatLt | "#Float==" -> PFloatEq
  | "&&" -> PAnd | "||" -> POr
  | s -> failwith ("unknown primitive " ^ s)

let lit_of = function
  | L [A "i"; z] -> LInt (znum z)
  | L [A "b"; z] -> LByte (znum z)
  | L [A "f"; z] -> LFloat (znum z)
  | L (A "s" :: bs) -> LStr (List.map num bs)
  | _ -> failwith "bad literal"

let pat_of = function
  | L (A "pc" :: c :: xs) -> PCon (num c, List.map num xs)
  | L (A "pr" :: fs) ->
      PRec (List.map (function L [f; x] -> (num f, num x) | _ -> failwith "bad record pattern field") fs)
  | L [A "pv"; x] -> PVar (num x)
  | L [A "pl"; l] -> PLit (lit_of l)
  | _ -> failwith "bad pattern"

let rec core_of (s : sx) : cexpr =
  match s with
  | L [A "c"; l] -> Const (lit_of l)
  | L [A "v"; x] -> Ident (num x)
  | L [A "p"; A p] -> Prim (primop_of p)
  | L (A "call" :: f :: args) -> Call (core_of f, list_of args)
  | L (A "data" :: c :: args) -> Data (num c, list_of args)
  | L (A "rec" :: L names :: args) -> Rec (List.map num names, list_of args)
  | L [A "let"; x; rhs; body] -> Let (num x, core_of rhs, core_of body)
  | L [A "letrec"; L cs; body] -> LetRec (clos_of cs, core_of body)
  | L (A "match" :: sc :: alts) -> Match (core_of sc, alts_of alts)
  | L [A "cast"; e] -> Cast (core_of e)
  | _ -> failwith "bad core expression"
and list_of = function [] -> ENil | e :: r -> let e' = core_of e in ECons (e', list_of r)
and clos_of = function
  | [] -> CNil
  | L [f; L ps; body] :: r -> let b = core_of body in CCons (num f, List.map num ps, b, clos_of r)
  | _ -> failwith "bad closure"
and alts_of = function
  | [] -> ANil
  | L [p; e] :: r -> let p' = pat_of p in let e' = core_of e in ACons (p', e', alts_of r)
  | _ -> failwith "bad alternative"

(* ---------- diagnosis of a rejection (glue) ---------- *)
let rec elist = function ENil -> [] | ECons (e, r) -> e :: elist r
let rec alist = function ANil -> [] | ACons (p, e, r) -> (p, e) :: alist r
let rec clist = function CNil -> [] | CCons (f, ps, b, r) -> (f, ps, b) :: clist r

let callee_shape (f : cexpr) (args : cexprs) : string =
  let is_unmatched =
    match args with
    | ECons (Const (LStr s), ENil) -> s = unmatched_msg
    | _ -> false
  in
  match f with
  | Ident _ -> "ident-callee"
  | Prim _ -> "logical-primitive"
  | Match (_, ACons (PRec [ (_, x) ], Ident y, ANil)) when x = y ->
      if is_unmatched then "unmatched-pattern-default" else "projection-callee"
  | Match _ -> "match-callee"
  | LetRec _ -> "lambda-callee"
  | Let _ -> "let-callee"
  | Cast _ -> "cast-callee"
  | Call _ -> "call-callee"
  | _ -> "other-callee"

(* the first sub-expression that makes [e] not droppable *)
let rec why_not_droppable (e : cexpr) : string =
  if droppable e then "droppable" else
  match e with
  | Call (Prim p, ECons (a, ECons (b, ENil))) when (match p with PAnd | POr -> false | _ -> true) ->
      if not (droppable a) then why_not_droppable a else why_not_droppable b
  | Call (f, args) -> callee_shape f args
  | Data (_, args) | Rec (_, args) ->
      (match List.find_opt (fun x -> not (droppable x)) (elist args) with Some x -> why_not_droppable x | None -> "?")
  | Let (_, rhs, body) -> if not (droppable rhs) then why_not_droppable rhs else why_not_droppable body
  | LetRec (_, body) -> why_not_droppable body
  | Match (s, alts) ->
      if not (droppable s) then why_not_droppable s
      else (match List.find_opt (fun (_, x) -> not (droppable x)) (alist alts) with
            | Some (_, x) -> why_not_droppable x | None -> "?")
  | Cast e -> why_not_droppable e
  | Prim _ -> "bare-primitive"
  | _ -> "?"

let head = function
  | Const _ -> "const" | Ident _ -> "ident" | Prim _ -> "prim" | Call _ -> "call" | Data _ -> "data"
  | Rec _ -> "rec" | Let _ -> "let" | LetRec _ -> "letrec" | Match _ -> "match" | Cast _ -> "cast"

let sn x = string_of_int (int_of_n x)

let rec diag (a : cexpr) (b : cexpr) : string =
  if valid_opt a b then "" else
  let first l = try List.find (fun s -> s <> "") l with Not_found -> "" in
  let sub_list xs ys =
    if List.length xs <> List.length ys then "mismatch:arity"
    else first (List.map2 diag xs ys)
  in
  let generic () = "mismatch:" ^ head a ^ "/" ^ head b in
  let nonempty s = if s = "" then generic () else s in
  match a, b with
  | Let (x, rhs, body), _ ->
      (* is this binding gone?  yes when the rest explains b, or when b does not bind x here *)
      let same = (match b with Let (x', _, _) -> x = x' | _ -> false) in
      let dropped_explains = valid_opt body b in
      if dropped_explains || not same then begin
        if not (droppable rhs) then "drop:" ^ sn x ^ ":" ^ why_not_droppable rhs
        else if memb x (fv b) then "drop-used:" ^ sn x
        else nonempty (diag body b)
      end else
        (match b with
         | Let (_, rhs', body') ->
             let d = diag rhs rhs' in
             if d <> "" then
               (* perhaps this binding was dropped and b's binding is a later one with the same name *)
               (if not (droppable rhs) && diag body b = "" then "drop:" ^ sn x ^ ":" ^ why_not_droppable rhs else d)
             else nonempty (diag body body')
         | _ -> generic ())
  | LetRec (cs, _), _
    when (let kept = (match b with LetRec (cs', _) -> List.map (fun (g, _, _) -> g) (clist cs') | _ -> []) in
          List.exists (fun (f, ps, bd) -> ps = [] && not (List.mem f kept) && not (droppable bd)) (clist cs)) ->
      (* a recursive value (a member without parameters) is gone although making it is not droppable *)
      let kept = (match b with LetRec (cs', _) -> List.map (fun (g, _, _) -> g) (clist cs') | _ -> []) in
      let (_, _, bd) = List.find (fun (f, ps, bd) -> ps = [] && not (List.mem f kept) && not (droppable bd)) (clist cs) in
      "drop-rec-value:" ^ why_not_droppable bd
  | LetRec (cs, body), LetRec (cs', body')
    when List.for_all (fun (g, _, _) -> List.exists (fun (f, _, _) -> f = g) (clist cs)) (clist cs') ->
      let l = clist cs and l' = clist cs' in
      let kept = List.filter (fun (f, _, _) -> List.exists (fun (g, _, _) -> g = f) l') l in
      if List.length kept <> List.length l' then "mismatch:letrec-members"
      else
        let d = first (List.map2 (fun (_, _, b1) (_, _, b2) -> diag b1 b2) kept l') in
        if d <> "" then d else
        let d = diag body body' in
        if d <> "" then d else "mismatch:letrec-side-condition"
  | LetRec (_, body), _ -> nonempty (diag body b)
  | Match (s, ACons (PRec pfs, body, ANil)), _
    when (match b with Match (_, ACons (PRec pfs', _, ANil)) -> pfs <> pfs' | _ -> true) ->
      (match s with
       | Rec (_, args) ->
           (* R3: find a field whose expression is gone although it is not droppable *)
           let rec lets e = match e with Let (_, r, k) -> r :: lets k | _ -> [] in
           let kept = lets b in
           (match List.find_opt (fun e -> not (droppable e) && not (List.exists (fun r -> valid_opt e r) kept)) (elist args) with
            | Some e ->
                (* the field may have been kept with something dropped inside it *)
                let is_drop d = String.length d >= 4 && String.sub d 0 4 = "drop" in
                (match List.find_opt is_drop (List.map (fun r -> diag e r) kept) with
                 | Some d -> d
                 | None -> "drop-field:" ^ why_not_droppable e)
            | None -> "mismatch:unnecessary-allocation")
       | _ ->
           if not (droppable s) then "drop-match:" ^ why_not_droppable s else nonempty (diag body b))
  | Match (s, alts), Match (s', alts') ->
      let d = diag s s' in
      if d <> "" then d else
      let l = alist alts and l' = alist alts' in
      if List.length l <> List.length l' then "mismatch:alternatives"
      else nonempty (first (List.map2 (fun (_, e) (_, e') -> diag e e') l l'))
  | Call (f, args), Call (f', args') ->
      let d = diag f f' in
      if d <> "" then d else nonempty (sub_list (elist args) (elist args'))
  | Data (_, args), Data (_, args') | Rec (_, args), Rec (_, args') -> nonempty (sub_list (elist args) (elist args'))
  | Cast e, Cast e' -> nonempty (diag e e')
  | _, _ -> generic ()

(* ---------- which rewrites an accepted pair uses (glue: evidence only) ---------- *)
let rec count (a : cexpr) (b : cexpr) (c : int array) : unit =
  let names l = List.map (fun (f, _, _) -> f) l in
  match a, b with
  | Let (x, rhs, body), Let (x', rhs', body') when x = x' && valid_opt rhs rhs' && valid_opt body body' ->
      count rhs rhs' c; count body body' c
  | Let (_, _, body), _ -> c.(0) <- c.(0) + 1; count body b c
  | LetRec (cs, body), LetRec (cs', body')
    when List.for_all (fun g -> List.mem g (names (clist cs))) (names (clist cs')) && valid_opt body body' ->
      let l = clist cs and l' = clist cs' in
      List.iter (fun (f, _, b1) ->
        match List.find_opt (fun (g, _, _) -> g = f) l' with
        | Some (_, _, b2) -> count b1 b2 c
        | None -> c.(1) <- c.(1) + 1) l;
      count body body' c
  | LetRec (cs, body), _ -> c.(1) <- c.(1) + List.length (clist cs); count body b c
  | Match (s, alts), Match (s', alts')
    when valid_opt s s' && List.length (alist alts) = List.length (alist alts') ->
      count s s' c; List.iter2 (fun (_, e) (_, e') -> count e e' c) (alist alts) (alist alts')
  | Match (Rec (_, args), ACons (PRec _, body, ANil)), _ ->
      c.(2) <- c.(2) + 1;
      let rec fields es b =
        match es with
        | [] -> count body b c
        | e :: r ->
            (match b with
             | Let (_, e', b') when valid_opt e e' -> count e e' c; fields r b'
             | _ -> c.(0) <- c.(0) + 1; fields r b)
      in fields (elist args) b
  | Match (_, ACons (PRec _, body, ANil)), _ -> c.(3) <- c.(3) + 1; count body b c
  | Call (f, args), Call (f', args') when List.length (elist args) = List.length (elist args') ->
      count f f' c; List.iter2 (fun x y -> count x y c) (elist args) (elist args')
  | Data (_, args), Data (_, args') | Rec (_, args), Rec (_, args')
    when List.length (elist args) = List.length (elist args') ->
      List.iter2 (fun x y -> count x y c) (elist args) (elist args')
  | Cast e, Cast e' -> count e e' c
  | _, _ -> ()

(* ---------- evaluation ---------- *)
let fop _ x _ = x                    (* float arithmetic is not interpreted; the harness generates no floats *)
let fcmp _ x y = Z.eqb x y
let fuel = nat_of_int 20000

let env_of (s : sx) : env =
  match s with
  | L (A "env" :: gs) ->
      List.fold_left (fun env g ->
        match g with
        | L [id; L (A "host" :: fields)] ->
            (num id, VRec (List.map (function
               | L [f; A "eff"] -> (num f, VHost HEff)
               | L [f; A "error"] -> (num f, VHost HError)
               | _ -> failwith "bad host field") fields)) :: env
        | L [id; L [A "core"; c]] ->
            (match eval_core fop fcmp fuel env (core_of c) with
             | (Val v, _) -> (num id, v) :: env
             | _ -> failwith "a global module does not evaluate to a value")
        | _ -> failwith "bad global") [] gs
  | _ -> failwith "bad env"

let tags_of (s : sx) : (int * int) list =
  match s with
  | L (A "tags" :: ts) -> List.map (function L [A c; A t] -> (int_of_string c, int_of_string t) | _ -> failwith "bad tag") ts
  | _ -> failwith "bad tags"

let max_depth = 12

let rec show_value_d tags depth (v : value) : string =
  if depth > max_depth then "(deep)" else
  match v with
  | VInt z -> "(int " ^ string_of_z z ^ ")"
  | VByte z -> "(byte " ^ string_of_z z ^ ")"
  | VFloat z -> "(f64 " ^ string_of_z z ^ ")"
  | VStr [] -> "(str)"
  | VStr s -> "(str " ^ String.concat " " (List.map sn s) ^ ")"
  | VData (c, vs) ->
      let c = int_of_n c in
      let args = String.concat "" (List.map (fun v -> " " ^ show_value_d tags (depth + 1) v) vs) in
      if c = 2 then "(arr" ^ args ^ ")"
      else
        let t = if c = 0 then 0 else if c = 1 then 1 else (try List.assoc c tags with Not_found -> -1) in
        "(data " ^ string_of_int t ^ args ^ ")"
  | VRec fs -> "(data 0" ^ String.concat "" (List.map (fun (_, v) -> " " ^ show_value_d tags (depth + 1) v) fs) ^ ")"
  | VClo _ ->
      (* a recursive value is unfolded; a function stays a function *)
      (match force fop fcmp fuel v with
       | (Val (VClo _), _) -> "(fun)"
       | (Val w, _) -> show_value_d tags depth w
       | _ -> "(fun)")
  | VPap _ | VHost _ -> "(fun)"
let show_value tags v = show_value_d tags 0 v

let show_log l = "(log" ^ String.concat "" (List.map (fun z -> " " ^ string_of_z z) l) ^ ")"

let show_res tags ((o, l) : res) : string =
  match o with
  | Val v -> "(val " ^ show_value tags v ^ " " ^ show_log l ^ ")"
  | Err (EExplicit m) -> "(err explicit" ^ String.concat "" (List.map (fun b -> " " ^ sn b) m) ^ " " ^ show_log l ^ ")"
  | Err EUnmatched -> "(err unmatched " ^ show_log l ^ ")"
  | Err EArith -> "(err arith " ^ show_log l ^ ")"
  | Err EStuck -> "(err stuck " ^ show_log l ^ ")"
  | OOF -> "(err fuel " ^ show_log l ^ ")"

let () =
  try
    while true do
      let line = input_line stdin in
      if line <> "" then begin
        let out =
          try
            match parse_all line with
            | [A "V"; a; b] ->
                let a = core_of a and b = core_of b in
                if valid_opt a b then "accept" else "reject " ^ (let d = diag a b in if d = "" then "mismatch:?" else d)
            | [A "C"; a; b] ->
                let a = core_of a and b = core_of b in
                if valid_opt a b then begin
                  let c = Array.make 4 0 in
                  count a b c;
                  Printf.sprintf "counts R1=%d R2=%d R3=%d R4=%d" c.(0) c.(1) c.(2) c.(3)
                end else "counts rejected"
            | [A "E"; e; t; c] -> show_res (tags_of t) (eval_core fop fcmp fuel (env_of e) (core_of c))
            | _ -> "bad-line"
          with Failure m -> "driver-error " ^ m | Stack_overflow -> "driver-error stack-overflow"
        in
        print_endline out
      end
    done
  with End_of_file -> ()
