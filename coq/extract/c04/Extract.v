From Coq Require Extraction ExtrOcamlBasic.
From GV Require Import Lang.Core Lang.OptValid.
Extraction Language OCaml.
Extraction "model.ml" eval_core valid_opt droppable fv memb.
