(* Line protocol driver for the C03 model (extracted Lang/Infer.v).
   Input line:   <term>                      -> reply `T <type>` | `REJECT` | `FUEL`
                 <term> ;; <impl result>     -> triage reply (see below)
   <term> (prefix, space separated tokens):
     I | S | V k | L k e | A e e | T k e e (let) | F f x e (rec let f = \x -> e in f)
     | C c e e (if) | Q e e (#Int==) | R n (l e)*n (record, labels as numbers) | P l e (e.l) | Y n e*n (array)
   <type> (canonical: rows sorted by label, variables numbered by first occurrence):
     vN | Int | String | Bool | (-> A B) | (Array A) | {l:A l:B} | {l:A | vN} | {}
     labels: 0 a, 1 b, 2 c, 3+k _k
   <impl result>: `T <type>` | `REJECT`
   Triage reply (decided by the extracted, verified [alpha_eq]/[instance_of]):
     agree | rejects-typable | accepts-untypable | not-principal | more-general | incomparable | fuel
   The driver only parses, calls the extracted functions and prints. *)
open Model

let rec nat_of_int n = if n <= 0 then O else S (nat_of_int (n - 1))
let rec int_of_nat = function O -> 0 | S n -> 1 + int_of_nat n

let fuel = nat_of_int 5000

let label_name k = if k = 0 then "a" else if k = 1 then "b" else if k = 2 then "c" else "_" ^ string_of_int (k - 3)
let label_of_name s =
  if s = "a" then 0 else if s = "b" then 1 else if s = "c" then 2
  else if String.length s > 1 && s.[0] = '_' then 3 + int_of_string (String.sub s 1 (String.length s - 1))
  else failwith ("label " ^ s)

let rec show t =
  match t with
  | TVar n -> "v" ^ string_of_int (int_of_nat n)
  | TGen n -> "g" ^ string_of_int (int_of_nat n)
  | TCon c -> (match int_of_nat c with 0 -> "Int" | 1 -> "String" | 2 -> "Bool" | k -> "c" ^ string_of_int k)
  | TFun (a, b) -> "(-> " ^ show a ^ " " ^ show b ^ ")"
  | TArray a -> "(Array " ^ show a ^ ")"
  | RNil -> "{}"
  | RCons (_, _, _) ->
      let rec fields t acc =
        match t with
        | RCons (l, a, r) -> fields r ((label_name (int_of_nat l) ^ ":" ^ show a) :: acc)
        | RNil -> (List.rev acc, None)
        | other -> (List.rev acc, Some other)
      in
      let fs, tail = fields t [] in
      "{" ^ String.concat " " fs ^ (match tail with None -> "" | Some u -> " | " ^ show u) ^ "}"

(* ---- tokens ---- *)
let tokenize s =
  let b = Buffer.create 16 and out = ref [] in
  let flush () = if Buffer.length b > 0 then (out := Buffer.contents b :: !out; Buffer.clear b) in
  String.iter (fun c ->
    match c with
    | ' ' | '\t' -> flush ()
    | '(' | ')' | '{' | '}' | '|' | ':' -> flush (); out := String.make 1 c :: !out
    | c -> Buffer.add_char b c) s;
  flush (); List.rev !out

let parse_term toks =
  let toks = ref toks in
  let next () = match !toks with t :: r -> toks := r; t | [] -> failwith "term: eof" in
  let num () = nat_of_int (int_of_string (next ())) in
  let rec term () =
    match next () with
    | "I" -> EInt | "S" -> EStr
    | "V" -> EVar (num ())
    | "L" -> let x = num () in ELam (x, term ())
    | "A" -> let a = term () in let b = term () in EApp (a, b)
    | "T" -> let x = num () in let a = term () in let b = term () in ELet (x, a, b)
    | "F" -> let f = num () in let x = num () in EFix (f, x, term ())
    | "C" -> let c = term () in let a = term () in let b = term () in EIf (c, a, b)
    | "Q" -> let a = term () in let b = term () in EEq (a, b)
    | "R" -> let n = int_of_string (next ()) in
        let rec go k = if k = 0 then EFNil else (let l = num () in let e = term () in let rest = go (k - 1) in EFCons (l, e, rest)) in go n
    | "P" -> let l = num () in EProj (term (), l)
    | "Y" -> let n = int_of_string (next ()) in
        let rec go k = if k = 0 then EANil else (let e = term () in let rest = go (k - 1) in EACons (e, rest)) in go n
    | t -> failwith ("term: bad token " ^ t)
  in
  let e = term () in
  if !toks <> [] then failwith "term: trailing tokens";
  e

let parse_type toks =
  let toks = ref toks in
  let next () = match !toks with t :: r -> toks := r; t | [] -> failwith "type: eof" in
  let peek () = match !toks with t :: _ -> t | [] -> "" in
  let rec ty () =
    match next () with
    | "Int" -> TCon (nat_of_int 0) | "String" -> TCon (nat_of_int 1) | "Bool" -> TCon (nat_of_int 2)
    | "(" ->
        (match next () with
         | "->" -> let a = ty () in let b = ty () in ignore (next ()); TFun (a, b)
         | "Array" -> let a = ty () in ignore (next ()); TArray a
         | t -> failwith ("type: bad head " ^ t))
    | "{" ->
        let rec fields () =
          match peek () with
          | "}" -> ignore (next ()); RNil
          | "|" -> ignore (next ()); let t = ty () in ignore (next ()); t
          | _ -> let l = label_of_name (next ()) in
                 if next () <> ":" then failwith "type: expected :";
                 let a = ty () in
                 let r = fields () in
                 RCons (nat_of_int l, a, r)
        in fields ()
    | t when String.length t > 1 && t.[0] = 'v' -> TVar (nat_of_int (int_of_string (String.sub t 1 (String.length t - 1))))
    | t when String.length t > 1 && t.[0] = 'c' -> TCon (nat_of_int (int_of_string (String.sub t 1 (String.length t - 1))))
    | t -> failwith ("type: bad token " ^ t)
  in
  let t = ty () in
  if !toks <> [] then failwith "type: trailing tokens";
  t

let split_triage line =
  let n = String.length line in
  let rec find i = if i + 1 >= n then None else if line.[i] = ';' && line.[i + 1] = ';' then Some i else find (i + 1) in
  match find 0 with
  | None -> (line, None)
  | Some i -> (String.sub line 0 i, Some (String.trim (String.sub line (i + 2) (n - i - 2))))

let () =
  try
    while true do
      let line = input_line stdin in
      if String.trim line <> "" then begin
        let (tsrc, impl) = split_triage line in
        let reply =
          try
            let e = parse_term (tokenize tsrc) in
            let r = infer_top fuel e in
            match impl with
            | None ->
                (match r with Ok t -> "T " ^ show (canon t) | Fail -> "REJECT" | OutOfFuel -> "FUEL")
            | Some im ->
                let im_toks = tokenize im in
                (match r, im_toks with
                 | OutOfFuel, _ -> "fuel"
                 | Fail, "REJECT" :: _ -> "agree"
                 | Fail, _ -> "accepts-untypable"
                 | Ok _, "REJECT" :: _ -> "rejects-typable"
                 | Ok t, "T" :: rest ->
                     let it = parse_type rest in
                     let mt = canon t in
                     if alpha_eq mt it then "agree"
                     else if instance_of mt it then "not-principal"        (* impl type is a strict instance *)
                     else if instance_of it mt then "more-general"         (* model type is a strict instance of impl's *)
                     else "incomparable"
                 | Ok _, _ -> failwith "bad impl result")
          with Failure m -> "driver-error " ^ m
        in
        print_endline reply
      end
    done
  with End_of_file -> ()
