From Coq Require Extraction ExtrOcamlBasic.
From GV Require Import Lang.Infer.
Extraction Language OCaml.
Extraction "model.ml" infer_top canon sort_rows instance_of alpha_eq.
