From Coq Require Extraction ExtrOcamlBasic.
From Coq Require Import ZArith NArith.
From GV Require Import Lib.StdModel Lib.Derive Lib.Strings Lib.Json.
Extraction Language OCaml.
Extraction "model.ml"
  zmap_run zsort zfilter_gt zfilter_even zlist_foldl zlist_foldr zlist_append
  Z.add Z.mul Z.opp Z.quotrem Z.ltb Z.eqb Z.of_nat Z.to_nat N.of_nat N.to_nat
  wt env_ok deq dshow show_int
  bytes slen split_at is_char_boundary slice char_at sfind srfind contains starts_with ends_with
  trim trim_start trim_end trim_start_matches trim_end_matches str_compare str_eqb str_show
  ser de Json.wf
  arr_slice arr_foldl arr_foldr arr_map arr_compare arr_eqb arr_show.
