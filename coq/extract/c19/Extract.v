From Coq Require Extraction ExtrOcamlBasic.
From Coq Require Import ZArith.
From GV Require Import Lib.StdModel.
Extraction Language OCaml.
Extraction "model.ml" zmap_run zsort zfilter_gt zfilter_even zlist_foldl zlist_foldr zlist_append
  Z.add Z.mul Z.opp Z.quotrem Z.ltb Z.eqb Z.of_nat Z.to_nat N.of_nat N.to_nat.
