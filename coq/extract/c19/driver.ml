(* Line protocol driver of the C19 models.  One case per input line, `<fn> <args...>`
   (space separated; integer lists comma separated), one canonical result line per case:
     lists  [a,b,c]      options  N | S<v>      tuples (a;b)
   Integers travel in decimal and are converted to/from the extracted inductive Z with the
   extracted Z operations (OCaml's native int is only 63 bits wide). *)
open Model

let rec pos_of_int n =
  if n = 1 then XH else if n land 1 = 0 then XO (pos_of_int (n lsr 1)) else XI (pos_of_int (n lsr 1))
let z_of_small n = if n = 0 then Z0 else if n > 0 then Zpos (pos_of_int n) else Zneg (pos_of_int (-n))
let z10 = z_of_small 10

let z_of_string (s : string) : z =
  let neg = String.length s > 0 && s.[0] = '-' in
  let acc = ref Z0 in
  String.iteri (fun i c ->
    if i = 0 && neg then () else begin
      if c < '0' || c > '9' then failwith ("bad integer " ^ s);
      acc := Z.add (Z.mul !acc z10) (z_of_small (Char.code c - 48))
    end) s;
  if neg then Z.opp !acc else !acc

let rec int_of_pos = function XH -> 1 | XO p -> 2 * int_of_pos p | XI p -> 2 * int_of_pos p + 1
let small_of_z = function Z0 -> 0 | Zpos p -> int_of_pos p | Zneg p -> - (int_of_pos p)

let string_of_z (x : z) : string =
  let neg = Z.ltb x Z0 in
  let x = if neg then Z.opp x else x in
  if Z.eqb x Z0 then "0" else begin
    let b = Buffer.create 20 in
    let cur = ref x in
    while not (Z.eqb !cur Z0) do
      let (q, r) = Z.quotrem !cur z10 in
      Buffer.add_char b (Char.chr (48 + small_of_z r));
      cur := q
    done;
    let s = Buffer.contents b in
    let n = String.length s in
    (if neg then "-" else "") ^ String.init n (fun i -> s.[n - 1 - i])
  end

let split c s = if s = "" then [] else String.split_on_char c s
let zlist s = List.map z_of_string (split ',' s)
let show_zlist l = "[" ^ String.concat "," (List.map string_of_z l) ^ "]"

let arg args i = match List.nth_opt args i with Some a -> a | None -> ""

let run (line : string) : string =
  match String.split_on_char ' ' line with
  | [] -> "empty"
  | f :: args ->
    let a = arg args in
    (match f with
     | "map" ->
       let ops = List.map (fun t ->
         match String.split_on_char ':' t with
         | [tag; k; v] -> ((tag = "1"), (z_of_string k, z_of_string v))
         | _ -> failwith "bad map op") (split ',' (a 0)) in
       let (((finds, final), keys), values) = zmap_run ops in
       Printf.sprintf "([%s];[%s];%s;%s)"
         (String.concat "," (List.map (function None -> "N" | Some v -> "S" ^ string_of_z v) finds))
         (String.concat "," (List.map (fun (k, v) -> "(" ^ string_of_z k ^ ";" ^ string_of_z v ^ ")") final))
         (show_zlist keys) (show_zlist values)
     | "sort" -> (match zsort (zlist (a 0)) with Done l -> show_zlist l | OutOfFuel -> "OutOfFuel")
     | "filter_gt" -> show_zlist (zfilter_gt (z_of_string (a 0)) (zlist (a 1)))
     | "filter_even" -> show_zlist (zfilter_even (zlist (a 0)))
     | "lfoldl" -> string_of_z (zlist_foldl (zlist (a 0)))
     | "lfoldr" -> string_of_z (zlist_foldr (zlist (a 0)))
     | "lappend" -> show_zlist (zlist_append (zlist (a 0)) (zlist (a 1)))
     | _ -> "unknown-function " ^ f)

let () =
  try
    while true do
      let line = input_line stdin in
      if line <> "" then print_endline (try run line with e -> "model-exception " ^ Printexc.to_string e)
    done
  with End_of_file -> ()
