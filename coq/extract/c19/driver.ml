(* Line protocol driver of the C19 models.  One case per input line, `<fn> <args...>`
   (space separated; integer lists comma separated), one canonical result line per case:
     lists  [a,b,c]      options  N | S<v>      tuples (a;b)
   Integers travel in decimal and are converted to/from the extracted inductive Z with the
   extracted Z operations (OCaml's native int is only 63 bits wide). *)
open Model

let rec pos_of_int n =
  if n = 1 then XH else if n land 1 = 0 then XO (pos_of_int (n lsr 1)) else XI (pos_of_int (n lsr 1))
let z_of_small n = if n = 0 then Z0 else if n > 0 then Zpos (pos_of_int n) else Zneg (pos_of_int (-n))
let z10 = z_of_small 10

let z_of_string (s : string) : z =
  let neg = String.length s > 0 && s.[0] = '-' in
  let acc = ref Z0 in
  String.iteri (fun i c ->
    if i = 0 && neg then () else begin
      if c < '0' || c > '9' then failwith ("bad integer " ^ s);
      acc := Z.add (Z.mul !acc z10) (z_of_small (Char.code c - 48))
    end) s;
  if neg then Z.opp !acc else !acc

let rec int_of_pos = function XH -> 1 | XO p -> 2 * int_of_pos p | XI p -> 2 * int_of_pos p + 1
let small_of_z = function Z0 -> 0 | Zpos p -> int_of_pos p | Zneg p -> - (int_of_pos p)

let string_of_z (x : z) : string =
  let neg = Z.ltb x Z0 in
  let x = if neg then Z.opp x else x in
  if Z.eqb x Z0 then "0" else begin
    let b = Buffer.create 20 in
    let cur = ref x in
    while not (Z.eqb !cur Z0) do
      let (q, r) = Z.quotrem !cur z10 in
      Buffer.add_char b (Char.chr (48 + small_of_z r));
      cur := q
    done;
    let s = Buffer.contents b in
    let n = String.length s in
    (if neg then "-" else "") ^ String.init n (fun i -> s.[n - 1 - i])
  end

let split c s = if s = "" then [] else String.split_on_char c s
let zlist s = List.map z_of_string (split ',' s)
let show_zlist l = "[" ^ String.concat "," (List.map string_of_z l) ^ "]"

let arg args i = match List.nth_opt args i with Some a -> a | None -> ""

(* ---- naturals, N, bytes ---- *)
let rec nat_of_int n = if n <= 0 then O else S (nat_of_int (n - 1))
let rec int_of_nat = function O -> 0 | S n -> 1 + int_of_nat n
let n_of_int n = if n = 0 then N0 else Npos (pos_of_int n)
let int_of_n = function N0 -> 0 | Npos p -> int_of_pos p
let hex_of_bytes (l : n list) = String.concat "" (List.map (fun b -> Printf.sprintf "%02x" (int_of_n b)) l)
let bytes_of_hex (s : string) : n list =
  List.init (String.length s / 2) (fun i -> n_of_int (int_of_string ("0x" ^ String.sub s (2 * i) 2)))
let cps s = if s = "_" || s = "" then [] else List.map (fun x -> n_of_int (int_of_string x)) (String.split_on_char '.' s)
let zl s = if s = "_" then [] else zlist s
let bool_s b = if b then "T" else "F"
let cmp_s = function Lt -> "i-1" | Eq -> "i0" | Gt -> "i1"
let str_s (s : n list) = "x" ^ hex_of_bytes (bytes s)

let run_arr op xs ys i j =
  match op with
  | "len" -> "i" ^ string_of_int (List.length xs)
  | "index" -> (match List.nth_opt xs i with Some v -> "i" ^ string_of_z v | None -> "error")
  | "append" -> show_zlist (zlist_append xs ys)
  | "slice" -> show_zlist (arr_slice xs (nat_of_int i) (nat_of_int j))
  | "foldl" -> "i" ^ string_of_z (arr_foldl xs)
  | "foldr" -> "i" ^ string_of_z (arr_foldr xs)
  | "map" -> show_zlist (arr_map xs)
  | "eq" -> bool_s (arr_eqb xs ys)
  | "cmp" -> cmp_s (arr_compare xs ys)
  | "show" -> "x" ^ hex_of_bytes (arr_show xs)
  | _ -> "unknown-arr-op"

let run_str op s t i j c =
  let ni = nat_of_int i and nj = nat_of_int j in
  let opt = function None -> "N" | Some k -> "S" ^ string_of_int (int_of_nat k) in
  match op with
  | "len" -> "i" ^ string_of_int (int_of_nat (slen s))
  | "is_empty" -> bool_s (s = [])
  | "boundary" -> bool_s (is_char_boundary s ni)
  | "bytes" -> "bx" ^ hex_of_bytes (bytes s)
  | "split_at" -> (match split_at s ni with Some (a, b) -> "(" ^ str_s a ^ ";" ^ str_s b ^ ")" | None -> "error")
  | "contains" -> bool_s (contains s t)
  | "starts_with" -> bool_s (starts_with s t)
  | "ends_with" -> bool_s (ends_with s t)
  | "find" -> opt (sfind s t)
  | "rfind" -> opt (srfind s t)
  | "trim" -> str_s (trim s)
  | "trim_start" -> str_s (trim_start s)
  | "trim_end" -> str_s (trim_end s)
  | "trim_start_matches" -> str_s (trim_start_matches s t)
  | "trim_end_matches" -> str_s (trim_end_matches s t)
  | "append" -> str_s (s @ t)
  | "append_char" -> str_s (s @ [c])
  | "from_char" -> str_s [c]
  | "slice" -> (match slice s ni nj with Some q -> str_s q | None -> "error")
  | "char_at" -> (match char_at s ni with Some ch -> "i" ^ string_of_int (int_of_n ch) | None -> "error")
  | "eq" -> bool_s (str_eqb s t)
  | "cmp" -> cmp_s (str_compare s t)
  | "show" -> str_s (str_show s)
  | _ -> "unknown-str-op"

(* ---- derive: parser of the case line (see harness/src/bin/c19/derive.rs) ---- *)
let parse_env (s : string) : env =
  List.map (fun d ->
    match String.index_opt d ':' with
    | None -> failwith "decl"
    | Some k ->
      let rest = String.sub d (k + 1) (String.length d - k - 1) in
      List.map (fun c ->
        match String.split_on_char ':' c with
        | [nm; tys] ->
          (bytes_of_hex nm,
           List.map (fun t ->
             match t.[0] with
             | 'I' -> TInt | 'S' -> TStr | 'F' -> TSelf | 'P' -> TParam
             | 'R' -> TRef (nat_of_int (int_of_string (String.sub t 1 (String.length t - 1))))
             | _ -> failwith "ty") (split ',' tys))
        | _ -> failwith "ctor") (String.split_on_char '|' rest)) (String.split_on_char '/' s)

let parse_num s i =
  let st = !i in
  if !i < String.length s && s.[!i] = '-' then incr i;
  while !i < String.length s && s.[!i] >= '0' && s.[!i] <= '9' do incr i done;
  String.sub s st (!i - st)

let parse_hex s i =
  let st = !i in
  let ish c = (c >= '0' && c <= '9') || (c >= 'a' && c <= 'f') in
  while !i < String.length s && ish s.[!i] do incr i done;
  String.sub s st (!i - st)

let rec parse_gty s i : gty =
  let c = s.[!i] in incr i;
  match c with
  | 'I' -> GInt | 'S' -> GStr
  | 'D' -> let n = int_of_string (parse_num s i) in incr i; let p = parse_gty s i in incr i; GData (nat_of_int n, p)
  | _ -> failwith "gty"

let rec parse_val s i : val0 =
  let c = s.[!i] in incr i;
  match c with
  | 'i' -> VInt (z_of_string (parse_num s i))
  | 's' -> VStr (bytes_of_hex (parse_hex s i))
  | 'c' ->
    let k = int_of_string (parse_num s i) in
    incr i;
    let args = ref [] in
    while s.[!i] <> ']' do
      args := parse_val s i :: !args;
      if s.[!i] = ',' then incr i
    done;
    incr i;
    VCon (nat_of_int k, List.rev !args)
  | _ -> failwith "val"

let run_derive e g x y =
  let e = parse_env e in
  let g = parse_gty g (ref 0) in
  let x = parse_val x (ref 0) and y = parse_val y (ref 0) in
  if not (env_ok e) then "env-not-ok"
  else if not (wt e g x && wt e g y) then "ill-typed"
  else hex_of_bytes (dshow e g x) ^ " " ^ hex_of_bytes (dshow e g y) ^ " " ^ bool_s (deq e g x y)

(* ---- json: value syntax of harness/src/bin/c19/json.rs ---- *)
(* floats: F<16 hex digits of the bit pattern>:<hex of the decimal token>.  The model carries the
   token opaquely (JFloat); the bit pattern is remembered only to print the value back. *)
let float_bits : (n list, string) Hashtbl.t = Hashtbl.create 16

let rec parse_j s i : jv =
  let c = s.[!i] in incr i;
  match c with
  | 'n' -> JNull | 't' -> JBool true | 'f' -> JBool false
  | 'F' ->
    let bits = String.sub s !i 16 in
    i := !i + 16;
    if !i < String.length s && s.[!i] = ':' then incr i;
    let tok = bytes_of_hex (parse_hex s i) in
    Hashtbl.replace float_bits tok bits;
    JFloat tok
  | 'i' -> JInt (z_of_string (parse_num s i))
  | 's' -> JStr (bytes_of_hex (parse_hex s i))
  | 'a' ->
    incr i;
    let xs = ref [] in
    while s.[!i] <> ']' do
      xs := parse_j s i :: !xs;
      if s.[!i] = ',' then incr i
    done;
    incr i; JArr (List.rev !xs)
  | 'o' ->
    incr i;
    let kv = ref [] in
    while s.[!i] <> ']' do
      let k = bytes_of_hex (parse_hex s i) in
      incr i;
      let v = parse_j s i in
      kv := (k, v) :: !kv;
      if s.[!i] = ',' then incr i
    done;
    incr i; JObj (List.rev !kv)
  | _ -> failwith "json value"

let rec show_j = function
  | JNull -> "n" | JBool true -> "t" | JBool false -> "f"
  | JInt z -> "i" ^ string_of_z z
  | JFloat tok -> "F" ^ (match Hashtbl.find_opt float_bits tok with Some b -> b | None -> "?unknown-token")
  | JStr s -> "s" ^ hex_of_bytes s
  | JArr l -> "a[" ^ String.concat "," (List.map show_j l) ^ "]"
  | JObj kv -> "o[" ^ String.concat "," (List.map (fun (k, v) -> hex_of_bytes k ^ ":" ^ show_j v) kv) ^ "]"

let run_json v =
  Hashtbl.reset float_bits;
  let v = parse_j v (ref 0) in
  if not (wf v) then "model-premise-failed: a float token is not a non-integer number token" else
  let text = ser v in
  hex_of_bytes text ^ " " ^ (match de text with Some b -> show_j b | None -> "de-failed")

(* a re-spelling (white space, escapes, exponent spelling) of the text of a value: the model reader
   only reads the compact syntax, so the expected answer is the value itself - the identity the
   property demands of every spelling of ser(v) *)
let run_jsontext v text =
  Hashtbl.reset float_bits;
  let v = parse_j v (ref 0) in
  text ^ " " ^ show_j v

(* typed level: the harness supplies the JSON value the documented encoding gives; the Coq writer
   and reader run on it, the typed value is echoed when the reader returns the encoding unchanged *)
let run_jtyped value enc =
  Hashtbl.reset float_bits;
  let j = parse_j enc (ref 0) in
  if not (wf j) then "model-premise-failed: a float token is not a non-integer number token" else
  let text = ser j in
  match de text with
  | Some b when b = j -> hex_of_bytes text ^ " " ^ value
  | _ -> "de-failed"

let run (line : string) : string =
  match String.split_on_char ' ' line with
  | [] -> "empty"
  | f :: args ->
    let a = arg args in
    (match f with
     | "map" ->
       let ops = List.map (fun t ->
         match String.split_on_char ':' t with
         | [tag; k; v] -> ((tag = "1"), (z_of_string k, z_of_string v))
         | _ -> failwith "bad map op") (split ',' (a 0)) in
       let ((((finds, final), keys), values), union) = zmap_run ops in
       let pairs l = String.concat "," (List.map (fun (k, v) -> "(" ^ string_of_z k ^ ";" ^ string_of_z v ^ ")") l) in
       Printf.sprintf "([%s];[%s];%s;%s;[%s])"
         (String.concat "," (List.map (function None -> "N" | Some v -> "S" ^ string_of_z v) finds))
         (pairs final)
         (show_zlist keys) (show_zlist values) (pairs union)
     | "sort" -> (match zsort (zlist (a 0)) with Done l -> show_zlist l | OutOfFuel -> "OutOfFuel")
     | "filter_gt" -> show_zlist (zfilter_gt (z_of_string (a 0)) (zlist (a 1)))
     | "filter_even" -> show_zlist (zfilter_even (zlist (a 0)))
     | "lfoldl" -> string_of_z (zlist_foldl (zlist (a 0)))
     | "lfoldr" -> string_of_z (zlist_foldr (zlist (a 0)))
     | "lappend" -> show_zlist (zlist_append (zlist (a 0)) (zlist (a 1)))
     | "arr" -> run_arr (a 0) (zl (a 1)) (zl (a 2)) (int_of_string (a 3)) (int_of_string (a 4))
     | "str" -> run_str (a 0) (cps (a 1)) (cps (a 2)) (int_of_string (a 3)) (int_of_string (a 4)) (n_of_int (int_of_string (a 5)))
     | "derive" -> run_derive (a 0) (a 1) (a 2) (a 3)
     | "json" -> run_json (a 0)
     | "jsontext" -> run_jsontext (a 0) (a 1)
     | "jtyped" -> run_jtyped (a 2) (a 3)
     | _ -> "unknown-function " ^ f)

let () =
  try
    while true do
      let line = input_line stdin in
      (* exactly one output line per input line, whatever the input *)
      print_endline (if line = "" then "empty" else (try run line with e -> "model-exception " ^ Printexc.to_string e))
    done
  with End_of_file -> ()
