(* Line protocol driver for the C17 cells model.  One case per input line:
     <mode> <op> <op> ...
   <mode> ::= faithful | fixed
   <op>   ::= <bop>                      basic operation on the main thread
            | n<v>                       ref v
            | l<res>[b<r>]               lazy: <res> ::= v<k> | x | f<j> ; b<r>: bump reference r first
            | t=<bop>,<bop>,...          spawn (body may be empty: "t=")
   <bop>  ::= s<c>.<v> | r<c> | g<r> | p<r>.<v> | f<l> | y
            | u<t>                       resume the coroutine labelled t
            | t[<bop>,<bop>,...]         (inside a body) spawn a coroutine of its own
   Coroutine labels are the positions of the spawns in the text (pre-order: 0, 1, 2, ...);
   the driver assigns them while parsing, exactly as the harness does.
   Reply: the log of the Gluon program the harness generates for the same sequence —
   tokens `<tid>:<obs>` separated by blanks — or `HANG` when the main thread never returns,
   `BAD` for an ill-scoped sequence, `FUEL` if the model ran out of fuel (never: proved).
   The driver only parses and prints (glue, not model). *)
open Model

let rec nat_of_int n = if n <= 0 then O else S (nat_of_int (n - 1))
let rec int_of_nat = function O -> 0 | S n -> 1 + int_of_nat n

let num s = nat_of_int (int_of_string s)

let next_label = ref 0

(* split on commas that are not inside brackets *)
let split_top s =
  if s = "" then [] else begin
    let parts = ref [] and depth = ref 0 and start = ref 0 in
    String.iteri (fun i c ->
      if c = '[' then incr depth
      else if c = ']' then decr depth
      else if c = ',' && !depth = 0 then begin
        parts := String.sub s !start (i - !start) :: !parts; start := i + 1 end) s;
    parts := String.sub s !start (String.length s - !start) :: !parts;
    List.rev !parts
  end

let rec parse_bop s =
  let rest = String.sub s 1 (String.length s - 1) in
  let two () = match String.split_on_char '.' rest with
    | [a; b] -> (num a, num b) | _ -> failwith ("bad operand " ^ s) in
  match s.[0] with
  | 's' -> let (c, v) = two () in BSend (c, v)
  | 'r' -> BRecv (num rest)
  | 'g' -> BLoad (num rest)
  | 'p' -> let (r, v) = two () in BStore (r, v)
  | 'f' -> BForce (num rest)
  | 'y' -> BYield
  | 'u' -> BResume (num rest)
  | 't' ->
      (* t=body (top level) or t[body] (nested) *)
      let inner =
        if rest <> "" && rest.[0] = '=' then String.sub rest 1 (String.length rest - 1)
        else if String.length rest >= 2 && rest.[0] = '[' && rest.[String.length rest - 1] = ']'
        then String.sub rest 1 (String.length rest - 2)
        else failwith ("bad spawn " ^ s) in
      let lab = !next_label in
      incr next_label;
      let body = parse_body inner in
      BSpawn (nat_of_int lab, body)
  | _ -> failwith ("bad bop " ^ s)
and parse_body inner = List.map parse_bop (split_top inner)

let parse_lbody s =
  (* s = <res>[b<r>] *)
  let (res_s, bump) = match String.index_opt s 'b' with
    | Some i -> (String.sub s 0 i, Some (num (String.sub s (i + 1) (String.length s - i - 1))))
    | None -> (s, None) in
  let arg = String.sub res_s 1 (String.length res_s - 1) in
  let res = match res_s.[0] with
    | 'v' -> RVal (num arg)
    | 'x' -> RFail
    | 'f' -> RForce (num arg)
    | _ -> failwith ("bad lazy body " ^ s) in
  { lb_bump = bump; lb_res = res }

let parse_op s =
  let rest () = String.sub s 1 (String.length s - 1) in
  match s.[0] with
  | 'n' -> ORef (num (rest ()))
  | 'l' -> OLazy (parse_lbody (rest ()))
  | _ -> OB (parse_bop s)

exception Whole of string

let token = function
  | ESend (t, _, _) -> Some (Printf.sprintf "%d:s" (int_of_nat t))
  | ERecv (t, _, Some v) -> Some (Printf.sprintf "%d:r%d" (int_of_nat t) (int_of_nat v))
  | ERecv (t, _, None) -> Some (Printf.sprintf "%d:e" (int_of_nat t))
  | ERef (_, _) -> Some "0:n"
  | ELoad (true, t, _, v) -> Some (Printf.sprintf "%d:v%d" (int_of_nat t) (int_of_nat v))
  | ELoad (false, _, _, _) -> None
  | EStore (true, t, _, _) -> Some (Printf.sprintf "%d:w" (int_of_nat t))
  | EStore (false, _, _, _) -> None
  | ELazy (_, _) -> Some "0:n"
  | ERun (_, _) -> None
  | EForce (_, _, _, FFuel) -> raise (Whole "FUEL")
  | EForce (true, t, _, FOk v) -> Some (Printf.sprintf "%d:f%d" (int_of_nat t) (int_of_nat v))
  | EForce (true, t, _, FErr) -> Some (Printf.sprintf "%d:x" (int_of_nat t))
  | EForce (true, _, _, FHang) -> None      (* the force never returns: nothing is logged *)
  | EForce (false, _, _, _) -> None
  | EYield t -> Some (Printf.sprintf "%d:y" (int_of_nat t))
  | ESpawn (t, _) -> Some (Printf.sprintf "%d:n" (int_of_nat t))
  | EResume (t, _, ROk) -> Some (Printf.sprintf "%d:R" (int_of_nat t))
  | EResume (t, _, RDead) -> Some (Printf.sprintf "%d:D" (int_of_nat t))
  | EFuel -> raise (Whole "FUEL")
  | EBad -> raise (Whole "BAD")

let () =
  try
    while true do
      let line = input_line stdin in
      if line <> "" then begin
        match List.filter (fun s -> s <> "") (String.split_on_char ' ' line) with
        | [] -> print_endline ""
        | m :: ops ->
            let mode = match m with "faithful" -> Faithful | "fixed" -> Fixed | _ -> failwith ("bad mode " ^ m) in
            next_label := 0;
            let (tr, hung) = observe mode (List.map parse_op ops) in
            let out =
              try
                let toks = List.filter_map token tr in
                if hung then "HANG" else String.concat " " toks
              with Whole s -> s in
            print_endline out
      end
    done
  with End_of_file -> ()
