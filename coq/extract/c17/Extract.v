From Coq Require Extraction ExtrOcamlBasic.
From GV Require Import Conc.Cells.
Extraction Language OCaml.
Extraction "model.ml" observe.
