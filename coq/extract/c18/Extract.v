From Coq Require Extraction ExtrOcamlBasic.
From GVgen Require Import PrecGen.
From GV Require Import Front.TypeSyntax.
Extraction Language OCaml.
Extraction "model.ml" print parse_type_all parse_top_all.
