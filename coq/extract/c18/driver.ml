(* Line protocol driver for the C18 type-syntax model.  One case per input line:
     print <type>                  -> toks <token>...          ([print PTop t])
     parse let <token>...          -> ok <type> | reject        ([parse_type_all], all input consumed)
     parse top <token>...          -> ok <type> | reject        ([parse_top_all])
   Names are natural numbers (interned by the harness, 0 = `_`).
   <type> ::= (id N) | (funcon) | (fun T T) | (ifun T T) | (app T (T ...)) | (forall (N ...) T)
            | (record ((N (N ...) T) ...) (FIELD ...) REST) | (variant (CTOR ...) REST) | (tuple (T ...))
            | (effect (FIELD ...) REST)
   FIELD ::= (id N T) | (op N T)      CTOR ::= (simple N (T ...)) | (gadt N T)     REST ::= none | (some T)
   <token> ::= iN | oN | lp rp lb rb lc rc comma colon eq pipe dot dotdot arrow forall
   The driver only converts between this text and the extracted inductive types (glue). *)
open Model

let rec nat_of_int n = if n <= 0 then O else S (nat_of_int (n - 1))
let int_of_nat n = let rec go acc = function O -> acc | S m -> go (acc + 1) m in go 0 n

(* ---- s-expressions ---- *)
type sx = A of string | L of sx list

let parse_sx (s : string) : sx =
  let n = String.length s in
  let pos = ref 0 in
  let rec skip () = while !pos < n && s.[!pos] = ' ' do incr pos done
  and item () =
    skip ();
    if !pos >= n then failwith "sexp: eof"
    else if s.[!pos] = '(' then begin
      incr pos;
      let items = ref [] in
      skip ();
      while !pos < n && s.[!pos] <> ')' do
        items := item () :: !items;
        skip ()
      done;
      if !pos >= n then failwith "sexp: missing )";
      incr pos;
      L (List.rev !items)
    end else begin
      let st = !pos in
      while !pos < n && s.[!pos] <> ' ' && s.[!pos] <> '(' && s.[!pos] <> ')' do incr pos done;
      A (String.sub s st (!pos - st))
    end
  in
  item ()

let name_of = function A s -> nat_of_int (int_of_string s) | _ -> failwith "name"
let names_of = function L l -> List.map name_of l | _ -> failwith "names"

let rec ty_of (x : sx) : ty =
  match x with
  | L [A "id"; n] -> TId (name_of n)
  | L [A "funcon"] -> TFunCon
  | L [A "fun"; a; r] -> TFun (false, ty_of a, ty_of r)
  | L [A "ifun"; a; r] -> TFun (true, ty_of a, ty_of r)
  | L [A "app"; f; L args] -> TApp (ty_of f, tys_of args)
  | L [A "forall"; vs; t] -> TForall (names_of vs, ty_of t)
  | L [A "record"; L tfs; L fs; r] -> TRecord (tfields_of tfs, fields_of fs, rest_of r)
  | L [A "variant"; L cs; r] -> TVariant (ctors_of cs, rest_of r)
  | L [A "tuple"; L ts] -> TTuple (tys_of ts)
  | L [A "effect"; L fs; r] -> TEffect (fields_of fs, rest_of r)
  | _ -> failwith "type"
and tys_of = function [] -> TNil | t :: l -> TCons (ty_of t, tys_of l)
and fields_of = function
  | [] -> FNil
  | L [A "id"; n; t] :: l -> FCons (FId (name_of n), ty_of t, fields_of l)
  | L [A "op"; n; t] :: l -> FCons (FOp (name_of n), ty_of t, fields_of l)
  | _ -> failwith "field"
and tfields_of = function
  | [] -> TFNil
  | L [n; ps; t] :: l -> TFCons (name_of n, names_of ps, ty_of t, tfields_of l)
  | _ -> failwith "type field"
and ctors_of = function
  | [] -> CNil
  | L [A "simple"; n; L args] :: l -> CSimple (name_of n, tys_of args, ctors_of l)
  | L [A "gadt"; n; t] :: l -> CGadt (name_of n, ty_of t, ctors_of l)
  | _ -> failwith "ctor"
and rest_of = function
  | A "none" -> RNone
  | L [A "some"; t] -> RSome (ty_of t)
  | _ -> failwith "rest"

let nm n = string_of_int (int_of_nat n)
let nms l = "(" ^ String.concat " " (List.map nm l) ^ ")"

let rec show (t : ty) : string =
  match t with
  | TId n -> "(id " ^ nm n ^ ")"
  | TFunCon -> "(funcon)"
  | TFun (false, a, r) -> "(fun " ^ show a ^ " " ^ show r ^ ")"
  | TFun (true, a, r) -> "(ifun " ^ show a ^ " " ^ show r ^ ")"
  | TApp (f, args) -> "(app " ^ show f ^ " " ^ show_tys args ^ ")"
  | TForall (vs, t) -> "(forall " ^ nms vs ^ " " ^ show t ^ ")"
  | TRecord (tfs, fs, r) -> "(record (" ^ String.concat " " (show_tfields tfs) ^ ") " ^ show_fields fs ^ " " ^ show_rest r ^ ")"
  | TVariant (cs, r) -> "(variant (" ^ String.concat " " (show_ctors cs) ^ ") " ^ show_rest r ^ ")"
  | TTuple ts -> "(tuple " ^ show_tys ts ^ ")"
  | TEffect (fs, r) -> "(effect " ^ show_fields fs ^ " " ^ show_rest r ^ ")"
and list_tys = function TNil -> [] | TCons (t, l) -> show t :: list_tys l
and show_tys l = "(" ^ String.concat " " (list_tys l) ^ ")"
and list_fields = function
  | FNil -> []
  | FCons (FId n, t, l) -> ("(id " ^ nm n ^ " " ^ show t ^ ")") :: list_fields l
  | FCons (FOp n, t, l) -> ("(op " ^ nm n ^ " " ^ show t ^ ")") :: list_fields l
and show_fields l = "(" ^ String.concat " " (list_fields l) ^ ")"
and show_tfields = function
  | TFNil -> []
  | TFCons (n, ps, t, l) -> ("(" ^ nm n ^ " " ^ nms ps ^ " " ^ show t ^ ")") :: show_tfields l
and show_ctors = function
  | CNil -> []
  | CSimple (n, args, l) -> ("(simple " ^ nm n ^ " " ^ show_tys args ^ ")") :: show_ctors l
  | CGadt (n, t, l) -> ("(gadt " ^ nm n ^ " " ^ show t ^ ")") :: show_ctors l
and show_rest = function RNone -> "none" | RSome t -> "(some " ^ show t ^ ")"

(* ---- tokens ---- *)
let tok_of (s : string) : token =
  match s with
  | "lp" -> TkLP | "rp" -> TkRP | "lb" -> TkLB | "rb" -> TkRB | "lc" -> TkLC | "rc" -> TkRC
  | "comma" -> TkComma | "colon" -> TkColon | "eq" -> TkEq | "pipe" -> TkPipe | "dot" -> TkDot
  | "dotdot" -> TkDotDot | "arrow" -> TkArrow | "forall" -> TkForall
  | _ ->
      let k = nat_of_int (int_of_string (String.sub s 1 (String.length s - 1))) in
      if s.[0] = 'i' then TkId k else if s.[0] = 'o' then TkOp k else failwith ("token " ^ s)

let show_tok = function
  | TkId n -> "i" ^ nm n | TkOp n -> "o" ^ nm n
  | TkLP -> "lp" | TkRP -> "rp" | TkLB -> "lb" | TkRB -> "rb" | TkLC -> "lc" | TkRC -> "rc"
  | TkComma -> "comma" | TkColon -> "colon" | TkEq -> "eq" | TkPipe -> "pipe" | TkDot -> "dot"
  | TkDotDot -> "dotdot" | TkArrow -> "arrow" | TkForall -> "forall"

let words s = List.filter (fun w -> w <> "") (String.split_on_char ' ' s)

let handle line =
  if String.length line > 6 && String.sub line 0 6 = "print " then begin
    let t = ty_of (parse_sx (String.sub line 6 (String.length line - 6))) in
    "toks" ^ String.concat "" (List.map (fun k -> " " ^ show_tok k) (print PTop t))
  end else
    match words line with
    | "parse" :: ctx :: toks ->
        let toks = List.map tok_of toks in
        let fuel = nat_of_int (10 * List.length toks + 50) in
        let r = if ctx = "top" then parse_top_all fuel toks else parse_type_all fuel toks in
        (match r with Some t -> "ok " ^ show t | None -> "reject")
    | _ -> failwith "unknown command"

let () =
  try
    while true do
      let line = input_line stdin in
      if line <> "" then print_endline (try handle line with Failure m -> "driver-error " ^ m)
    done
  with End_of_file -> ()
