From Coq Require Extraction ExtrOcamlBasic.
From Coq Require Import ZArith.
From GV Require Import Lib.Marshal.
Extraction Language OCaml.
Extraction "model.ml" push get wf wf_type shape_ok gluon_ty sig_ok ser ser_class de de_class
  Z.add Z.mul Z.div Z.modulo Z.compare Z.of_nat Z.to_nat.
