(* Line protocol driver for the C11 marshalling model (coq/theories/Lib/Marshal.v).
   Input lines (tab separated):
     V <tcode> <rval>          all routes        C <tcode> <rval>   core routes only
     G <tcodeW> <tcodeT> <rval>   request at type W for a global of type T holding the value
     D <tcode> <rval>          the value is stored in a global (extern module)
     R <tcode> <rval>          the global is requested at its own type after another script was loaded
   <tcode>: i64 | ... | (option T) | (result E T) | (vec T) | (map T) | (tuple T..) |
            (struct xNAME kind (xFIELD T)..) | (enum xNAME (xVARIANT kind (xFIELD T)..)..)
   <rval>:  i<dec> | f<hex> | b0 | b1 | s<hex> | u | n | (S v) | (O v) | (E v) | (L v..) |
            (M s<hex> v ..) | (V idx v..)
   Output: tab separated key=value fields, representations in the text format of the harness
   (harness/src/bin/c11/main.rs `walk`).  Only glue: parsing, printing, sorting record names. *)
open Model

let rec pos_of_int n =
  if n = 1 then XH else if n land 1 = 0 then XO (pos_of_int (n lsr 1)) else XI (pos_of_int (n lsr 1))
let z_of_int n = if n = 0 then Z0 else if n > 0 then Zpos (pos_of_int n) else Zneg (pos_of_int (-n))
let rec nat_of_int n = if n <= 0 then O else S (nat_of_int (n - 1))
let rec int_of_nat = function O -> 0 | S n -> 1 + int_of_nat n
let rec int_of_pos = function XH -> 1 | XO p -> 2 * int_of_pos p | XI p -> 2 * int_of_pos p + 1
let int_of_z = function Z0 -> 0 | Zpos p -> int_of_pos p | Zneg p -> - (int_of_pos p)

let z_of_digits base s start =
  let acc = ref Z0 in
  let b = z_of_int base in
  for i = start to String.length s - 1 do
    let c = s.[i] in
    let d = if c >= '0' && c <= '9' then Char.code c - 48 else if c >= 'a' && c <= 'f' then Char.code c - 87 else failwith ("digit " ^ s) in
    acc := Z.add (Z.mul !acc b) (z_of_int d)
  done;
  !acc

let z_of_dec s start =
  if String.length s > start && s.[start] = '-' then
    (match z_of_digits 10 s (start + 1) with Z0 -> Z0 | Zpos p -> Zneg p | Zneg p -> Zpos p)
  else z_of_digits 10 s start

let string_of_z base z =
  let digits = "0123456789abcdef" in
  let b = z_of_int base in
  let rec go z acc =
    match z with
    | Z0 -> acc
    | _ ->
        let q = Z.div z b and r = Z.modulo z b in
        go q (String.make 1 digits.[int_of_z r] ^ acc)
  in
  match z with
  | Z0 -> "0"
  | Zpos _ -> go z ""
  | Zneg p -> "-" ^ go (Zpos p) ""

let hex_of_str (s : z list) = String.concat "" (List.map (fun b -> Printf.sprintf "%02x" (int_of_z b)) s)
let str_of_hex s start =
  let n = (String.length s - start) / 2 in
  List.init n (fun i -> z_of_int (int_of_string ("0x" ^ String.sub s (start + 2 * i) 2)))

(* ---- tokens ---- *)
let tokenize s =
  let toks = ref [] in
  let buf = Buffer.create 16 in
  let flush () = if Buffer.length buf > 0 then (toks := Buffer.contents buf :: !toks; Buffer.clear buf) in
  String.iter (fun c ->
    match c with
    | '(' | ')' -> flush (); toks := String.make 1 c :: !toks
    | ' ' -> flush ()
    | c -> Buffer.add_char buf c) s;
  flush ();
  List.rev !toks

type sx = A of string | L of sx list
let parse_sx s =
  let toks = ref (tokenize s) in
  let next () = match !toks with t :: r -> toks := r; t | [] -> failwith "eof" in
  let peek () = match !toks with t :: _ -> t | [] -> "" in
  let rec one () =
    match next () with
    | "(" ->
        let items = ref [] in
        while peek () <> ")" do items := one () :: !items done;
        ignore (next ());
        L (List.rev !items)
    | t -> A t
  in
  one ()

let name_of = function A s when String.length s >= 1 && s.[0] = 'x' -> str_of_hex s 1 | _ -> failwith "name"
let kind_of = function A "named" -> KNamed | A "tuple" -> KTuple | A "unit" -> KUnit | _ -> failwith "kind"
let prim_of = function
  | "i64" -> PI64 | "i32" -> PI32 | "i16" -> PI16 | "isize" -> PIsize | "u8" -> PU8 | "u16" -> PU16
  | "u32" -> PU32 | "u64" -> PU64 | "usize" -> PUsize | "f64" -> PF64 | "f32" -> PF32 | "bool" -> PBool
  | "char" -> PChar | "string" -> PString | "unit" -> PUnit | "ordering" -> POrdering
  | s -> failwith ("prim " ^ s)

let rec tcode_of = function
  | A p -> TPrim (prim_of p)
  | L [A "option"; t] -> TOption (tcode_of t)
  | L [A "result"; e; t] -> TResult (tcode_of e, tcode_of t)
  | L [A "vec"; t] -> TVec (tcode_of t)
  | L [A "map"; t] -> TMap (tcode_of t)
  | L (A "tuple" :: ts) -> TTuple (List.map tcode_of ts)
  | L (A "struct" :: n :: k :: fs) -> TStruct (name_of n, kind_of k, List.map field_of fs)
  | L (A "enum" :: n :: vs) ->
      TEnum (name_of n, List.map (function
        | L (vn :: k :: fs) -> (name_of vn, (kind_of k, List.map field_of fs))
        | _ -> failwith "variant") vs)
  | _ -> failwith "tcode"
and field_of = function L [n; t] -> (name_of n, tcode_of t) | _ -> failwith "field"

let rec rval_of = function
  | A "u" -> VUnit
  | A "n" -> VNone
  | A "b0" -> VBool false
  | A "b1" -> VBool true
  | A s when s.[0] = 'i' -> VInt (z_of_dec s 1)
  | A s when s.[0] = 'f' -> VFloat (z_of_digits 16 s 1)
  | A s when s.[0] = 's' -> VStr (str_of_hex s 1)
  | L [A "S"; v] -> VSome (rval_of v)
  | L [A "O"; v] -> VOk (rval_of v)
  | L [A "E"; v] -> VErr (rval_of v)
  | L (A "L" :: vs) -> VSeq (List.map rval_of vs)
  | L (A "M" :: kvs) ->
      let rec go = function
        | A k :: v :: rest -> (str_of_hex k 1, rval_of v) :: go rest
        | [] -> []
        | _ -> failwith "map"
      in VMapV (go kvs)
  | L (A "V" :: A i :: vs) -> VVariant (nat_of_int (int_of_string i), List.map rval_of vs)
  | _ -> failwith "rval"

(* ---- printers ---- *)
let rec show_rval b = function
  | VInt z -> Buffer.add_string b ("i" ^ string_of_z 10 z)
  | VFloat z -> Buffer.add_string b ("f" ^ string_of_z 16 z)
  | VBool x -> Buffer.add_string b (if x then "b1" else "b0")
  | VStr s -> Buffer.add_string b ("s" ^ hex_of_str s)
  | VUnit -> Buffer.add_char b 'u'
  | VNone -> Buffer.add_char b 'n'
  | VSome v -> Buffer.add_string b "(S "; show_rval b v; Buffer.add_char b ')'
  | VOk v -> Buffer.add_string b "(O "; show_rval b v; Buffer.add_char b ')'
  | VErr v -> Buffer.add_string b "(E "; show_rval b v; Buffer.add_char b ')'
  | VSeq vs -> Buffer.add_string b "(L"; List.iter (fun v -> Buffer.add_char b ' '; show_rval b v) vs; Buffer.add_char b ')'
  | VMapV kvs ->
      Buffer.add_string b "(M";
      List.iter (fun (k, v) -> Buffer.add_string b (" s" ^ hex_of_str k ^ " "); show_rval b v) kvs;
      Buffer.add_char b ')'
  | VVariant (i, vs) ->
      Buffer.add_string b (Printf.sprintf "(V %d" (int_of_nat i));
      List.iter (fun v -> Buffer.add_char b ' '; show_rval b v) vs;
      Buffer.add_char b ')'
let rval_s v = let b = Buffer.create 64 in show_rval b v; Buffer.contents b
let orval_s = function Some v -> rval_s v | None -> "FAIL"

let akind_s = function AByte -> "byte" | AInt -> "int" | AFloat -> "float" | AString -> "string" | AArray -> "array" | AUnknown -> "unknown"

let rec show_repr b = function
  | RInt z -> Buffer.add_string b ("I" ^ string_of_z 10 z)
  | RByte z -> Buffer.add_string b ("B" ^ string_of_z 10 z)
  | RFloat z -> Buffer.add_string b ("F" ^ string_of_z 16 z)
  | RTag z -> Buffer.add_string b ("T" ^ string_of_z 10 z)
  | RString s -> Buffer.add_string b ("S" ^ hex_of_str s)
  | RData (tag, fs) ->
      Buffer.add_string b ("(D " ^ string_of_z 10 tag);
      List.iter (fun f -> Buffer.add_char b ' '; show_repr b f) fs;
      Buffer.add_char b ')'
  | RRecord ([], fs) -> show_repr b (RData (Z0, fs))   (* no field names: indistinguishable from data, tag() = 0 *)
  | RRecord (names, fs) ->
      Buffer.add_string b "(R";
      List.iter (fun f -> Buffer.add_char b ' '; show_repr b f) fs;
      Buffer.add_string b " |";
      let rec zip a c = match a, c with x :: a', y :: c' -> (hex_of_str x, y) :: zip a' c' | _, _ -> [] in
      let pairs = List.sort (fun (x, _) (y, _) -> compare x y) (zip names fs) in
      List.iter (fun (n, f) -> Buffer.add_string b (" x" ^ n ^ " "); show_repr b f) pairs;
      Buffer.add_char b ')'
  | RArray (k, es) ->
      Buffer.add_string b ("(A " ^ akind_s k);
      List.iter (fun f -> Buffer.add_char b ' '; show_repr b f) es;
      Buffer.add_char b ')'
let repr_s r = let b = Buffer.create 64 in show_repr b r; Buffer.contents b
let bool_s x = if x then "1" else "0"

let handle line =
  match String.split_on_char '\t' line with
  | [("V" | "C") as kind; tc; v] ->
      let t = tcode_of (parse_sx tc) in
      let v = rval_of (parse_sx v) in
      let p = push t v in
      let g = get t p in
      let gs = orval_s g in
      let core = [
        "wf=" ^ bool_s (wf t v && wf_type t);
        "push=" ^ repr_s p; "get=" ^ gs; "root=" ^ gs; "id=" ^ gs; "rb=" ^ gs;
        "wrap=" ^ (match g with Some x -> rval_s (VSome x) | None -> "FAIL");
        "shape=" ^ bool_s (shape_ok (gluon_ty t) p) ] in
      let extra =
        if kind = "C" then []
        else begin
          let s = ser t v in
          let sc = ser_class t and dc = de_class t in
          [ "ser=" ^ repr_s s;
            "depush=" ^ (if dc then orval_s (de t p) else "UNSUP");
            "deser=" ^ (if sc && dc then orval_s (de t s) else "UNSUP");
            "serrb=" ^ (if sc then orval_s (get t s) else "UNSUP");
            "serclass=" ^ bool_s sc; "declass=" ^ bool_s dc;
            "sershape=" ^ bool_s (shape_ok (gluon_ty t) s) ]
        end in
      String.concat "\t" (core @ extra)
  | ["D"; tc; v] ->
      (* defining a global that holds the value: the model has nothing that could fail *)
      let _ = tcode_of (parse_sx tc) in
      let _ = rval_of (parse_sx v) in
      "define=OK"
  | ["R"; tc; v] ->
      let t = tcode_of (parse_sx tc) in
      let v = rval_of (parse_sx v) in
      "reget=" ^ bool_s (sig_ok t (gluon_ty t)) ^ ":" ^ orval_s (get t (push t v))
  | ["G"; tw; tt; v] ->
      let w = tcode_of (parse_sx tw) in
      let t = tcode_of (parse_sx tt) in
      let v = rval_of (parse_sx v) in
      let ok = sig_ok w (gluon_ty t) in
      let x = if ok then orval_s (get w (push t v)) else "-" in
      String.concat "\t" [ "sig=" ^ bool_s ok; "fsig=" ^ bool_s ok; "x=" ^ x ]
  | _ -> "bad-input"

let () =
  try
    while true do
      let line = input_line stdin in
      if line <> "" then print_endline (try handle line with Failure m -> "driver-error " ^ m)
    done
  with End_of_file -> ()
