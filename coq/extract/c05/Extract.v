From Coq Require Extraction ExtrOcamlBasic.
From GVgen Require Import GenerationGen.
From GV Require Import Heap.Heap Heap.MarkSweep.
Extraction Language OCaml.
Extraction "model.ml" add_root add_child gen_of lookup desc collect.
