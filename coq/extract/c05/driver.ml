(* Line protocol driver for the C05 collection model (Heap/MarkSweep.v `collect`: mark with the
   GENERATED generation skip test, sweep of the collecting heap and the heaps below it).
   One dumped heap per input line:
     tree=<p>,<p>,...;objs=<o>|<o>|...;roots=<h>:<id>.<id>...|<h>:...;collect=<t>
   <p>  parent heap index or `-` (heaps numbered in creation order)
   <o>  <owner>:<gen>:<kind>:<size>:<e>.<e>...     object ids = position in the list
   <e>  i<n> immediate | p<n> pointer to object n | `-` no fields
   roots: per heap (= the thread owning it) the ids its roots point to
   Reply:  ok freed=<id>,<id>,... alloc=<h>:<bytes>,...   (ids ascending; alloc = accounted bytes per
           heap after the collection, starting from the sum of the dumped objects' sizes)
           genmismatch <id> | nofuel
   Everything but parsing and printing is the extracted model. *)
open Model

let rec nat_of_int n = if n <= 0 then O else S (nat_of_int (n - 1))
let rec int_of_nat = function O -> 0 | S n -> 1 + int_of_nat n
let rec pos_of_int n =
  if n = 1 then XH else if n land 1 = 0 then XO (pos_of_int (n lsr 1)) else XI (pos_of_int (n lsr 1))
let z_of_int n = if n = 0 then Z0 else if n > 0 then Zpos (pos_of_int n) else Zneg (pos_of_int (-n))
let rec int_of_pos = function XH -> 1 | XO p -> 2 * int_of_pos p | XI p -> 2 * int_of_pos p + 1
let int_of_z = function Z0 -> 0 | Zpos p -> int_of_pos p | Zneg p -> - (int_of_pos p)

let split c s = if s = "" then [] else String.split_on_char c s

let field key line =
  let parts = String.split_on_char ';' line in
  let pre = key ^ "=" in
  let l = String.length pre in
  let rec find = function
    | [] -> failwith ("missing field " ^ key)
    | p :: ps -> if String.length p >= l && String.sub p 0 l = pre then String.sub p l (String.length p - l) else find ps
  in find parts

let kind_of_int = function
  | 0 -> KData | 1 -> KClosure | 2 -> KPapp | 3 -> KArrUnknown | 4 -> KArrArray | 5 -> KArrString
  | 6 -> KArrPrim | 7 -> KArrUserdata | 8 -> KString | 9 -> KExtern | 10 -> KBytecode | 11 -> KCell
  | _ -> KOpaque

let edge_of s =
  let n = int_of_string (String.sub s 1 (String.length s - 1)) in
  if s.[0] = 'i' then Imm (z_of_int n) else Ptr (nat_of_int n)

let run line =
  let tr = List.fold_left (fun tr p ->
      if p = "-" then fst (add_root tr) else fst (add_child tr (nat_of_int (int_of_string p))))
      [] (split ',' (field "tree" line)) in
  let nheaps = List.length tr in
  let objs = List.map (fun o ->
      match String.split_on_char ':' o with
      | [owner; gen; kind; size; fs] ->
        { o_owner = nat_of_int (int_of_string owner); o_gen = z_of_int (int_of_string gen);
          o_kind = kind_of_int (int_of_string kind); o_tag = Z0;
          o_cell = nat_of_int (int_of_string owner); o_size = nat_of_int (int_of_string size);
          o_fields = (if fs = "-" then [] else List.map edge_of (split '.' fs)) }
      | _ -> failwith ("bad object " ^ o)) (split '|' (field "objs" line)) in
  let bad = ref None in
  List.iteri (fun i ob ->
      if int_of_z (gen_of tr ob.o_owner) <> int_of_z ob.o_gen && !bad = None then bad := Some i) objs;
  match !bad with
  | Some i -> Printf.sprintf "genmismatch %d" i
  | None ->
    let roots = Array.make nheaps [] in
    List.iter (fun r ->
        match String.split_on_char ':' r with
        | [h; ids] -> roots.(int_of_string h) <- List.map (fun x -> Ptr (nat_of_int (int_of_string x))) (split '.' ids)
        | _ -> failwith ("bad roots " ^ r)) (split '|' (field "roots" line));
    let alloc = Array.make nheaps 0 in
    List.iter (fun ob -> let h = int_of_nat ob.o_owner in alloc.(h) <- alloc.(h) + int_of_nat ob.o_size) objs;
    let s = { s_tree = tr; s_store = List.map (fun ob -> Some ob) objs;
              s_roots = Array.to_list roots;
              s_alloc = List.map nat_of_int (Array.to_list alloc) } in
    let t = nat_of_int (int_of_string (field "collect" line)) in
    match collect s t with
    | None -> "nofuel"
    | Some s' ->
      let freed = ref [] in
      List.iteri (fun i x -> match x with None -> freed := i :: !freed | Some _ -> ()) s'.s_store;
      Printf.sprintf "ok freed=%s alloc=%s"
        (String.concat "," (List.map string_of_int (List.rev !freed)))
        (String.concat "," (List.mapi (fun h a -> Printf.sprintf "%d:%d" h (int_of_nat a)) s'.s_alloc))

let () =
  try
    while true do
      let line = input_line stdin in
      if line = "skip" then print_endline "skip"
      else if line <> "" then print_endline (try run line with Failure m -> "driver-error " ^ m)
    done
  with End_of_file -> ()
