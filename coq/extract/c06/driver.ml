(* Line-protocol driver for the C06 primitive model (coq/theories/Lib/Prims.v).
   Input lines:
     sig <module> <name>                    -> `sig T1,T2,..` | `sig unmodelled`
     val <module> <name> <arg>..            -> `ret <value>` | `err:vm` | `abort` | `unmodelled`
     cls <module> <name> <arg>..            -> same, but every returned value is printed as `_`
     mon ...                                -> `mon`   (monitored-only primitive: no model)
     known_bad                              -> `known_bad <module>.<name> ...`
   <arg> ::= i:<dec> | b:<dec> | c:<dec> | f:<any> | s:<hex> | a:<dec>,<dec>,.. | y:<hex> | u | B:<hex>
   <value> ::= <dec> | <dec>b | s<hex> | LPAREN <tag> <value>.. RPAREN | LBRACKET <value>.. RBRACKET | _
   Only conversions between text and the extracted inductive numbers/strings live here. *)
type ostring = string
open Model

(* ---- decimal text <-> positive / Z (no native big integers) ---- *)
let div2 (ds : int list) : int list * int =
  (* ds: decimal digits, most significant first; returns quotient and remainder *)
  let rem = ref 0 in
  let q = List.map (fun d -> let cur = !rem * 10 + d in rem := cur mod 2; cur / 2) ds in
  let rec strip = function 0 :: (_ :: _ as r) -> strip r | l -> l in
  (strip q, !rem)

let rec pos_of_digits (ds : int list) : positive =
  (* ds > 0 *)
  match ds with
  | [1] -> XH
  | _ -> let (q, r) = div2 ds in if r = 0 then XO (pos_of_digits q) else XI (pos_of_digits q)

let digits_of_string s = List.init (String.length s) (fun i -> Char.code s.[i] - 48)

let z_of_string (s : ostring) : z =
  let neg = String.length s > 0 && s.[0] = '-' in
  let body = if neg then String.sub s 1 (String.length s - 1) else s in
  let rec strip = function 0 :: (_ :: _ as r) -> strip r | l -> l in
  let ds = strip (digits_of_string body) in
  if ds = [0] || ds = [] then Z0 else if neg then Zneg (pos_of_digits ds) else Zpos (pos_of_digits ds)

let z_of_int n = z_of_string (string_of_int n)

(* positive -> decimal digits (least significant first) *)
let rec digits_of_pos (p : positive) : int list =
  let dbl_add ds b =
    let carry = ref b in
    let r = List.map (fun d -> let v = d * 2 + !carry in carry := v / 10; v mod 10) ds in
    if !carry > 0 then r @ [!carry] else r in
  match p with
  | XH -> [1]
  | XO q -> dbl_add (digits_of_pos q) 0
  | XI q -> dbl_add (digits_of_pos q) 1

let string_of_pos p = String.concat "" (List.rev_map string_of_int (digits_of_pos p))
let string_of_z = function Z0 -> "0" | Zpos p -> string_of_pos p | Zneg p -> "-" ^ string_of_pos p
let int_of_z z = int_of_string (string_of_z z)

(* ---- Coq strings ---- *)
let coq_string (s : ostring) : Model.string =
  let rec go i = if i >= String.length s then EmptyString else
    let c = Char.code s.[i] in
    let b k = (c lsr k) land 1 = 1 in
    String (Ascii (b 0, b 1, b 2, b 3, b 4, b 5, b 6, b 7), go (i + 1)) in
  go 0
let ocaml_string (s : Model.string) : ostring =
  let buf = Buffer.create 16 in
  let rec go = function
    | EmptyString -> ()
    | String (Ascii (b0, b1, b2, b3, b4, b5, b6, b7), r) ->
        let v x k = if x then 1 lsl k else 0 in
        Buffer.add_char buf (Char.chr (v b0 0 + v b1 1 + v b2 2 + v b3 3 + v b4 4 + v b5 5 + v b6 6 + v b7 7));
        go r in
  go s; Buffer.contents buf

(* ---- arguments ---- *)
let bytes_of_hex (h : ostring) : z list =
  List.init (String.length h / 2) (fun i -> z_of_int (int_of_string ("0x" ^ String.sub h (2 * i) 2)))

let parse_arg (t : ostring) : arg =
  if t = "u" then AUnit else
  let k = t.[0] and v = String.sub t 2 (String.length t - 2) in
  match k with
  | 'i' -> AInt (z_of_string v)
  | 'b' -> AByte (z_of_string v)
  | 'c' -> AChar (z_of_string v)
  | 'f' -> AFloat
  | 's' -> AStr (bytes_of_hex v)
  | 'y' -> ABytes (bytes_of_hex v)
  | 'B' -> ABuf (bytes_of_hex v)
  | 'a' -> AArr (if v = "" then [] else List.map z_of_string (String.split_on_char ',' v))
  | _ -> failwith ("bad argument " ^ t)

(* ---- values ---- *)
let hex_of_bytes (l : z list) : ostring = String.concat "" (List.map (fun b -> Printf.sprintf "%02x" (int_of_z b)) l)

let rec show_value (v : value) : ostring =
  match v with
  | VInt z -> string_of_z z
  | VByte z -> string_of_z z ^ "b"
  | VStr s -> "s" ^ hex_of_bytes s
  | VData (tag, fields) -> "(" ^ String.concat " " (string_of_z tag :: List.map show_value fields) ^ ")"
  | VArr l -> "[" ^ String.concat " " (List.map show_value l) ^ "]"
  | VOpaque -> "_"

let show_ty = function
  | TInt -> "Int" | TByte -> "Byte" | TChar -> "Char" | TFloat -> "Float" | TStr -> "String"
  | TArr -> "Array" | TArrByte -> "ArrayByte" | TUnit -> "Unit" | TBuf -> "Buf" | TAny -> "Any"

let () =
  try
    while true do
      let line = input_line stdin in
      let toks = List.filter (fun s -> s <> "") (String.split_on_char ' ' line) in
      match toks with
      | [] -> print_endline ""
      | "mon" :: _ -> print_endline "mon"
      | ["known_bad"] ->
          print_endline (String.concat " " ("known_bad" :: List.map (fun (m, n) -> ocaml_string m ^ "." ^ ocaml_string n) known_bad_names))
      | ["sig"; m; n] ->
          (match sig_named (coq_string m) (coq_string n) with
           | Some tys -> print_endline ("sig " ^ String.concat "," (List.map show_ty tys))
           | None -> print_endline "sig unmodelled")
      | mode :: m :: n :: args when mode = "val" || mode = "cls" ->
          (match eval_named (coq_string m) (coq_string n) (List.map parse_arg args) with
           | Ret v -> print_endline ("ret " ^ (if mode = "cls" then "_" else show_value v))
           | GluonError -> print_endline "err:vm"
           | HostPanic -> print_endline "abort"
           | Unmodelled -> print_endline "unmodelled")
      | _ -> print_endline ("bad-line " ^ line)
    done
  with End_of_file -> ()
