From Coq Require Extraction ExtrOcamlBasic.
From GV Require Import Lib.Prims.
Extraction Language OCaml.
Extraction "model.ml" eval_named sig_named known_bad_names.
