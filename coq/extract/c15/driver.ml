(* Line protocol driver for the C15 module-engine model.  One history per input line:
     <mode>|<op>|<op>|...
   <mode> ::= spec | asis | always
                                 (spec: a first definition starts a new revision iff the module was
                                  requested before [NewIfRequested]; asis: never, src/query.rs:213 as it
                                  stands [NewNever]; always: every first definition [NewAlways])
   <op>   ::= set <m> <I|S> <n> [<i>,<i>,...]     define / redefine module m
            | eval <m>                             evaluate `import! m`
            | load <m> <I|S> <n> [<i>,...]         load_script = set followed by eval (value shown as ok)
            | async                                marker for the harness (VM with a tokio spawner); ignored here
   Reply: one segment per eval/load, joined by " | ":
     e<m> L=<res>/<ran> F=<res>/<ran>
   L: the incremental engine ([run]); F: [inc_eval] on an engine with the same sources and an empty
   memo table (what a fresh VM does, including the bodies it runs).
   <res> ::= i<n> | s<n> | ok | cyc | fail[M<a>,<b>;T<c>] | oof     <ran> ::= sorted module list
   Sorting / deduplication of causes and bodies is glue; everything else is the extracted model. *)
open Model

let rec nat_of_int n = if n <= 0 then O else S (nat_of_int (n - 1))
let rec int_of_nat = function O -> 0 | S n -> 1 + int_of_nat n
let rec pos_of_int n =
  if n = 1 then XH else if n land 1 = 0 then XO (pos_of_int (n lsr 1)) else XI (pos_of_int (n lsr 1))
let z_of_int n = if n = 0 then Z0 else if n > 0 then Zpos (pos_of_int n) else Zneg (pos_of_int (-n))
let rec int_of_pos = function XH -> 1 | XO p -> 2 * int_of_pos p | XI p -> 2 * int_of_pos p + 1
let int_of_z = function Z0 -> 0 | Zpos p -> int_of_pos p | Zneg p -> - (int_of_pos p)

let words s = List.filter (fun w -> w <> "") (String.split_on_char ' ' s)

let source_of ws =
  match ws with
  | k :: n :: rest ->
      let imps = match rest with
        | [] -> []
        | l :: _ -> List.map (fun x -> nat_of_int (int_of_string x)) (List.filter (fun w -> w <> "") (String.split_on_char ',' l)) in
      { imports = imps; skind = (if k = "S" then KStr else KInt); snum = z_of_int (int_of_string n) }
  | _ -> failwith "bad source"

let uniq_sorted l = List.sort_uniq compare l

let show_res as_load r =
  match canon r with
  | CValue (VInt z) -> if as_load then "ok" else Printf.sprintf "i%d" (int_of_z z)
  | CValue (VStr z) -> if as_load then "ok" else Printf.sprintf "s%d" (int_of_z z)
  | CCyc -> "cyc"
  | COOF -> "oof"
  | CFail (cs, _) ->
      let ms = uniq_sorted (List.filter_map (function CMissing m -> Some (int_of_nat m) | _ -> None) cs) in
      let ts = uniq_sorted (List.filter_map (function CType m -> Some (int_of_nat m) | _ -> None) cs) in
      let j l = String.concat "," (List.map string_of_int l) in
      Printf.sprintf "fail[M%s;T%s]" (j ms) (j ts)

let show_ran ev = String.concat "," (List.map string_of_int (uniq_sorted (List.map int_of_nat ev)))

let handle line =
  match String.split_on_char '|' line with
  | [] -> ""
  | mode :: ops ->
      let bump = (match String.trim mode with "spec" -> NewIfRequested | "always" -> NewAlways | _ -> NewNever) in
      let e = ref empty_engine in
      let out = ref [] in
      let do_eval as_load m =
        let ((e1, r), ev) = inc_eval !e (nat_of_int m) in
        let fresh_engine = { srcs = !e.srcs; revn = O; memt = [] } in
        let ((_, fr), fev) = inc_eval fresh_engine (nat_of_int m) in
        (* the engine built through [run] must agree with stepping it here *)
        e := e1;
        out := Printf.sprintf "%s%d L=%s/%s F=%s/%s" (if as_load then "l" else "e") m
                 (show_res as_load r) (show_ran ev) (show_res as_load fr) (show_ran fev) :: !out in
      List.iter (fun o ->
        match words o with
        | "set" :: m :: rest ->
            let (e1, _) = run bump !e [Edit (nat_of_int (int_of_string m), source_of rest)] in e := e1
        | "eval" :: m :: _ -> do_eval false (int_of_string m)
        | "load" :: m :: rest ->
            let (e1, _) = run bump !e [Edit (nat_of_int (int_of_string m), source_of rest)] in e := e1;
            do_eval true (int_of_string m)
        | [] -> ()
        | "async" :: _ -> ()   (* which VM flavour runs the history: irrelevant to the model *)
        | _ -> failwith ("bad op: " ^ o)) ops;
      String.concat " | " (List.rev !out)

let () =
  try
    while true do
      let line = input_line stdin in
      if String.trim line <> "" then print_endline (handle line) else print_endline ""
    done
  with End_of_file -> ()
