From Coq Require Extraction ExtrOcamlBasic.
From GV Require Import Conc.Modules.
Extraction Language OCaml.
Extraction "model.ml" run fresh_eval inc_eval queries empty_engine canon cycles_of.
