(* Line protocol driver for the C13 clone model.  One case per input line:
     tree=<p>,<p>,...;objs=<o>|<o>|...;route=<r>;root=<e>
   <p>  parent heap index, or `-` for a global heap (heaps are numbered in creation order)
   <o>  <owner>:<gen>:<kind>:<tag>:<cell>:<e>.<e>...    (object ids = position in the list)
   <kind> 0 data 1 closure 2 papp 3 arr-unknown 4 arr-array 5 arr-string 6 arr-prim 7 arr-userdata
          8 string 9 extern 10 bytecode 11 cell 12 opaque
   <e>  i<n> immediate (interned) | p<n> pointer to object n | `-` no fields
   <r>  reroot:<s>:<t> | cell:<x> | force:<x>:<s> | promote:<t> | share
   Reply: `err` when the clone fails, `genmismatch <o>` when an object's generation is not the
   one the model computes for its owner, else
     ok root=<e> | <name>:<kind>@<owner>#<tag>~<cell>(<e>,<e>,...) | ...
   the result graph in depth-first first-visit order; <name> = s<n> for source object n (shared),
   n<k> for the k-th copy met.  The rendering is glue; everything else is the extracted model. *)
open Model

let rec nat_of_int n = if n <= 0 then O else S (nat_of_int (n - 1))
let rec int_of_nat = function O -> 0 | S n -> 1 + int_of_nat n
let rec pos_of_int n =
  if n = 1 then XH else if n land 1 = 0 then XO (pos_of_int (n lsr 1)) else XI (pos_of_int (n lsr 1))
let z_of_int n = if n = 0 then Z0 else if n > 0 then Zpos (pos_of_int n) else Zneg (pos_of_int (-n))
let rec int_of_pos = function XH -> 1 | XO p -> 2 * int_of_pos p | XI p -> 2 * int_of_pos p + 1
let int_of_z = function Z0 -> 0 | Zpos p -> int_of_pos p | Zneg p -> - (int_of_pos p)

let split c s = if s = "" then [] else String.split_on_char c s

let field key line =
  let parts = String.split_on_char ';' line in
  let pre = key ^ "=" in
  let l = String.length pre in
  let rec find = function
    | [] -> failwith ("missing field " ^ key)
    | p :: ps -> if String.length p >= l && String.sub p 0 l = pre then String.sub p l (String.length p - l) else find ps
  in find parts

let kind_of_int = function
  | 0 -> KData | 1 -> KClosure | 2 -> KPapp | 3 -> KArrUnknown | 4 -> KArrArray | 5 -> KArrString
  | 6 -> KArrPrim | 7 -> KArrUserdata | 8 -> KString | 9 -> KExtern | 10 -> KBytecode | 11 -> KCell
  | _ -> KOpaque
let int_of_kind = function
  | KData -> 0 | KClosure -> 1 | KPapp -> 2 | KArrUnknown -> 3 | KArrArray -> 4 | KArrString -> 5
  | KArrPrim -> 6 | KArrUserdata -> 7 | KString -> 8 | KExtern -> 9 | KBytecode -> 10 | KCell -> 11
  | KOpaque -> 12

let edge_of s =
  let n = int_of_string (String.sub s 1 (String.length s - 1)) in
  if s.[0] = 'i' then Imm (z_of_int n) else Ptr (nat_of_int n)

let run line =
  let tr = List.fold_left (fun tr p ->
      if p = "-" then fst (add_root tr) else fst (add_child tr (nat_of_int (int_of_string p))))
      [] (split ',' (field "tree" line)) in
  let objs = List.map (fun o ->
      match String.split_on_char ':' o with
      | [owner; gen; kind; tag; cell; fs] ->
        { o_owner = nat_of_int (int_of_string owner); o_gen = z_of_int (int_of_string gen);
          o_kind = kind_of_int (int_of_string kind); o_tag = z_of_int (int_of_string tag);
          o_cell = nat_of_int (int_of_string cell); o_size = O;
          o_fields = (if fs = "-" then [] else List.map edge_of (split '.' fs)) }
      | _ -> failwith ("bad object " ^ o)) (split '|' (field "objs" line)) in
  let n0 = List.length objs in
  let bad = ref None in
  List.iteri (fun i ob ->
      if int_of_z (gen_of tr ob.o_owner) <> int_of_z ob.o_gen && !bad = None then bad := Some i) objs;
  match !bad with
  | Some i -> Printf.sprintf "genmismatch %d" i
  | None ->
    let st = List.map (fun ob -> Some ob) objs in
    let route = match String.split_on_char ':' (field "route" line) with
      | ["reroot"; s; t] -> RReroot (nat_of_int (int_of_string s), nat_of_int (int_of_string t))
      | ["cell"; x] -> RCell (nat_of_int (int_of_string x))
      | ["force"; x; s] -> RForce (nat_of_int (int_of_string x), nat_of_int (int_of_string s))
      | ["promote"; t] -> RPromote (nat_of_int (int_of_string t))
      | ["share"] -> RShare
      | _ -> failwith "bad route" in
    let root = edge_of (field "root" line) in
    let fuel = nat_of_int ((n0 + 2) * (n0 + 2)) in
    match transfer fuel tr st route root with
    | None -> "err"
    | Some ((st', _), r) ->
      let names = Hashtbl.create 16 in
      let fresh = ref 0 in
      let out = Buffer.create 256 in
      let name o =
        match Hashtbl.find_opt names o with
        | Some s -> (s, false)
        | None ->
          let s = if o < n0 then Printf.sprintf "s%d" o else (incr fresh; Printf.sprintf "n%d" (!fresh - 1)) in
          Hashtbl.add names o s; (s, true) in
      let rec edge e =
        match e with
        | Imm z -> Printf.sprintf "i%d" (int_of_z z)
        | Ptr o ->
          let o = int_of_nat o in
          let (s, is_new) = name o in
          if is_new then begin
            match lookup st' (nat_of_int o) with
            | None -> Buffer.add_string out (Printf.sprintf " | %s:freed" s)
            | Some ob ->
              (* reserve the position of this node before its children: print into a slot *)
              let slot = Buffer.length out in
              ignore slot;
              let children = ref [] in
              let buf_before = Buffer.contents out in
              Buffer.clear out;
              let es = List.map (fun f -> edge f) ob.o_fields in
              let rest = Buffer.contents out in
              Buffer.clear out;
              Buffer.add_string out buf_before;
              ignore children;
              Buffer.add_string out (Printf.sprintf " | %s:%d@%d#%d~%d(%s)" s (int_of_kind ob.o_kind)
                                       (int_of_nat ob.o_owner) (int_of_z ob.o_tag)
                                       (if ob.o_kind = KCell then int_of_nat ob.o_cell else 0)
                                       (String.concat "," es));
              Buffer.add_string out rest
          end;
          s in
      let r = edge r in
      Printf.sprintf "ok root=%s%s" r (Buffer.contents out)

let () =
  try
    while true do
      let line = input_line stdin in
      if line <> "" then print_endline (try run line with Failure m -> "driver-error " ^ m)
    done
  with End_of_file -> ()
