(* Line protocol driver for the C20 span-tree model (coq/theories/Front/Spans.v).

   T <id> <tree>      sets the current tree; reply `T <id> wf=<0|1> plain=<0|1> noforce=<0|1>`
     <tree> ::= ( <start> <end> <kind> <lab> <nbinders> (<name> <sort> <start> <end>)* <tree>* )
   Q <pos> <ty> sg=<n,n,...> fx=<n,n,...>
     <pos>   cursor position (BytePos), <ty> index of the type text the implementation reported
     (0 = none), sg = names the implementation suggested, fx = names admitted besides scope_at
     (environment globals, fields of the record being projected / matched).
     reply  `opaque`                                           search entered an unmodelled node
            `r=N`                                              complete_at = Err(())
            `r=E e=<s>-<e> ty=ok sc=<ok|bad:n/c,n/c>`          no match, last enclosing span; n = name, c =
                                                               sort of its nearest binder + b(efore)/a(fter) or `unbound`
            `r=F m=<variant>:<s>-<e> e=<s>-<e> ty=<ok|bad:<expected>:<observed>> sc=<ok|bad:..>`
   Everything decided here is decided by the extracted functions; the driver only converts
   numbers and prints. *)
open Model

let rec nat_of_int n = if n <= 0 then O else S (nat_of_int (n - 1))
let rec int_of_nat = function O -> 0 | S n -> 1 + int_of_nat n
let rec pos_of_int n =
  if n = 1 then XH else if n land 1 = 0 then XO (pos_of_int (n lsr 1)) else XI (pos_of_int (n lsr 1))
let z_of_int n = if n = 0 then Z0 else if n > 0 then Zpos (pos_of_int n) else Zneg (pos_of_int (-n))
let rec int_of_pos = function XH -> 1 | XO p -> 2 * int_of_pos p | XI p -> 2 * int_of_pos p + 1
let int_of_z = function Z0 -> 0 | Zpos p -> int_of_pos p | Zneg p -> - (int_of_pos p)

let mk_span s e = { start = z_of_int s; end_ = z_of_int e }
let show_span sp = Printf.sprintf "%d-%d" (int_of_z sp.start) (int_of_z sp.end_)

let parse_tree (toks : string array) (i : int ref) : node =
  let next () = let t = toks.(!i) in incr i; t in
  let int () = int_of_string (next ()) in
  let rec tree () =
    if next () <> "(" then failwith "expected (";
    let s = int () in let e = int () in let k = int () in let l = int () in
    let nb = int () in
    let bs = List.init nb (fun _ -> let n = int () in let k = int () in let bs = int () in let be = int () in { bname = nat_of_int n; bkind = nat_of_int k; bscope = mk_span bs be }) in
    let cs = ref [] in
    while toks.(!i) <> ")" do cs := tree () :: !cs done;
    ignore (next ());
    N (mk_span s e, nat_of_int k, nat_of_int l, bs, List.rev !cs)
  in tree ()

let ids s =
  if s = "" then [] else List.map (fun x -> nat_of_int (int_of_string x)) (String.split_on_char ',' s)

let strip pre s =
  let l = String.length pre in
  if String.length s >= l && String.sub s 0 l = pre then String.sub s l (String.length s - l) else failwith ("expected " ^ pre)

let b2i b = if b then 1 else 0

let () =
  let cur = ref None in
  try
    while true do
      let line = input_line stdin in
      if line <> "" then begin
        let toks = Array.of_list (List.filter (fun s -> s <> "") (String.split_on_char ' ' line)) in
        match toks.(0) with
        | "T" ->
            let i = ref 2 in
            let t = parse_tree toks i in
            cur := Some t;
            Printf.printf "T %s wf=%d plain=%d noforce=%d\n" toks.(1) (b2i (wf_b t)) (b2i (plain_b t)) (b2i (no_force_b t))
        | "Q" ->
            let t = match !cur with Some t -> t | None -> failwith "Q before T" in
            let p = z_of_int (int_of_string toks.(1)) in
            let ty = nat_of_int (int_of_string toks.(2)) in
            let sg = ids (strip "sg=" toks.(3)) in
            let fx = ids (strip "fx=" toks.(4)) in
            let r = find_at t p in
            (match r.st with
             | SOpaque -> print_endline "opaque"
             | SNotFound -> print_endline "r=N"
             | _ ->
                 let root = (match t with N (s, _, _, _, _) -> s) in
                 let e = show_span (last_enclosing r root) in
                 let tyv = if type_ok r ty then "ok" else
                     (match r.hit with Some h -> Printf.sprintf "bad:%d:%d" (int_of_nat h.hlab) (int_of_nat ty) | None -> "bad") in
                 let sc = match out_of_scope t p fx sg with
                   | [] -> "ok"
                   | l -> "bad:" ^ String.concat "," (List.map (fun n ->
                       let cls = match nearest_binder t p n with
                         | None -> "unbound"
                         | Some (k, before) -> Printf.sprintf "%d%s" (int_of_nat k) (if before then "b" else "a") in
                       Printf.sprintf "%d/%s" (int_of_nat n) cls) l) in
                 (match r.st, r.hit with
                  | SFound, Some h ->
                      Printf.printf "r=F m=%d:%s e=%s ty=%s sc=%s\n" (int_of_nat (variant h.hkind)) (show_span h.hsp) e tyv sc
                  | _, _ -> Printf.printf "r=E e=%s ty=%s sc=%s\n" e tyv sc))
        | _ -> failwith ("bad line: " ^ line)
      end
    done
  with End_of_file -> ()
