From Coq Require Extraction ExtrOcamlBasic.
From GVgen Require Import SpanGen.
From GV Require Import Front.Spans.
Extraction Language OCaml.
Extraction "model.ml" find_at last_enclosing variant scope_at out_of_scope nearest_binder type_ok wf_b plain_b no_force_b.
