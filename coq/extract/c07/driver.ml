(* Line protocol driver for the C07 models (extracted: StackBound.verify_fn & co, Account.trace_ops).

   fn <id> <args> <max_stack_size> <tok> <tok> ...
        <tok> ::= Name | Name:a | Name:a:b       instruction with its integer operands
                  Split:k                        k = annotated field count (NOT an operand)
        reply:  fn <id> ok
                fn <id> reject infer@<pc> | check@<pc> | init
   acct <hdr> <limit> <op> <op> ...
        <op> ::= a<size> | i<size> | A<size> | d<index> | c
        reply:  acct <allocated>[!] ...          one entry per op, `!` = OutOfMemory reported
   slack <hdr>
        reply:  slack <n> limit=<witness limit> size=<witness payload> trace=<allocated>[!]
   The driver only converts between decimal text and the extracted inductive numbers. *)
open Model

let rec nat_of_int n = if n <= 0 then O else S (nat_of_int (n - 1))
let rec int_of_nat = function O -> 0 | S n -> 1 + int_of_nat n

(* decimal string -> positive / N / Z through Z arithmetic on OCaml's arbitrary strings:
   operands are at most 64-bit; use Int64 unsigned-safe conversion by halving the digit string *)
let rec pos_of_int64 (n : int64) : positive =
  (* n > 0 as unsigned *)
  if n = 1L then XH
  else
    let half = Int64.shift_right_logical n 1 in
    if Int64.logand n 1L = 0L then XO (pos_of_int64 half) else XI (pos_of_int64 half)

let n_of_u64 (n : int64) : n = if n = 0L then N0 else Npos (pos_of_int64 n)
let n_of_string s : n = n_of_u64 (Int64.of_string ("0u" ^ s))
let z_of_string s : z =
  if String.length s > 0 && s.[0] = '-' then
    let m = String.sub s 1 (String.length s - 1) in
    (match n_of_string m with N0 -> Z0 | Npos p -> Zneg p)
  else (match n_of_string s with N0 -> Z0 | Npos p -> Zpos p)

let rec int64_of_pos = function
  | XH -> 1L
  | XO p -> Int64.shift_left (int64_of_pos p) 1
  | XI p -> Int64.logor (Int64.shift_left (int64_of_pos p) 1) 1L
let string_of_n = function N0 -> "0" | Npos p -> Printf.sprintf "%Lu" (int64_of_pos p)

let instr_of_tok (t : string) : instr * nat =
  match String.split_on_char ':' t with
  | [ "Split"; k ] -> (ISplit, nat_of_int (int_of_string k))
  | parts ->
      let a i = n_of_string (List.nth parts i) in
      let i =
        match List.hd parts, List.length parts - 1 with
        | "PushInt", 1 -> IPushInt (z_of_string (List.nth parts 1))
        | "PushByte", 1 -> IPushByte (a 1)
        | "PushFloat", 1 -> IPushFloat (a 1)
        | "PushString", 1 -> IPushString (a 1)
        | "PushUpVar", 1 -> IPushUpVar (a 1)
        | "Push", 1 -> IPush (a 1)
        | "Call", 1 -> ICall (a 1)
        | "TailCall", 1 -> ITailCall (a 1)
        | "ConstructVariant", 2 -> IConstructVariant (a 1, a 2)
        | "ConstructPolyVariant", 2 -> IConstructPolyVariant (a 1, a 2)
        | "NewVariant", 2 -> INewVariant (a 1, a 2)
        | "NewRecord", 2 -> INewRecord (a 1, a 2)
        | "CloseData", 1 -> ICloseData (a 1)
        | "ConstructRecord", 2 -> IConstructRecord (a 1, a 2)
        | "ConstructArray", 1 -> IConstructArray (a 1)
        | "GetOffset", 1 -> IGetOffset (a 1)
        | "GetField", 1 -> IGetField (a 1)
        | "TestTag", 1 -> ITestTag (a 1)
        | "TestPolyTag", 1 -> ITestPolyTag (a 1)
        | "Jump", 1 -> IJump (a 1)
        | "CJump", 1 -> ICJump (a 1)
        | "Pop", 1 -> IPop (a 1)
        | "Slide", 1 -> ISlide (a 1)
        | "MakeClosure", 2 -> IMakeClosure (a 1, a 2)
        | "NewClosure", 2 -> INewClosure (a 1, a 2)
        | "CloseClosure", 1 -> ICloseClosure (a 1)
        | "AddInt", 0 -> IAddInt | "SubtractInt", 0 -> ISubtractInt | "MultiplyInt", 0 -> IMultiplyInt
        | "DivideInt", 0 -> IDivideInt | "IntLT", 0 -> IIntLT | "IntEQ", 0 -> IIntEQ
        | "AddByte", 0 -> IAddByte | "SubtractByte", 0 -> ISubtractByte | "MultiplyByte", 0 -> IMultiplyByte
        | "DivideByte", 0 -> IDivideByte | "ByteLT", 0 -> IByteLT | "ByteEQ", 0 -> IByteEQ
        | "AddFloat", 0 -> IAddFloat | "SubtractFloat", 0 -> ISubtractFloat | "MultiplyFloat", 0 -> IMultiplyFloat
        | "DivideFloat", 0 -> IDivideFloat | "FloatLT", 0 -> IFloatLT | "FloatEQ", 0 -> IFloatEQ
        | "Return", 0 -> IReturn
        | name, n -> failwith (Printf.sprintf "unknown instruction %s/%d" name n)
      in
      (i, O)

let do_fn toks =
  match toks with
  | id :: args :: maxs :: code ->
      let code = List.map instr_of_tok code in
      let f = { fn_args = nat_of_int (int_of_string args); fn_max_stack = nat_of_int (int_of_string maxs); fn_code = code } in
      (match infer f with
       | None ->
           let init = Some (repeat ATop f.fn_args) :: repeat None (nat_of_int (List.length code - 1)) in
           (match code with
            | [] -> Printf.sprintf "fn %s reject init" id
            | _ ->
              (match infer_fail_pc init O code with
               | Some pc -> Printf.sprintf "fn %s reject infer@%d" id (int_of_nat pc)
               | None -> Printf.sprintf "fn %s reject infer@?" id))
       | Some tbl ->
           if check_table f tbl then begin
             let peak = List.fold_left (fun m o -> match o with Some h -> max m (int_of_nat h) | None -> m) 0 (heights tbl) in
             (* cross-check: verify_fn is literally infer + check_table *)
             if verify_fn f then (ignore peak; Printf.sprintf "fn %s ok" id)
             else Printf.sprintf "fn %s reject verify_fn-disagrees" id
           end else
             (match first_bad f tbl O code tbl with
              | Some pc ->
                  let h = (match List.nth_opt (heights tbl) (int_of_nat pc) with Some (Some h) -> int_of_nat h | _ -> -1) in
                  Printf.sprintf "fn %s reject check@%d height=%d" id (int_of_nat pc) h
              | None -> Printf.sprintf "fn %s reject init" id))
  | _ -> failwith "bad fn line"

let op_of_tok t =
  let rest = String.sub t 1 (String.length t - 1) in
  match t.[0] with
  | 'a' -> OAlloc (n_of_string rest)
  | 'i' -> OAllocIgnore (n_of_string rest)
  | 'A' -> OAllocCollect (n_of_string rest)
  | 'd' -> ODrop (nat_of_int (int_of_string rest))
  | 'c' -> OCollect
  | _ -> failwith ("bad op " ^ t)

let show_trace tr =
  String.concat " " (List.map (fun (a, oom) -> string_of_n a ^ (if oom then "!" else "")) tr)

let do_acct toks =
  match toks with
  | hdr :: limit :: ops ->
      let tr = trace_ops (n_of_string hdr) (n_of_string limit) heap0 (List.map op_of_tok ops) in
      "acct " ^ show_trace tr
  | _ -> failwith "bad acct line"

let do_slack toks =
  match toks with
  | [ hdr ] ->
      let h = n_of_string hdr in
      let lim = witness_limit h in
      let ops = witness_ops h in
      let size = (match ops with [ OAlloc s ] -> string_of_n s | _ -> "?") in
      Printf.sprintf "slack %s limit=%s size=%s trace=%s" (string_of_n (slack h)) (string_of_n lim) size
        (show_trace (trace_ops h lim heap0 ops))
  | _ -> failwith "bad slack line"

let () =
  try
    while true do
      let line = input_line stdin in
      if line <> "" then begin
        let toks = List.filter (fun s -> s <> "") (String.split_on_char ' ' line) in
        let out =
          try
            match toks with
            | "fn" :: r -> do_fn r
            | "acct" :: r -> do_acct r
            | "slack" :: r -> do_slack r
            | _ -> "error unknown line kind"
          with Failure m -> "error " ^ m | Not_found -> "error not_found" | Invalid_argument m -> "error " ^ m
        in
        print_endline out
      end
    done
  with End_of_file -> ()
