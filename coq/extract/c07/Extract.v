From Coq Require Extraction ExtrOcamlBasic.
From GVgen Require Import InstrGen AllocGen.
From GV Require Import VM.StackBound Heap.Account.
Extraction Language OCaml.
Extraction "model.ml" verify_fn infer check_table first_bad infer_fail_pc heights adjust classify
  trace_ops heap0 slack witness_limit witness_ops.
