From Coq Require Extraction ExtrOcamlBasic.
From GV Require Import Front.CommentIter Front.FmtCheck.
Extraction Language OCaml.
Extraction "model.ml" forward backward fmt_check comments_of literals_of.
