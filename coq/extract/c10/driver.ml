(* Line protocol driver for the C10 models.  One case per input line:
     chk <hex src> <hex out>   -> chk <true|false> sc=<n>:<fnv> sl=<n>:<fnv> oc=<n>:<fnv> ol=<n>:<fnv>
                                  verdict of the extracted [fmt_check]; the counts and FNV-1a hashes of
                                  [comments_of]/[literals_of] of source and output let the harness
                                  compare the model scanner with the real tokenizer
     fwd <hex>                 -> fwd [<hex item>,...] stop|panic      extracted [forward guard]
     back <hex>                -> back [<hex item>,...] stop|panic     extracted [backward]
     dump <hex>                -> the comments and literals themselves (debugging aid)
   argv[1] = "guard" selects the repaired variant of CommentIter::next (default: the code as it is).
   Glue only: hex <-> list of N, printing. *)
open Model

let rec pos_of_int n =
  if n = 1 then XH else if n land 1 = 0 then XO (pos_of_int (n lsr 1)) else XI (pos_of_int (n lsr 1))
let n_of_int n = if n = 0 then N0 else Npos (pos_of_int n)
let rec int_of_pos = function XH -> 1 | XO p -> 2 * int_of_pos p | XI p -> 2 * int_of_pos p + 1
let int_of_n = function N0 -> 0 | Npos p -> int_of_pos p
let table = Array.init 256 n_of_int

let hexval c =
  match c with
  | '0' .. '9' -> Char.code c - 48
  | 'a' .. 'f' -> Char.code c - 87
  | 'A' .. 'F' -> Char.code c - 55
  | _ -> failwith "bad hex"

let bytes_of_hex (s : string) : n list =
  let len = String.length s / 2 in
  let rec go i acc = if i < 0 then acc else go (i - 1) (table.(hexval s.[2 * i] * 16 + hexval s.[2 * i + 1]) :: acc) in
  go (len - 1) []

let hex_of_bytes (l : n list) : string =
  let b = Buffer.create 64 in
  List.iter (fun x -> Buffer.add_string b (Printf.sprintf "%02x" (int_of_n x))) l;
  Buffer.contents b

let fnv_list (xs : n list list) : int64 =
  let h = ref 0xcbf29ce484222325L in
  let add b = h := Int64.mul (Int64.logxor !h (Int64.of_int b)) 0x100000001b3L in
  List.iter (fun x -> List.iter (fun b -> add (int_of_n b)) x; add 0xff) xs;
  !h

let show_outcome tag o =
  match o with
  | Done (items, _) -> Printf.sprintf "%s [%s] stop" tag (String.concat "," (List.map hex_of_bytes items))
  | Panicked items -> Printf.sprintf "%s [%s] panic" tag (String.concat "," (List.map hex_of_bytes items))

let () =
  let guard = Array.length Sys.argv > 1 && Sys.argv.(1) = "guard" in
  try
    while true do
      let line = input_line stdin in
      match String.split_on_char ' ' line with
      | [ "chk"; s; o ] ->
          let src = bytes_of_hex s and out = bytes_of_hex o in
          let sc = comments_of src and sl = literals_of src and oc = comments_of out and ol = literals_of out in
          Printf.printf "chk %s sc=%d:%016Lx sl=%d:%016Lx oc=%d:%016Lx ol=%d:%016Lx\n"
            (if fmt_check src out then "true" else "false")
            (List.length sc) (fnv_list sc) (List.length sl) (fnv_list sl) (List.length oc) (fnv_list oc)
            (List.length ol) (fnv_list ol)
      | [ "fwd"; s ] -> print_endline (show_outcome "fwd" (forward guard (bytes_of_hex s)))
      | [ "fwd" ] -> print_endline (show_outcome "fwd" (forward guard []))
      | [ "back"; s ] -> print_endline (show_outcome "back" (backward (bytes_of_hex s)))
      | [ "back" ] -> print_endline (show_outcome "back" (backward []))
      | [ "dump"; s ] ->
          let src = bytes_of_hex s in
          Printf.printf "comments [%s] literals [%s]\n"
            (String.concat "," (List.map hex_of_bytes (comments_of src)))
            (String.concat "," (List.map hex_of_bytes (literals_of src)))
      | _ -> print_endline "?"
    done
  with End_of_file -> ()
