(* Line-protocol driver of the C02 monitor (coq/theories/Lang/Types.v).
   stdin, one case per line:
     (shape (types <decl>…) <type> <rawvalue>)
         the type the REAL checker reported (harness/src/bin/c02/ty.rs) and the value the REAL VM
         returned, rendered untyped by harness/src/mg/value.rs `canon`
         -> "shape ok" | "shape bad"                       (extracted [check_raw])
     (run (prog (types <decl>…) <expr> <type>))
         a program constructed well typed by the generator, at its constructed type
         -> "run ok" (value of the right shape, explicit failure, or out of fuel)
          | "run stuck" | "run shape"                      (extracted [run_verdict])
   decl  ::= (T (a…) ((C tag type…)…))
   type  ::= int | byte | char | str | float | bool | unit | opaque | (fun (t…) t) | (trcd ((l t)…))
           | (ttup t…) | (named T t…) | (tarr t) | (tvar a)
   value ::= (int n) | (byte n) | (f64 h) | (str b…) | (data tag v…) | (arr v…) | (fun) | (userdata) | …
   The driver is glue: it interns names (the type name Bool is the model's [bool_name]; tuple
   fields `_k` are the atoms k, as in coq/extract/c01/driver.ml), converts decimal integers, and
   always appends the builtin Bool declaration to the declarations. *)
open Model

let fuel_default = 200000

(* ---- numbers ---- *)
let rec pos_of_int64 (n : int64) : positive =
  if n = 1L then XH
  else if Int64.logand n 1L = 0L then XO (pos_of_int64 (Int64.shift_right_logical n 1))
  else XI (pos_of_int64 (Int64.shift_right_logical n 1))
let z_of_int64 (n : int64) : z =
  if n = 0L then Z0 else if n > 0L then Zpos (pos_of_int64 n) else Zneg (pos_of_int64 (Int64.neg n))
let z_of_string s = z_of_int64 (Int64.of_string s)
let n_of_int (n : int) : n = if n = 0 then N0 else Npos (pos_of_int64 (Int64.of_int n))
let nat_of_int n = let r = ref O in for _ = 1 to n do r := S !r done; !r

(* ---- names ---- *)
let tbl : (string, int) Hashtbl.t = Hashtbl.create 64
let next = ref 1000
let is_tuple_field s =
  String.length s >= 2 && s.[0] = '_' &&
  (let ok = ref true in String.iteri (fun i c -> if i > 0 && not (c >= '0' && c <= '9') then ok := false) s; !ok)
let intern (s : string) : n =
  if is_tuple_field s && String.length s <= 4 then n_of_int (int_of_string (String.sub s 1 (String.length s - 1)))
  else match Hashtbl.find_opt tbl s with
    | Some i -> n_of_int i
    | None -> let i = !next in incr next; Hashtbl.add tbl s i; n_of_int i
(* type names live in their own name space; Bool is the model's bool_name *)
let ttbl : (string, int) Hashtbl.t = Hashtbl.create 16
let tnext = ref 1
let intern_type (s : string) : n =
  if s = "Bool" then bool_name
  else match Hashtbl.find_opt ttbl s with
    | Some i -> n_of_int i
    | None -> let i = !tnext in incr tnext; Hashtbl.add ttbl s i; n_of_int i

(* ---- reader ---- *)
open Sexp
exception Bad of string
let atom = function Atom a -> a | List _ -> raise (Bad "atom expected")
let bytes_of items = List.map (fun x -> n_of_int (int_of_string (atom x))) items
let z_of_hex s = z_of_int64 (Int64.of_string ("0x" ^ s))

let rec arrows ts r = match ts with [] -> r | t :: ts' -> TFun (t, arrows ts' r)
let rec number_tfields i = function [] -> [] | t :: ts -> (n_of_int i, t) :: number_tfields (i + 1) ts

let rec rd_ty = function
  | Atom "int" -> TInt | Atom "byte" -> TByte | Atom "char" -> TChar | Atom "str" -> TStr
  | Atom "float" -> TFloat | Atom "opaque" -> TOpaque
  | Atom "bool" -> TData (bool_name, [])
  | Atom "unit" -> TRcd []
  | List [Atom "fun"; List args; r] -> arrows (List.map rd_ty args) (rd_ty r)
  | List [Atom "trcd"; List fs] ->
      TRcd (List.map (function List [Atom l; t] -> (intern l, rd_ty t) | _ -> raise (Bad "record type field")) fs)
  | List (Atom "ttup" :: ts) -> TRcd (number_tfields 0 (List.map rd_ty ts))
  | List (Atom "named" :: Atom t :: args) -> TData (intern_type t, List.map rd_ty args)
  | List [Atom "tarr"; t] -> TArr (rd_ty t)
  | List [Atom "tvar"; Atom a] -> TVar (intern ("'" ^ a))
  | _ -> raise (Bad "type")

let rd_decls = function
  | List (Atom "types" :: ds) ->
      List.map (function
        | List [Atom t; List ps; List cs] ->
            (intern_type t,
             (List.map (fun p -> intern ("'" ^ atom p)) ps,
              List.map (function List (Atom _ :: Atom _ :: ts) -> List.map rd_ty ts | _ -> raise (Bad "constructor")) cs))
        | _ -> raise (Bad "declaration")) ds
      @ [ (bool_name, bool_decl) ]
  | _ -> raise (Bad "types")

let rec rd_raw = function
  | List [Atom "int"; Atom n] -> RInt (z_of_string n)
  | List [Atom "byte"; Atom n] -> RByte (z_of_string n)
  | List [Atom "f64"; Atom h] -> RFloat (z_of_hex h)
  | List (Atom "str" :: bs) -> RStr (bytes_of bs)
  | List (Atom "data" :: Atom tag :: vs) -> RData (n_of_int (int_of_string tag), List.map rd_raw vs)
  | List (Atom "arr" :: vs) -> RArr (List.map rd_raw vs)
  | List [Atom "fun"] -> RFun
  | List (Atom _ :: _) -> ROther
  | _ -> raise (Bad "value")

let rd_lit = function
  | List [Atom "int"; Atom n] -> LInt (z_of_string n)
  | List [Atom "byte"; Atom n] -> LByte (z_of_string n)
  | List [Atom "char"; Atom n] -> LChar (z_of_string n)
  | List (Atom "str" :: bs) -> LStr (bytes_of bs)
  | List [Atom "f64"; Atom h] -> LFloat (z_of_hex h)
  | _ -> raise (Bad "literal")

let rec rd_pat = function
  | List [Atom "pwild"] -> PWild
  | List [Atom "pvar"; Atom x] -> PVar (intern x)
  | List [Atom "plit"; l] -> PLit (rd_lit l)
  | List (Atom "pcon" :: Atom _ :: Atom tag :: ps) -> PCon (n_of_int (int_of_string tag), List.map rd_pat ps)
  | List [Atom "prcd"; List fs] ->
      PRcd (List.map (function List [Atom l; p] -> (intern l, rd_pat p) | _ -> raise (Bad "prcd field")) fs)
  | List (Atom "ptup" :: ps) -> PTup (List.map rd_pat ps)
  | List [Atom "pas"; Atom x; p] -> PAs (intern x, rd_pat p)
  | _ -> raise (Bad "pattern")

let rd_op = function
  | "int_add" -> IntAdd | "int_sub" -> IntSub | "int_mul" -> IntMul | "int_div" -> IntDiv
  | "int_eq" -> IntEq | "int_lt" -> IntLt
  | "byte_add" -> ByteAdd | "byte_sub" -> ByteSub | "byte_mul" -> ByteMul | "byte_div" -> ByteDiv
  | "byte_eq" -> ByteEq | "byte_lt" -> ByteLt
  | s -> raise (Bad ("primop " ^ s))

let rec rd = function
  | List [Atom ("int" | "byte" | "char" | "f64"); _] as l -> ELit (rd_lit l)
  | List (Atom "str" :: _) as l -> ELit (rd_lit l)
  | List [Atom "var"; Atom x] -> EVar (intern x)
  | List [Atom "lam"; List xs; b] -> ELam (List.map (fun x -> intern (atom x)) xs, rd b)
  | List (Atom "app" :: f :: args) -> EApp (rd f, List.map rd args)
  | List [Atom "let"; p; e1; e2] -> ELet (rd_pat p, rd e1, rd e2)
  | List [Atom "rec"; List bs; body] ->
      ERec (List.map (function
              | List [Atom f; List xs; b] -> (intern f, (List.map (fun x -> intern (atom x)) xs, rd b))
              | _ -> raise (Bad "rec binding")) bs, rd body)
  | List [Atom "if"; c; t; f] -> EIf (rd c, rd t, rd f)
  | List [Atom "prim"; Atom op; a; b] -> EPrim (rd_op op, rd a, rd b)
  | List [Atom "and"; a; b] -> EAnd (rd a, rd b)
  | List [Atom "or"; a; b] -> EOr (rd a, rd b)
  | List [Atom "rcd"; List fs] -> ERcd (rd_fields fs)
  | List [Atom "rcdu"; List fs; base] -> ERcdU (rd_fields fs, rd base)
  | List [Atom "proj"; e; Atom l] -> EProj (rd e, intern l)
  | List (Atom "tup" :: es) -> ETup (List.map rd es)
  | List (Atom "con" :: Atom _ :: Atom tag :: es) -> ECon (n_of_int (int_of_string tag), List.map rd es)
  | List (Atom "arr" :: es) -> EArr (List.map rd es)
  | List [Atom "aidx"; a; i] -> EAIdx (rd a, rd i)
  | List [Atom "alen"; a] -> EALen (rd a)
  | List [Atom "match"; s; List alts] ->
      EMatch (rd s, List.map (function List [p; e] -> (rd_pat p, rd e) | _ -> raise (Bad "alternative")) alts)
  | List [Atom "seq"; a; b] -> ESeq (rd a, rd b)
  | List (Atom "error" :: bs) -> EError (bytes_of bs)
  | List [Atom "eff"; e] -> EEff (rd e)
  | List [Atom "ann"; e; _] -> EAnn (rd e)
  | List (Atom h :: _) -> raise (Bad ("expression " ^ h))
  | _ -> raise (Bad "expression")
and rd_fields fs = List.map (function List [Atom l; e] -> (intern l, rd e) | _ -> raise (Bad "field")) fs

let () =
  let fuel =
    match Sys.getenv_opt "MG_FUEL" with Some s -> int_of_string s | None -> fuel_default in
  let fuel = nat_of_int fuel in
  try
    while true do
      let line = input_line stdin in
      if line <> "" then begin
        let out =
          try
            match Sexp.parse line with
            | List [Atom "shape"; ds; t; v] ->
                if check_raw (rd_decls ds) (rd_ty t) (rd_raw v) then "shape ok" else "shape bad"
            | List [Atom "run"; List [Atom "prog"; ds; e; t]] ->
                (match run_verdict (rd_decls ds) fuel (rd e) (rd_ty t) with
                 | VOk | VFail | VFuel -> "run ok"
                 | VStuck -> "run stuck"
                 | VShape -> "run shape")
            | _ -> "malformed request"
          with
          | Bad m -> "malformed " ^ m
          | Sexp.Parse_error m -> "malformed " ^ m
          | Stack_overflow -> "model-stack-overflow"
          | Failure m -> "malformed " ^ m
        in
        print_endline out
      end
    done
  with End_of_file -> ()
