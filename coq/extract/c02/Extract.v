From Coq Require Extraction ExtrOcamlBasic.
From GV Require Import Lang.Syntax Lang.Eval Lang.Types.
Extraction Language OCaml.
Extraction "model.ml" check_shape check_raw erase run_verdict bool_name bool_decl.
