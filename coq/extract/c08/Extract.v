From Coq Require Extraction ExtrOcamlBasic.
From GV Require Import Front.Infix Front.OpLookup.
Extraction Language OCaml.
Extraction "model.ml" reparse_named.
