(* Line protocol driver for the C08 infix model.  One case per input line:
     u=<name>:<prec>:<L|R>,...;ops=<name>,<name>,...;chain=<chain>
   <name> is a dot-separated list of byte values;
   <chain>   ::= "[" <operand> (<opindex> <operand>)* "]"
   <operand> ::= <int> | "a"<int> | <chain>            (literal, application, parenthesised chain)
   Reply: `ok <tree>` | `conflicts (s n)...` | `undef`.
   Each chain is re-associated by the extracted [reparse_named] with its operands numbered by
   position; the driver only substitutes operands back (glue, not model).  A chain whose
   re-association reports a conflict is not descended into (infix.rs leaves an Expr::Error
   there); the other chains are still visited, left to right. *)
open Model

let rec nat_of_int n = if n <= 0 then O else S (nat_of_int (n - 1))
let rec int_of_nat = function O -> 0 | S n -> 1 + int_of_nat n
let rec pos_of_int n =
  if n = 1 then XH else if n land 1 = 0 then XO (pos_of_int (n lsr 1)) else XI (pos_of_int (n lsr 1))
let n_of_int n = if n = 0 then N0 else Npos (pos_of_int n)
let z_of_int n = if n = 0 then Z0 else if n > 0 then Zpos (pos_of_int n) else Zneg (pos_of_int (-n))

let split c s = if s = "" then [] else String.split_on_char c s
let name_of s = List.map (fun x -> n_of_int (int_of_string x)) (split '.' s)

let field key line =
  let parts = String.split_on_char ';' line in
  let pre = key ^ "=" in
  let l = String.length pre in
  let rec find = function
    | [] -> failwith ("missing field " ^ key)
    | p :: ps -> if String.length p >= l && String.sub p 0 l = pre then String.sub p l (String.length p - l) else find ps
  in find parts

type operand = Lit of int | App of int | Paren of chain
and chain = { first : operand; rest : (int * operand) list }

let parse_chain toks =
  let toks = ref toks in
  let next () = match !toks with t :: r -> toks := r; t | [] -> failwith "eof" in
  let peek () = match !toks with t :: _ -> t | [] -> "" in
  let rec chain () =
    if next () <> "[" then failwith "expected [";
    let first = operand () in
    let rest = ref [] in
    while peek () <> "]" do
      let o = int_of_string (next ()) in
      let a = operand () in
      rest := (o, a) :: !rest
    done;
    ignore (next ());
    { first; rest = List.rev !rest }
  and operand () =
    if peek () = "[" then Paren (chain ())
    else
      let t = next () in
      if t.[0] = 'a' then App (int_of_string (String.sub t 1 (String.length t - 1))) else Lit (int_of_string t)
  in
  chain ()

exception Undef

let run user ops c =
  let conflicts = ref [] in
  let rec do_chain c : string =
    let operands = Array.of_list (c.first :: List.map snd c.rest) in
    let rest = List.mapi (fun i (o, _) -> (nat_of_int o, nat_of_int (i + 1))) c.rest in
    match reparse_named user ops O rest with
    | None -> raise Undef
    | Some (ErrConflict (s, n)) ->
        conflicts := (int_of_nat s, int_of_nat n) :: !conflicts; "(error)"
    | Some (Ok t) ->
        let rec show = function
          | Leaf a -> do_operand operands.(int_of_nat a)
          | Node (l, o, r) ->
              let sl = show l in
              let sr = show r in
              Printf.sprintf "(n %s %d %s)" sl (int_of_nat o) sr
        in show t
  and do_operand = function
    | Lit k -> Printf.sprintf "(l %d)" k
    | App k -> Printf.sprintf "(a %d)" k
    | Paren c -> Printf.sprintf "(p %s)" (do_chain c)
  in
  let s = do_chain c in
  match List.rev !conflicts with
  | [] -> "ok " ^ s
  | cs -> "conflicts" ^ String.concat "" (List.map (fun (s, n) -> Printf.sprintf " (%d %d)" s n) cs)

let () =
  try
    while true do
      let line = input_line stdin in
      if line <> "" then begin
        let user = List.map (fun e ->
          match String.split_on_char ':' e with
          | [n; p; f] -> (name_of n, { prec = z_of_int (int_of_string p); fix_ = (if f = "L" then FL else FR) })
          | _ -> failwith "bad user entry") (split ',' (field "u" line)) in
        let ops = List.map name_of (split ',' (field "ops" line)) in
        let toks = List.filter (fun s -> s <> "") (split ' ' (field "chain" line)) in
        let c = parse_chain toks in
        print_endline (try run user ops c with Undef -> "undef")
      end
    done
  with End_of_file -> ()
