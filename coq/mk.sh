#!/bin/sh
# Regenerates _CoqProject (all .v under theories/ and gen/) and the Makefile, then runs make with the given targets.
# usage: coq/mk.sh [make args...]
set -e
cd "$(dirname "$0")"
{ cat _CoqProject.in; find theories gen -name '*.v' | LC_ALL=C sort; } > _CoqProject.new
if ! cmp -s _CoqProject.new _CoqProject 2>/dev/null; then mv _CoqProject.new _CoqProject; coq_makefile -f _CoqProject -o Makefile >/dev/null; else rm _CoqProject.new; fi
[ -f Makefile ] || coq_makefile -f _CoqProject -o Makefile >/dev/null
exec make "$@"
