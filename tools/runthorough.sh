#!/bin/sh
# runthorough.sh props...: run thorough checks sequentially, logs under .cache/runall/thorough/
mkdir -p /verif/.cache/runall/thorough
cd /verif
for p in "$@"; do
  s=$(date +%s)
  timeout 3600 ./check $p --tier thorough > .cache/runall/thorough/$p.log 2>&1
  rc=$?
  e=$(date +%s)
  echo "thorough $p rc=$rc wall=$((e-s))s $(grep -c '^VIOLATION' .cache/runall/thorough/$p.log) violations $(grep -c '^KNOWN-FINDING' .cache/runall/thorough/$p.log) known"
done
