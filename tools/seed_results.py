#!/usr/bin/env python3
"""Build seeded/RESULTS.md from seeded/*/meta.json, check_*.log and CONFIRM_LOG.txt."""
import json, os, re, glob
S = '/verif/seeded'
conf = {}
p = os.path.join(S, 'CONFIRM_LOG.txt')
if os.path.exists(p):
    for l in open(p):
        m = re.match(r'(C\d+-\d+)\s+confirmed=(\w+)\s+stable_missing=(\S+)\s+demo_with=(\w+)\s+demo_without=(\w+)\s*(.*)', l.strip())
        if m:
            conf[m.group(1)] = m.groups()[1:]
rows = []
for d in sorted(glob.glob(S + '/C*-*')):
    name = os.path.basename(d)
    meta = {}
    try:
        meta = json.load(open(d + '/meta.json'))
    except Exception:
        pass
    res = {}
    for tier in ('quick', 'thorough'):
        f = d + '/check_%s.log' % tier
        if os.path.exists(f):
            t = open(f, errors='replace').read()
            nv = len(re.findall(r'^VIOLATION', t, re.M))
            nf = len(re.findall(r'no-failing-input-found', t))
            done = re.findall(r'done: (.*)', t)
            res[tier] = ('CAUGHT (%d violations%s)' % (nv, ', %d without input' % nf if nf else '')) if nv else ('missed' if done else 'did not finish')
    c = conf.get(name)
    rows.append((name, (meta.get('summary') or '')[:160].replace('|', '/').replace('\n', ' '), ', '.join(meta.get('files_changed', []))[:80] if isinstance(meta.get('files_changed'), list) else '',
                 ('yes' if c and c[0] == 'true' else ('NO' if c else 'pending')), res.get('quick', '-'), res.get('thorough', '-')))
with open(S + '/RESULTS.md', 'w') as f:
    f.write('# Seeded changes: confirmation and detection\n\n')
    f.write('Each change was produced by an independent sub-agent that saw only the property text and a scratch worktree; '
            'confirmed (applies, compiles, 896 stable tests still pass, demonstration fails with / passes without the change) in a separate worktree; '
            'and run against the property\'s check with `tools/seedtest.sh` (= `tools/altcheck.sh` on a checkout with the patch applied).\n\n')
    f.write('| seed | change | files | confirmed | quick tier | thorough tier |\n|---|---|---|---|---|---|\n')
    for r in rows:
        f.write('| %s | %s | %s | %s | %s | %s |\n' % r)
    caught = sum(1 for r in rows if r[4].startswith('CAUGHT') or r[5].startswith('CAUGHT'))
    f.write('\n%d of %d seeded changes are caught by the check of their property.\n' % (caught, len(rows)))
print(open(S + '/RESULTS.md').read()[-400:])
