#!/bin/sh
# seedtest.sh <slot> <seeded-dir-name> [tier]: apply seeded/<name>/patch.diff to the slot's mutant
# worktree (/tmp/gluon-mut<slot>, created from /repo HEAD), run the property's check against it with
# tools/altcheck.sh, store the outcome in seeded/<name>/check_<tier>.log and print one summary line.
SLOT="$1"; NAME="$2"; TIER="${3:-quick}"
PROP=$(echo "$NAME" | cut -d- -f1)
W=/tmp/gluon-mut$SLOT
[ -d "$W" ] || git -C /repo worktree add -f "$W" HEAD >/dev/null 2>&1
cd "$W" && git checkout -q -- . && git clean -fdq -e target && git checkout -q --detach "$(git -C /repo rev-parse HEAD)"
if ! git apply /verif/seeded/$NAME/patch.diff 2>/dev/null; then
  if ! git apply -3 /verif/seeded/$NAME/patch.diff 2>/dev/null; then echo "$NAME: patch does not apply"; exit 3; fi
fi
cd /verif
ALT_SLOT=$SLOT tools/altcheck.sh "$W" "$PROP" "$TIER" > /verif/seeded/$NAME/check_$TIER.log 2>&1
rc=$?
n=$(grep -c '^VIOLATION' /verif/seeded/$NAME/check_$TIER.log)
nf=$(grep -c 'no-failing-input-found' /verif/seeded/$NAME/check_$TIER.log)
echo "$NAME tier=$TIER rc=$rc violations=$n no-input=$nf $(grep 'done:' /verif/seeded/$NAME/check_$TIER.log | tail -1 | sed 's/.*done: //')"
cd "$W" && git checkout -q -- . && git clean -fdq -e target
