#!/bin/sh
# Re-check the compiled Props files (and everything they depend on) with the independent checker and
# print the axioms they rely on.  Takes several minutes.
cd /verif/coq
mods=$(ls theories/Props/*.v | sed 's#theories/Props/\(.*\)\.v#GV.Props.\1#' | tr '\n' ' ')
timeout 3000 coqchk -silent -o -Q theories GV -Q gen GVgen $mods 2>&1 | tail -20
