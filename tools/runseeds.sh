#!/bin/sh
# runseeds.sh <seed> props...: run quick checks with VERIF_SEED=<seed>, logs under .cache/runall/seed<seed>/
SEED=$1; shift
mkdir -p /verif/.cache/runall/seed$SEED
cd /verif
for p in "$@"; do
  s=$(date +%s)
  VERIF_SEED=$SEED ./check $p --tier quick --seed $SEED > .cache/runall/seed$SEED/$p.log 2>&1
  rc=$?
  e=$(date +%s)
  echo "seed=$SEED $p rc=$rc wall=$((e-s))s $(grep -c '^VIOLATION' .cache/runall/seed$SEED/$p.log) violations $(grep -c '^KNOWN-FINDING' .cache/runall/seed$SEED/$p.log) known"
done
