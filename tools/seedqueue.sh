#!/bin/sh
# seedqueue.sh <slot> name...: run seedtest for each name sequentially in the given slot (serialised per slot by flock)
SLOT=$1; shift
exec flock /verif/.cache/seedslot$SLOT.lock sh -c 'SLOT=$0; for n in "$@"; do /verif/tools/seedtest.sh $SLOT $n quick >> /verif/.cache/seedtest-slot$SLOT.txt 2>&1; done' $SLOT "$@"
