#!/bin/sh
# Runs the repository's baseline suite with the verification guard OFF and compares with BASELINE.json.
cd /repo && CARGO_NET_OFFLINE=true cargo test --workspace --no-fail-fast --offline > /verif/.cache/baseline.log 2>&1
python3 /verif/tools/baseline_cmp.py /verif/.cache/baseline.log
