#!/usr/bin/env python3
"""apply_fix.py <patch> <commit message>: apply a fix patch to /repo WITHOUT its test additions
(files under tests/ and hunks that add #[test] functions are dropped) and commit it."""
import re, subprocess, sys, tempfile
patch, msg = sys.argv[1], sys.argv[2]
text = open(patch).read()
# split into file sections
parts = re.split(r'(?m)^(?=diff --git |--- a/)', text)
out = []
for part in parts:
    if not part.strip():
        continue
    if not (part.startswith('diff --git') or part.startswith('--- a/')):
        continue  # prose header
    if part.startswith('--- a/') and out and out[-1].startswith('diff --git') and '--- a/' not in out[-1]:
        out[-1] += part
        continue
    out.append(part)
res = []
for sec in out:
    m = re.search(r'^\+\+\+ b/(\S+)', sec, re.M)
    if not m:
        continue
    path = m.group(1)
    if path.startswith('tests/') or '/tests/' in path:
        continue
    head, *hunks = re.split(r'(?m)^(?=@@ )', sec)
    keep = [h for h in hunks if not re.search(r'(?m)^\+\s*#\[test\]', h)]
    if keep:
        res.append(head + ''.join(keep))
if not res:
    print('nothing to apply'); sys.exit(1)
with tempfile.NamedTemporaryFile('w', suffix='.patch', delete=False) as f:
    f.write(''.join(res))
    name = f.name
r = subprocess.run(['git', '-C', '/repo', 'apply', '--recount', '-C1', name], capture_output=True, text=True)
if r.returncode != 0:
    print('FAILED', r.stderr); sys.exit(1)
subprocess.check_call(['git', '-C', '/repo', 'add', '-A'])
subprocess.check_call(['git', '-C', '/repo', 'commit', '-q', '-m', msg])
print('committed:', msg)
