#!/usr/bin/env python3
"""Compare a `cargo test --workspace --no-fail-fast` log with /root/.vp/BASELINE.json stable_pass."""
import json, re, sys
log = open(sys.argv[1], errors="replace").read()
log = re.sub(r"\x1b\[[0-9;]*m", "", log)
base = json.load(open("/root/.vp/BASELINE.json"))
stable = set(base["stable_pass"])
cur = None
passed, failed = set(), set()
for line in log.splitlines():
    m = re.match(r"\s*Running (?:unittests )?(\S+) \((?:\S*/)?deps/([A-Za-z0-9_]+)-[0-9a-f]+\)", line)
    if m:
        cur = m.group(2)
        continue
    m = re.match(r"\s*Doc-tests (\S+)", line)
    if m:
        cur = "doctest:" + m.group(1)
        continue
    m = re.match(r"test (.+?) \.\.\. (ok|FAILED|ignored)", line)
    if m and cur:
        name = m.group(1)
        name = re.sub(r" - should panic$", " - should panic", name)
        full = cur + "::" + name
        (passed if m.group(2) == "ok" else failed if m.group(2) == "FAILED" else set()).add(full)
missing = sorted(s for s in stable if s not in passed)
print("stable:", len(stable), "passed-in-log:", len(passed), "stable-and-passed:", len(stable & passed), "failed:", len(failed))
print("stable tests not seen passing:", len(missing))
for s in missing[:40]:
    print("  ", s, "(FAILED)" if s in failed else "")
sys.exit(1 if missing else 0)
