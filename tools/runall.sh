#!/bin/sh
# runall.sh [tier] [props...]: run checks sequentially, one log per property under .cache/runall/
TIER=${1:-quick}; shift || true
PROPS=${*:-C01 C02 C03 C04 C05 C06 C07 C08 C09 C10 C11 C12 C13 C14 C15 C16 C17 C18 C19 C20}
mkdir -p /verif/.cache/runall
cd /verif
for p in $PROPS; do
  s=$(date +%s)
  ./check $p --tier $TIER > .cache/runall/$p.log 2>&1
  rc=$?
  e=$(date +%s)
  echo "$p rc=$rc wall=$((e-s))s $(grep -c '^VIOLATION' .cache/runall/$p.log) violations $(grep -c '^KNOWN-FINDING' .cache/runall/$p.log) known"
done
