#!/bin/sh
# confirm_seed.sh <seed-dir>: confirm a seeded change in the scratch worktree /tmp/gluon-mut:
# it applies, the workspace test suite still passes (compared with BASELINE.json), then reset.
# The demonstration is run separately (see the seed's demo.md).
set -e
D="$1"
W=/tmp/gluon-mut
cd $W && git checkout -q -- . && git clean -fdq -e target && git checkout -q --detach $(git -C /repo rev-parse HEAD)
git apply "$D/patch.diff"
export CARGO_TARGET_DIR=$W/target CARGO_NET_OFFLINE=true
cargo test --workspace --no-fail-fast --offline > "$D/suite_with_patch.log" 2>&1 || true
python3 /verif/tools/baseline_cmp.py "$D/suite_with_patch.log" | tee "$D/suite_with_patch.summary"
git checkout -q -- . && git clean -fdq -e target
