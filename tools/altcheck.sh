#!/bin/sh
# Run a check against ANOTHER checkout of gluon (a scratch worktree with a candidate change applied)
# without touching /repo or the main build caches:
#   [ALT_SLOT=k] tools/altcheck.sh /tmp/gluon-mut C08 [quick|thorough]
# A copy of /verif (without .cache/.git) is kept in /verif/.cache/alt<k>/verif with its own cargo target
# and Coq build; harness/Cargo.toml paths and GLUON_REPO point at the given checkout.
set -e
ALT_REPO="$1"; PROP="$2"; TIER="${3:-quick}"
[ -d "$ALT_REPO" ] || { echo "no such checkout: $ALT_REPO"; exit 2; }
DST=/verif/.cache/alt${ALT_SLOT}/verif
mkdir -p "$DST"
rsync -a --delete --exclude .cache --exclude .git --exclude replays --exclude evidence --exclude seeded /verif/ "$DST"/
mkdir -p "$DST/evidence" "$DST/replays"
sed -i "s#\"/repo#\"$ALT_REPO#g" "$DST/harness/Cargo.toml"
sed -i "s#/verif/.cache/target#$DST/.cache/target#" "$DST/harness/.cargo/config.toml"
cp "$ALT_REPO/Cargo.lock" "$DST/harness/Cargo.lock"
cd "$DST"
GLUON_REPO="$ALT_REPO" exec ./check "$PROP" --tier "$TIER"
