#!/usr/bin/env python3
"""Regenerate MANIFEST.json from checks/manifest/<Cxx>.json (claimed properties) and
checks/manifest/not_applicable.json (optional: {"Cxx": "reason"})."""
import json, os, subprocess
V = '/verif'
props = [json.loads(l) for l in open(V + '/properties.jsonl')]
old = json.load(open(V + '/MANIFEST.json'))
claimed = {}
for f in sorted(os.listdir(V + '/checks/manifest')):
    if f.startswith('C') and f.endswith('.json'):
        claimed[f[:-5]] = json.load(open(V + '/checks/manifest/' + f))
na_path = V + '/checks/manifest/not_applicable.json'
na_reasons = json.load(open(na_path)) if os.path.exists(na_path) else {}
checks = []
for p in props:
    i = p['id']
    if i not in claimed:
        continue
    c = claimed[i]
    checks.append({
        "property_id": i,
        "quick_cmd": "./check %s --tier quick" % i,
        "thorough_cmd": "./check %s --tier thorough" % i,
        "evidence_file": "/verif/evidence/%s.json" % i,
        "replay_cmd_template": "./check %s --replay {path}" % i,
        "engine": "coq+gvh",
        "level_claimed": {"category": "proof", "text": c['text'], "design_ref": c.get('design_ref', '5 ' + i)},
        "level_note": c['note'],
        "technique": c['technique'],
    })
na = [{"property_id": p['id'], "reason": na_reasons.get(p['id'], "not claimed yet: the model, theorems and tie for this property are still being built in this round (DESIGN.md section 9); no check is registered until it is sound on the unchanged tree")}
      for p in props if p['id'] not in claimed]
commits = subprocess.check_output(['git', '-C', '/repo', 'log', '--format=%H %s', '5834f3e..HEAD']).decode().strip().splitlines()
old['hooks']['source_commits'] = [c.split()[0] for c in commits if 'verif hook' in c]
old['checks'] = checks
old['not_applicable'] = na
old['engines'][0]['serves_properties'] = sorted(claimed)
json.dump(old, open(V + '/MANIFEST.json', 'w'), indent=1)
print("claimed:", sorted(claimed), "not claimed:", [x['property_id'] for x in na])
