; arity: partial then over-application with effects in every argument
(prog (types (T () ((A 0 int) (B 1) (C 2 int (named T)))) (Opt (a) ((None 0) (Some 1 (tvar a))))) (let (pvar f) (lam (x) (let (pwild) (eff (var x)) (lam (y z) (let (pwild) (eff (var y)) (prim int_add (prim int_add (var x) (var y)) (var z)))))) (let (pvar g) (app (var f) (eff (int 1)) (eff (int 2))) (let (pwild) (eff (int 10)) (app (var g) (eff (int 3)))))) int)
; function position is evaluated before the arguments
(prog (types (T () ((A 0 int) (B 1) (C 2 int (named T)))) (Opt (a) ((None 0) (Some 1 (tvar a))))) (app (let (pwild) (eff (int 1)) (lam (a b) (prim int_sub (var a) (var b)))) (eff (int 2)) (eff (int 3))) int)
; record update, non-variable base: fields in source order, then the base
(prog (types (T () ((A 0 int) (B 1) (C 2 int (named T)))) (Opt (a) ((None 0) (Some 1 (tvar a))))) (rcdu ((y (eff (int 1))) (w (eff (int 2)))) (let (pwild) (eff (int 3)) (rcd ((x (int 0)) (y (int 0)) (z (int 0)))))) (trcd ((w int) (x int) (y int) (z int))))
; record update, variable base, overridden fields out of base order (finding record-update order)
(prog (types (T () ((A 0 int) (B 1) (C 2 int (named T)))) (Opt (a) ((None 0) (Some 1 (tvar a))))) (let (pvar base) (rcd ((x (int 0)) (y (int 0)) (z (int 0)))) (rcdu ((y (eff (int 1))) (x (eff (int 2)))) (var base))) (trcd ((x int) (y int) (z int))))
; two record alternatives, the second puns a field (finding match:record-alternatives)
(prog (types (T () ((A 0 int) (B 1) (C 2 int (named T)))) (Opt (a) ((None 0) (Some 1 (tvar a))))) (match (rcd ((x (int 1)))) (((prcd ((x (plit (int 2))))) (int 5)) ((prcd ((x (pvar x)))) (var x)))) int)
; record alternatives naming different fields
(prog (types (T () ((A 0 int) (B 1) (C 2 int (named T)))) (Opt (a) ((None 0) (Some 1 (tvar a))))) (match (rcd ((x (int 1)) (y (int 2)))) (((prcd ((x (plit (int 2))))) (int 5)) ((prcd ((y (plit (int 2))))) (int 100)) ((pwild) (int 0)))) int)
; empty record pattern through a row-polymorphic function (finding compiler ICE)
(prog (types (T () ((A 0 int) (B 1) (C 2 int (named T)))) (Opt (a) ((None 0) (Some 1 (tvar a))))) (let (pvar getr) (lam (r) (match (var r) (((prcd ()) (int 0))))) (app (var getr) (rcd ((a (int 3)))))) int)
; an unused binding that fails must still fail (finding optimizer:lost-failure)
(prog (types (T () ((A 0 int) (B 1) (C 2 int (named T)))) (Opt (a) ((None 0) (Some 1 (tvar a))))) (let (pvar k) (prim int_mul (int 9223372036854775806) (int 9223372036854775807)) (str 97 98 99)) str)
; unused failing field of a projected record literal
(prog (types (T () ((A 0 int) (B 1) (C 2 int (named T)))) (Opt (a) ((None 0) (Some 1 (tvar a))))) (proj (rcd ((a (prim int_div (int 1) (int 0))) (b (int 0)))) b) int)
; i64::MIN / -1 overflows
(prog (types (T () ((A 0 int) (B 1) (C 2 int (named T)))) (Opt (a) ((None 0) (Some 1 (tvar a))))) (prim int_div (int -9223372036854775808) (int -1)) int)
; truncating division
(prog (types (T () ((A 0 int) (B 1) (C 2 int (named T)))) (Opt (a) ((None 0) (Some 1 (tvar a))))) (prim int_div (int -7) (int 2)) int)
; mutual recursion
(prog (types (T () ((A 0 int) (B 1) (C 2 int (named T)))) (Opt (a) ((None 0) (Some 1 (tvar a))))) (rec ((f (n acc) (if (prim int_lt (var n) (int 1)) (var acc) (app (var g) (prim int_sub (var n) (int 1)) (prim int_add (var acc) (eff (var n)))))) (g (n acc) (if (prim int_lt (var n) (int 1)) (var acc) (app (var f) (prim int_sub (var n) (int 1)) (prim int_mul (var acc) (int 2)))))) (app (var f) (int 5) (int 1))) int)
; nested, literal and as patterns with overlapping columns
(prog (types (T () ((A 0 int) (B 1) (C 2 int (named T)))) (Opt (a) ((None 0) (Some 1 (tvar a))))) (match (tup (con C 2 (int 1) (con A 0 (int 2))) (int 7)) (((ptup (pcon C 2 (plit (int 1)) (pcon B 1)) (pwild)) (int 1)) ((ptup (pas w (pcon C 2 (pvar a) (pcon A 0 (plit (int 3))))) (pvar k)) (var k)) ((ptup (pcon C 2 (pvar a) (pcon A 0 (pvar b))) (plit (int 7))) (prim int_add (var a) (var b))) ((pwild) (int 0)))) int)
; non-exhaustive match
(prog (types (T () ((A 0 int) (B 1) (C 2 int (named T)))) (Opt (a) ((None 0) (Some 1 (tvar a))))) (match (con B 1) (((pcon A 0 (pvar x)) (var x)))) int)
; && does not evaluate a failing right operand
(prog (types (T () ((A 0 int) (B 1) (C 2 int (named T)))) (Opt (a) ((None 0) (Some 1 (tvar a))))) (and (con False 0) (error 114 104 115)) bool)
; || evaluates the right operand when the left is False
(prog (types (T () ((A 0 int) (B 1) (C 2 int (named T)))) (Opt (a) ((None 0) (Some 1 (tvar a))))) (or (prim int_eq (eff (int 1)) (int 2)) (prim int_lt (eff (int 2)) (int 5))) bool)
; array index out of range is an explicit failure with the VM's message
(prog (types (T () ((A 0 int) (B 1) (C 2 int (named T)))) (Opt (a) ((None 0) (Some 1 (tvar a))))) (aidx (arr (int 5) (int 6) (int 7)) (int 3)) int)
; closure capturing an upvalue of an upvalue
(prog (types (T () ((A 0 int) (B 1) (C 2 int (named T)))) (Opt (a) ((None 0) (Some 1 (tvar a))))) (let (pvar mk) (lam (a) (lam (b) (lam (c) (prim int_add (prim int_mul (var a) (int 100)) (prim int_add (prim int_mul (var b) (int 10)) (var c)))))) (let (pvar h) (app (var mk) (int 1)) (prim int_sub (app (var h) (int 2) (int 3)) (app (var h) (int 7) (int 7))))) int)
; six-field record matched with two binders (Split vs GetOffset strategy)
(prog (types (T () ((A 0 int) (B 1) (C 2 int (named T)))) (Opt (a) ((None 0) (Some 1 (tvar a))))) (let (prcd ((b (pvar b)) (e (pvar q)))) (rcd ((a (int 1)) (b (int 2)) (c (int 3)) (d (int 4)) (e (int 5)) (f (int 6)))) (prim int_sub (var b) (var q))) int)
; shadowing and let f x = ... self reference vs lambda
(prog (types (T () ((A 0 int) (B 1) (C 2 int (named T)))) (Opt (a) ((None 0) (Some 1 (tvar a))))) (let (pvar f) (lam (x) (var x)) (let (pvar f) (lam (y) (app (var f) (prim int_add (var y) (int 1)))) (app (var f) (int 1)))) int)
; byte arithmetic is checked
(prog (types (T () ((A 0 int) (B 1) (C 2 int (named T)))) (Opt (a) ((None 0) (Some 1 (tvar a))))) (prim byte_add (byte 200) (byte 100)) byte)
; string and char literals
(prog (types (T () ((A 0 int) (B 1) (C 2 int (named T)))) (Opt (a) ((None 0) (Some 1 (tvar a))))) (tup (str 104 195 169 34 92 10) (char 122) (char 39)) (ttup str char char))
