//! C14 — parallel execution is safe and equivalent to running alone (observational tie).
//!
//! One root VM; N in {2,4,8,16} OS threads, each driving its own Gluon thread (children of the
//! root, some grandchildren) with `run_expr` on generated programs which
//!   (a) import overlapping subsets of the harness-defined modules `c14.m0..m5` (whose bodies call
//!       the extern `c14.rt.tick "<name>"`, counting evaluations) and of std modules,
//!   (b) allocate heavily while `gluon_vm::verif::set_stride(k)` forces collections all the time
//!       (a collecting parent locks every descendant's context, vm/src/thread.rs:395),
//!   (c) exchange values through std.channel between pairs of threads.
//! Start orders and yield points are perturbed from the seeded PRNG.
//!
//! Process structure (a deadlock/abort must not take the harness down):
//!   c14 --tier T --seed S --out DIR        driver: generates worlds + scenarios, runs the two below
//!   c14 solo <world.json>                   solo results: every unit alone on a FRESH VM
//!   c14 child <scenario.json>               one concurrent scenario; driver watches it (watchdog)
//!   c14 --replay FILE                       re-runs the scenario stored in a replay JSON k times
//!
//! Output files in --out: cases.txt, impl_out.txt (observed line per scenario), model_in.txt
//! (expected line per scenario = solo results, all tick counters <= 1, exit ok), stats.json,
//! failures.json (details used by checks/c14.py).
#[macro_use]
extern crate gluon_vm;

use gluon::import::add_extern_module;
use gluon::vm::ExternModule;
use gluon::vm::api::{FunctionRef, IO, OpaqueValue};
use gluon::vm::channel::{ChannelRecord, Receiver, Sender};
use gluon::vm::types::VmInt;
use gluon::query::CompilationBase;
use gluon::{RootedThread, Thread, ThreadExt};
use gvh::out::{Args, Hist, fnv};
use gvh::rng::Rng;
use serde_derive::{Deserialize, Serialize};
use std::cell::RefCell;
use std::collections::BTreeMap;
use std::io::{Read, Write};
use std::panic::{AssertUnwindSafe, catch_unwind};
use std::sync::atomic::{AtomicBool, AtomicU64, Ordering};
use std::sync::{Arc, Barrier, Mutex};
use std::time::{Duration, Instant};

// ------------------------------------------------------------------------------------------
// extern module c14.rt : { tick : String -> Int, jitter : Int -> Int, nap : Int -> Int }

static TICKS: Mutex<BTreeMap<String, u64>> = Mutex::new(BTreeMap::new());
static JITTER_SEED: AtomicU64 = AtomicU64::new(0);
static JITTER_ON: AtomicBool = AtomicBool::new(false);
static JITTER_CTR: AtomicU64 = AtomicU64::new(0);

thread_local! {
    static TL_RNG: RefCell<Option<Rng>> = const { RefCell::new(None) };
}

fn tick(name: &str) -> VmInt {
    let mut t = TICKS.lock().unwrap_or_else(|e| e.into_inner());
    *t.entry(name.to_string()).or_insert(0) += 1;
    0
}

/// Yield perturbation: called from module bodies and program loops.  While an extern function
/// runs the calling Gluon thread's context mutex is released (thread.rs:1900 `drop(self)`), so
/// this is also where a collecting parent gets hold of the child's context.
fn jitter(_k: VmInt) -> VmInt {
    if !JITTER_ON.load(Ordering::Relaxed) {
        return 0;
    }
    let r = TL_RNG.with(|c| {
        let mut c = c.borrow_mut();
        if c.is_none() {
            let n = JITTER_CTR.fetch_add(1, Ordering::Relaxed);
            *c = Some(Rng::new(JITTER_SEED.load(Ordering::Relaxed) ^ n.wrapping_mul(0x9E37_79B9)));
        }
        c.as_mut().unwrap().below(16)
    });
    match r {
        0..=5 => {}
        6..=10 => std::thread::yield_now(),
        11..=13 => std::thread::sleep(Duration::from_micros(20 + 30 * r)),
        _ => std::thread::sleep(Duration::from_micros(300 * (r - 13))),
    }
    0
}

fn nap(ms: VmInt) -> VmInt {
    // the polling receiver has no time budget any more: sleep longer the longer it has been polling
    // (2 ms ... 50 ms) so that a slow sender costs at most a few thousand iterations
    thread_local! {
        static NAPS: std::cell::Cell<u64> = const { std::cell::Cell::new(0) };
    }
    let k = NAPS.with(|n| {
        n.set(n.get() + 1);
        n.get()
    });
    let d = (ms.clamp(0, 50) as u64 + k / 50).min(50);
    std::thread::sleep(Duration::from_millis(d));
    0
}

// "has my peer (the sender of my channel) finished?" — lets a receiver poll without a time budget:
// it gives up (result -1) only when the sender is done AND the queue is still empty, i.e. when
// values were really lost, never because the sender was slow.
static SENDER_DONE: [AtomicBool; 64] = [const { AtomicBool::new(false) }; 64];
static N_CHANS: AtomicU64 = AtomicU64::new(0);
thread_local! {
    static TL_CHAN: std::cell::Cell<i64> = const { std::cell::Cell::new(-1) };
}

fn peer_done(_k: VmInt) -> VmInt {
    let c = TL_CHAN.with(|c| c.get());
    if c >= 0 && (c as usize) < 64 {
        return SENDER_DONE[c as usize].load(Ordering::SeqCst) as VmInt;
    }
    // not called on the receiver's OS thread: done when every sender is done
    let n = N_CHANS.load(Ordering::SeqCst) as usize;
    (0..n.min(64)).all(|i| SENDER_DONE[i].load(Ordering::SeqCst)) as VmInt
}

fn set_chan(c: i64) {
    TL_CHAN.with(|x| x.set(c));
}

fn sender_done(c: i64) {
    if c >= 0 && (c as usize) < 64 {
        SENDER_DONE[c as usize].store(true, Ordering::SeqCst);
    }
}

fn reset_chans(n: usize) {
    for f in SENDER_DONE.iter() {
        f.store(false, Ordering::SeqCst);
    }
    N_CHANS.store(n as u64, Ordering::SeqCst);
}

fn load_rt(thread: &Thread) -> gluon::vm::Result<ExternModule> {
    ExternModule::new(
        thread,
        record! {
            tick => primitive!(1, tick),
            jitter => primitive!(1, jitter),
            nap => primitive!(1, nap),
            peer_done => primitive!(1, peer_done)
        },
    )
}

// ------------------------------------------------------------------------------------------
// data

#[derive(Serialize, Deserialize, Clone, Debug)]
struct Unit {
    /// "plain" | "pair"
    kind: String,
    /// plain: the program (evaluates to Int); pair: the sender program (Sender e -> IO Int)
    src: String,
    /// pair only: the receiver program (Receiver e -> IO Int)
    recv_src: String,
    /// pair only: "Int" | "String"
    elem: String,
    /// modules of the world imported directly (for the record only)
    imports: Vec<String>,
    /// big allocation work: only scheduled with strides >= 17 (a collection per k-th allocation is
    /// quadratic in the live heap)
    #[serde(default)]
    big: bool,
}

#[derive(Serialize, Deserialize, Clone, Debug)]
struct World {
    id: usize,
    /// (module name, source), `c14.m0` .. `c14.m5`
    modules: Vec<(String, String)>,
    units: Vec<Unit>,
    /// solo result lines: plain -> [r], pair -> [sender r, receiver r]
    solo: Vec<Vec<String>>,
}

#[derive(Serialize, Deserialize, Clone, Debug)]
struct ThreadSpec {
    /// -1: child of the root VM; k >= 0: child of thread k (an earlier entry)
    parent: i64,
    unit: usize,
    /// "plain" | "send" | "recv"
    role: String,
    /// index of the channel (pairs)
    chan: i64,
    /// start perturbation after the barrier, microseconds (0 = none), and number of yields
    delay_us: u64,
    yields: u64,
}

#[derive(Serialize, Deserialize, Clone, Debug)]
struct Scenario {
    id: usize,
    seed: u64,
    class: String,
    n: usize,
    stride: usize,
    /// tokio runtime + new_vm_async: imports are compiled on spawned tasks (import.rs:545)
    async_vm: bool,
    /// import the implicit prelude on the root before the concurrent phase
    warm: bool,
    /// "none" | "collect" (an extra OS thread calls root.collect()) | "run" (root runs a unit)
    root: String,
    root_unit: i64,
    jitter: bool,
    /// control experiment: run the threads' programs one after the other on one OS thread
    /// (senders before receivers), same stride / quarantine
    #[serde(default)]
    sequential: bool,
    /// control experiment: quarantine hook off (frees really free)
    #[serde(default)]
    no_quarantine: bool,
    /// what the root imports BEFORE the concurrent phase: "none" (everything cold), "std" (c14.rt and
    /// every std module the programs use, i.e. all EXTERN modules; c14.m* stay cold and are imported
    /// concurrently), "all"
    #[serde(default)]
    preload: String,
    /// "" (classic: one program per thread) | "fresh-names" | "collector"  (many rounds per thread)
    #[serde(default)]
    family: String,
    #[serde(default)]
    rounds: usize,
    /// fresh-names: fields/constructors/literals per program; collector: host calls per returned closure
    #[serde(default)]
    width: usize,
    world: World,
    /// element type of channel i
    chans: Vec<String>,
    threads: Vec<ThreadSpec>,
}

#[derive(Serialize, Deserialize, Clone, Debug, Default)]
struct ChildReport {
    /// families: what the same sequence of programs gives alone (no other thread, no collector)
    #[serde(default)]
    solo_results: Vec<String>,
    results: Vec<String>,
    root_result: String,
    ticks: BTreeMap<String, u64>,
    events: Vec<String>,
    forced_collections: usize,
    root_collections: u64,
    elapsed_ms: u64,
}

// ------------------------------------------------------------------------------------------
// program generation

const STD_POOL: &[(&str, &str)] = &[
    // (import + helper lines, expression of type Int using them) — functions whose behaviour is stable
    ("let string = import! std.string", "string.len \"hello\""),
    ("let int = import! std.int", "int.abs (0 - 7)"),
    ("let { Option } = import! std.option\nlet opt_v o : Option Int -> Int =\n    match o with\n    | Some x -> x\n    | None -> 0", "opt_v (Some 5)"),
    ("let list @ { List } = import! std.list\nlet list_head l : List Int -> Int =\n    match l with\n    | Cons x _ -> x\n    | Nil -> 0", "list_head (list.of [1, 2, 3])"),
    ("let array = import! std.array", "array.len [1, 2, 3, 4]"),
    ("let { Result } = import! std.result\nlet res_v r : Result () Int -> Int =\n    match r with\n    | Ok x -> x\n    | Err _ -> 0", "res_v (Ok 2)"),
    ("let { foldl } = import! std.foldable\nlet listf @ { ? } = import! std.list", "foldl (\\a b -> a + b) 0 (listf.of [1, 2, 3, 4])"),
    ("let { compare, Ordering } = import! std.cmp\nlet ord_v o : Ordering -> Int =\n    match o with\n    | LT -> 1\n    | EQ -> 2\n    | GT -> 3", "ord_v (compare 1 2)"),
    ("let map = import! std.map\nlet { Option } = import! std.option\nlet map_v o : Option Int -> Int =\n    match o with\n    | Some x -> x\n    | None -> 0", "map_v (map.find \"b\" (map.insert \"b\" 7 (map.singleton \"a\" 1)))"),
    ("let char = import! std.char", "(if char.is_alphabetic 'a' then 1 else 0)"),
];

fn gen_modules(rng: &mut Rng) -> Vec<(String, String)> {
    let mut ms = Vec::new();
    for i in 0..6usize {
        let mut s = String::new();
        s.push_str("let rt = import! c14.rt\n");
        s.push_str(&format!("let t = rt.tick \"m{}\"\n", i));
        let mut deps = vec![];
        for j in 0..i {
            if rng.chance(2, 5) {
                deps.push(j);
            }
        }
        for j in &deps {
            s.push_str(&format!("let m{} = import! c14.m{}\n", j, j));
        }
        if rng.chance(1, 3) {
            let (imp, _) = STD_POOL[rng.below(STD_POOL.len() as u64) as usize];
            // first line only, renamed binder is irrelevant (unused import still loads the module)
            s.push_str(&imp.lines().next().unwrap().replacen("let ", "let _u_", 1).replace("_u_{", "{"));
            s.push('\n');
        }
        // some work in the body so that the evaluation takes a while (wider overlap window)
        let work = 20 + rng.below(200);
        s.push_str("type L = | N | C Int L\n");
        s.push_str("rec let build n acc : Int -> L -> L = if n == 0 then acc else build (n - 1) (C (n + rt.jitter n) acc)\n");
        s.push_str("rec let sum l acc : L -> Int -> Int =\n    match l with\n    | N -> acc\n    | C x xs -> sum xs (acc + x)\n");
        let mut v = format!("{} + t + sum (build {} N) 0", 100 * (i + 1) + rng.below(50) as usize, work);
        for j in &deps {
            v.push_str(&format!(" + m{}.v", j));
        }
        s.push_str(&format!("{{ v = {}, f = \\x -> x * {} + {} }}\n", v, 2 + i, rng.below(9)));
        ms.push((format!("c14.m{}", i), s));
    }
    ms
}

fn alloc_work(rng: &mut Rng, s: &mut String, big: bool) -> String {
    // returns an Int expression; defines helpers in `s`
    let n = if big { 1500 + rng.below(3000) } else { 40 + rng.below(260) };
    let rounds = 1 + rng.below(3);
    s.push_str("type R = { a : Int, s : String, l : Array Int }\n");
    s.push_str("type L = | N | C R L\n");
    s.push_str("rec let build n acc : Int -> L -> L = if n == 0 then acc else build (n - 1) (C { a = n + rt.jitter n, s = \"x\", l = [n, n + 1] } acc)\n");
    s.push_str("rec let sum l acc : L -> Int -> Int =\n    match l with\n    | N -> acc\n    | C r xs -> sum xs (acc + r.a)\n");
    s.push_str(&format!(
        "rec let rounds k acc : Int -> Int -> Int = if k == 0 then acc else rounds (k - 1) (acc + sum (build {} N) 0)\n",
        n
    ));
    format!("rounds {} 0", rounds)
}

fn gen_plain(rng: &mut Rng, big: bool) -> Unit {
    let mut s = String::new();
    let mut imports = vec![];
    s.push_str("let rt = import! c14.rt\n");
    let mut terms: Vec<String> = vec![];
    let k = 1 + rng.below(4);
    let mut picked = vec![];
    for _ in 0..k {
        let j = rng.below(6) as usize;
        if !picked.contains(&j) {
            picked.push(j);
        }
    }
    // random order of the import lines (overlap with different orders in different threads)
    for j in &picked {
        s.push_str(&format!("let m{} = import! c14.m{}\n", j, j));
        imports.push(format!("c14.m{}", j));
        terms.push(format!("m{}.v", j));
        terms.push(format!("m{}.f {}", j, rng.below(100)));
    }
    let ns = rng.below(4);
    let mut used = vec![];
    for _ in 0..ns {
        let j = rng.below(STD_POOL.len() as u64) as usize;
        if used.contains(&j) {
            continue;
        }
        used.push(j);
        s.push_str(STD_POOL[j].0);
        s.push('\n');
        imports.push(STD_POOL[j].0.rsplit("import! ").next().unwrap().lines().next().unwrap().to_string());
        terms.push(STD_POOL[j].1.to_string());
    }
    let w = alloc_work(rng, &mut s, big);
    terms.push(w);
    s.push_str(&terms.join(" + "));
    s.push('\n');
    Unit { kind: "plain".into(), src: s, recv_src: String::new(), elem: String::new(), imports, big }
}

fn gen_pair(rng: &mut Rng, big: bool) -> Unit {
    let elem = if rng.chance(1, 2) { "Int" } else { "String" };
    let count = 3 + rng.below(30);
    let j = rng.below(6);
    let j2 = rng.below(6);
    // sender
    let mut s = String::new();
    s.push_str("let rt = import! c14.rt\n");
    s.push_str("let { send } = import! std.channel\n");
    s.push_str("let { wrap } = import! std.applicative\n");
    s.push_str("let { ? } = import! std.io\n");
    s.push_str(&format!("let m = import! c14.m{}\n", j));
    let payload = if elem == "Int" { "(i * 7 + 3)".to_string() } else { "(if i #Int== 0 then \"zero\" else \"payload-\" ++ show i)".to_string() };
    if elem == "String" {
        s.push_str("let { (++) } = import! std.string\nlet { show } = import! std.show\n");
    }
    let w = alloc_work(rng, &mut s, big);
    s.push_str(&format!(
        "rec let go sender i acc =\n    if i == {} then wrap acc\n    else\n        do _ = send sender {}\n        let j = rt.jitter i\n        go sender (i + 1) (acc + i + j)\n",
        count, payload
    ));
    s.push_str(&format!("\\sender -> go sender 0 (m.v + {})\n", w));
    // receiver: polls (recv is try_recv), naps while empty, gives up after ~10 s of naps
    let mut r = String::new();
    r.push_str("let rt = import! c14.rt\n");
    r.push_str("let { recv } = import! std.channel\n");
    r.push_str("let { wrap } = import! std.applicative\n");
    r.push_str("let { ? } = import! std.io\n");
    r.push_str("let { Result } = import! std.result\n");
    r.push_str(&format!("let m = import! c14.m{}\n", j2));
    let val = if elem == "Int" { "v".to_string() } else { "string.len v".to_string() };
    if elem == "String" {
        r.push_str("let string = import! std.string\n");
    }
    let w2 = alloc_work(rng, &mut r, big);
    r.push_str(&format!(
        "rec let go receiver n acc naps =\n    if n == 0 then wrap acc\n    else\n        do x = recv receiver\n        match x with\n        | Ok v -> go receiver (n - 1) (acc + {}) naps\n        | Err _ ->\n            if rt.peer_done 0 == 1 then\n                do y = recv receiver\n                match y with\n                | Ok v -> go receiver (n - 1) (acc + {}) naps\n                | Err _ -> wrap (0 - 1)\n            else\n                let z = rt.nap 2\n                go receiver n (acc + z) naps\n",
        val, val
    ));
    r.push_str(&format!("\\receiver -> go receiver {} (m.v + {}) 5000\n", count, w2));
    Unit {
        kind: "pair".into(),
        src: s,
        recv_src: r,
        elem: elem.into(),
        imports: vec![format!("c14.m{}", j), format!("c14.m{}", j2), "std.channel".into()],
        big,
    }
}

fn gen_world(id: usize, rng: &mut Rng, n_plain: usize, n_pair: usize) -> World {
    let modules = gen_modules(rng);
    let mut units = vec![];
    // the last plain unit and the last pair are "big"
    for i in 0..n_plain {
        units.push(gen_plain(rng, i + 1 == n_plain));
    }
    for i in 0..n_pair {
        units.push(gen_pair(rng, i + 1 == n_pair));
    }
    World { id, modules, units, solo: vec![] }
}

fn gen_scenario(id: usize, rng: &mut Rng, world: &World, n: usize) -> Scenario {
    let seed = rng.next_u64();
    let mut r = Rng::new(seed);
    // every forced collection marks the whole live heap: with many threads keep the stride larger
    let stride = if n >= 8 { *r.pick(&[3usize, 5, 17, 64, 0]) } else { *r.pick(&[1usize, 2, 3, 5, 17, 64, 0]) };
    let fits = |i: &usize| !world.units[*i].big || stride == 0 || stride >= 64;
    let plain: Vec<usize> = (0..world.units.len()).filter(|i| world.units[*i].kind == "plain").filter(fits).collect();
    let pairs: Vec<usize> = (0..world.units.len()).filter(|i| world.units[*i].kind == "pair").filter(fits).collect();
    let async_vm = r.chance(1, 8);
    let warm = r.chance(1, 3);
    let preload = match r.below(8) {
        0..=1 => "none",
        2..=6 => "std",
        _ => "all",
    };
    let root = match r.below(20) {
        0..=13 => "none",
        14..=16 => "collect",
        _ => "run",
    };
    let n_pairs = if pairs.is_empty() { 0 } else { r.below((n as u64) / 2 + 1).min(3) as usize };
    let nested = r.chance(1, 2);
    let mut threads = vec![];
    let mut chans = vec![];
    let mut big_used = false;
    for _ in 0..n_pairs {
        let mut u = *r.pick(&pairs);
        // at most one big unit per scenario (a forced collection marks the whole live heap; several
        // big heaps + the hook's global mutex make a scenario take minutes, which is not a finding)
        if world.units[u].big && big_used {
            u = *pairs.iter().find(|i| !world.units[**i].big).unwrap_or(&u);
        }
        big_used |= world.units[u].big;
        let c = chans.len() as i64;
        chans.push(world.units[u].elem.clone());
        for role in ["send", "recv"] {
            threads.push(ThreadSpec { parent: -1, unit: u, role: role.into(), chan: c, delay_us: 0, yields: 0 });
        }
    }
    while threads.len() < n {
        let mut u = *r.pick(&plain);
        if world.units[u].big && big_used {
            u = *plain.iter().find(|i| !world.units[**i].big).unwrap_or(&u);
        }
        big_used |= world.units[u].big;
        threads.push(ThreadSpec { parent: -1, unit: u, role: "plain".into(), chan: -1, delay_us: 0, yields: 0 });
    }
    // shuffle (start order = spawn order of the OS threads)
    for i in (1..threads.len()).rev() {
        let j = r.below(i as u64 + 1) as usize;
        threads.swap(i, j);
    }
    for i in 0..threads.len() {
        if nested && i > 0 && r.chance(1, 3) {
            threads[i].parent = r.below(i as u64) as i64;
        }
        if r.chance(1, 2) {
            threads[i].delay_us = r.below(3000);
        }
        if r.chance(1, 2) {
            threads[i].yields = r.below(50);
        }
    }
    let mut class = String::new();
    class.push_str(if async_vm { "async" } else { "sync" });
    match preload {
        "none" => class.push_str("+cold-externs"),
        "all" => class.push_str("+preloaded"),
        _ => {}
    }
    if n_pairs > 0 {
        class.push_str("+channels");
    }
    if threads.iter().any(|t| t.parent >= 0) {
        class.push_str("+nested");
    }
    if root != "none" {
        class.push_str("+root-");
        class.push_str(root);
    }
    class.push_str(if stride == 0 { "+natural-gc" } else { "+forced-gc" });
    Scenario {
        id,
        seed,
        class,
        n,
        stride,
        async_vm,
        warm,
        root: root.into(),
        root_unit: if plain.is_empty() { -1 } else { *r.pick(&plain) as i64 },
        jitter: r.chance(4, 5),
        sequential: false,
        no_quarantine: false,
        preload: preload.into(),
        family: String::new(),
        rounds: 0,
        width: 0,
        world: world.clone(),
        chans,
        threads,
    }
}

// ------------------------------------------------------------------------------------------
// running on the real implementation

fn canon_err(e: &str) -> String {
    let first = e.lines().next().unwrap_or("").trim();
    format!("err {}", first.chars().take(200).collect::<String>())
}

fn new_root(world: &World, rt: Option<&tokio::runtime::Runtime>) -> RootedThread {
    let vm = match rt {
        Some(rt) => rt.block_on(gluon::new_vm_async()),
        None => gluon::new_vm(),
    };
    vm.get_database_mut().run_io(true);
    add_extern_module(&vm, "c14.rt", load_rt);
    {
        let mut db = vm.get_database_mut();
        for (name, src) in &world.modules {
            db.add_module(name.clone(), src);
        }
    }
    vm
}

type SenderI = OpaqueValue<RootedThread, Sender<VmInt>>;
type ReceiverI = OpaqueValue<RootedThread, Receiver<VmInt>>;
type SenderS = OpaqueValue<RootedThread, Sender<String>>;
type ReceiverS = OpaqueValue<RootedThread, Receiver<String>>;

enum Chan {
    I(Option<SenderI>, Option<ReceiverI>),
    S(Option<SenderS>, Option<ReceiverS>),
}

fn make_chan(root: &RootedThread, elem: &str, rt: Option<&tokio::runtime::Runtime>) -> Result<Chan, String> {
    let _g = rt.map(|r| r.enter());
    // the Sender/Receiver types must be known to the VM before `make_type` (as in tests/parallel.rs)
    root.run_expr::<()>("<chan-types>", "let _ = import! std.channel in ()").map_err(|e| e.to_string())?;
    if elem == "Int" {
        let (value, _) = root
            .run_expr::<IO<ChannelRecord<SenderI, ReceiverI>>>("<chan>", "let { channel } = import! std.channel in channel 0")
            .map_err(|e| e.to_string())?;
        let record_p! { sender, receiver } = Result::from(value).map_err(|e: String| e)?;
        Ok(Chan::I(Some(sender), Some(receiver)))
    } else {
        let (value, _) = root
            .run_expr::<IO<ChannelRecord<SenderS, ReceiverS>>>("<chan>", "let { channel } = import! std.channel in channel \"\"")
            .map_err(|e| e.to_string())?;
        let record_p! { sender, receiver } = Result::from(value).map_err(|e: String| e)?;
        Ok(Chan::S(Some(sender), Some(receiver)))
    }
}

enum Arg {
    None,
    SI(SenderI),
    RI(ReceiverI),
    SS(SenderS),
    RS(ReceiverS),
}

fn block<F: std::future::Future>(rt: Option<&tokio::runtime::Handle>, f: F) -> F::Output {
    match rt {
        Some(h) => h.block_on(f),
        None => futures::executor::block_on(f),
    }
}

/// Compile and run one program on `th`.
fn run_one(th: &RootedThread, name: &str, src: &str, arg: Arg, rt: Option<&tokio::runtime::Handle>) -> String {
    let r = catch_unwind(AssertUnwindSafe(|| -> Result<VmInt, String> {
        macro_rules! call {
            ($t:ty, $a:expr) => {{
                let mut f: FunctionRef<fn($t) -> IO<VmInt>> =
                    block(rt, th.run_expr_async(name, src)).map_err(|e| e.to_string())?.0;
                let io = block(rt, f.call_async($a)).map_err(|e| e.to_string())?;
                Result::from(io).map_err(|e: String| e)
            }};
        }
        match arg {
            Arg::None => block(rt, th.run_expr_async::<VmInt>(name, src)).map(|x| x.0).map_err(|e| e.to_string()),
            Arg::SI(a) => call!(SenderI, a),
            Arg::RI(a) => call!(ReceiverI, a),
            Arg::SS(a) => call!(SenderS, a),
            Arg::RS(a) => call!(ReceiverS, a),
        }
    }));
    match r {
        Ok(Ok(v)) => format!("ok {}", v),
        Ok(Err(e)) => canon_err(&e),
        Err(p) => {
            let msg = p.downcast_ref::<String>().cloned().or_else(|| p.downcast_ref::<&str>().map(|s| s.to_string())).unwrap_or_else(|| "?".into());
            format!("PANIC {}", msg.lines().next().unwrap_or(""))
        }
    }
}

fn reset_globals(seed: u64, jitter_on: bool) {
    TICKS.lock().unwrap_or_else(|e| e.into_inner()).clear();
    JITTER_SEED.store(seed, Ordering::SeqCst);
    JITTER_ON.store(jitter_on, Ordering::SeqCst);
}

fn ticks() -> BTreeMap<String, u64> {
    TICKS.lock().unwrap_or_else(|e| e.into_inner()).clone()
}

/// Solo: every unit alone on a fresh VM (a pair: sender to completion, then receiver).
fn solo_main(path: &str) {
    let mut world: World = serde_json::from_str(&std::fs::read_to_string(path).expect("world file")).expect("world json");
    let mut solo = vec![];
    let mut bad_ticks = vec![];
    for (ui, u) in world.units.iter().enumerate() {
        reset_globals(0, false);
        let root = new_root(&world, None);
        let mut res = vec![];
        if u.kind == "plain" {
            let th = root.new_thread().expect("new_thread");
            res.push(run_one(&th, &format!("c14_u{}", ui), &u.src, Arg::None, None));
        } else {
            reset_chans(1);
            set_chan(0);
            let ch = make_chan(&root, &u.elem, None).expect("channel");
            let a = root.new_thread().expect("new_thread");
            let b = root.new_thread().expect("new_thread");
            match ch {
                Chan::I(s, r) => {
                    res.push(run_one(&a, &format!("c14_u{}s", ui), &u.src, Arg::SI(s.unwrap()), None));
                    sender_done(0);
                    res.push(run_one(&b, &format!("c14_u{}r", ui), &u.recv_src, Arg::RI(r.unwrap()), None));
                }
                Chan::S(s, r) => {
                    res.push(run_one(&a, &format!("c14_u{}s", ui), &u.src, Arg::SS(s.unwrap()), None));
                    sender_done(0);
                    res.push(run_one(&b, &format!("c14_u{}r", ui), &u.recv_src, Arg::RS(r.unwrap()), None));
                }
            }
        }
        for (k, v) in ticks() {
            if v > 1 {
                bad_ticks.push(format!("unit {}: {} evaluated {} times (solo)", ui, k, v));
            }
        }
        solo.push(res);
    }
    world.solo = solo;
    let out = serde_json::json!({ "solo": world.solo, "bad_ticks": bad_ticks });
    println!("SOLO {}", out);
}

fn child_main(path: &str) {
    let sc: Scenario = serde_json::from_str(&std::fs::read_to_string(path).expect("scenario file")).expect("scenario json");
    let t0 = Instant::now();
    reset_globals(sc.seed, sc.jitter);
    if !sc.family.is_empty() {
        return family_main(&sc);
    }
    let rt = if sc.async_vm {
        Some(tokio::runtime::Builder::new_multi_thread().worker_threads(4).enable_all().build().expect("tokio runtime"))
    } else {
        None
    };
    let root = new_root(&sc.world, rt.as_ref());
    if sc.warm {
        let _g = rt.as_ref().map(|r| r.enter());
        let _ = root.run_expr::<VmInt>("c14_warm", "1 + 1");
    }
    if sc.preload == "std" || sc.preload == "all" {
        let _g = rt.as_ref().map(|r| r.enter());
        let mut names: Vec<String> = vec![];
        let mut sources: Vec<&String> = sc.world.modules.iter().map(|m| &m.1).collect();
        for t in &sc.threads {
            let u = &sc.world.units[t.unit];
            sources.push(&u.src);
            sources.push(&u.recv_src);
        }
        if sc.root == "run" && sc.root_unit >= 0 {
            sources.push(&sc.world.units[sc.root_unit as usize].src);
        }
        {
            {
                for l in sources.iter().flat_map(|s| s.lines()) {
                    if let Some(p) = l.find("import! ") {
                        let m: String = l[p + 8..].chars().take_while(|c| c.is_alphanumeric() || *c == '.' || *c == '_').collect();
                        if !names.contains(&m) && (sc.preload == "all" || !m.starts_with("c14.m")) {
                            names.push(m);
                        }
                    }
                }
            }
        }
        let mut src = String::new();
        for m in &names {
            src.push_str(&format!("let _ = import! {}\n", m));
        }
        src.push_str("0\n");
        let r = catch_unwind(AssertUnwindSafe(|| root.run_expr::<VmInt>("c14_preload", &src).map_err(|e| e.to_string())));
        match r {
            Ok(Ok(_)) => {}
            Ok(Err(e)) => {
                println!("SETUP-ERROR preloading modules on the root thread failed: {}", e.replace('\n', " | ").chars().take(600).collect::<String>());
                let _ = std::io::stdout().flush();
                std::process::exit(4)
            }
            Err(_) => {
                println!("SETUP-ERROR preloading modules on the root thread panicked");
                let _ = std::io::stdout().flush();
                std::process::exit(4)
            }
        }
    }
    // set-up failures (still single OS thread, but on an async VM the imports already run on
    // spawned tasks) are reported as such
    let setup_fail = |what: String| -> ! {
        println!("SETUP-ERROR {}", what.replace('\n', " | ").chars().take(600).collect::<String>());
        let _ = std::io::stdout().flush();
        std::process::exit(4)
    };
    reset_chans(sc.chans.len());
    let mut chans: Vec<Chan> = vec![];
    for e in &sc.chans {
        match catch_unwind(AssertUnwindSafe(|| make_chan(&root, e, rt.as_ref()))) {
            Ok(Ok(c)) => chans.push(c),
            Ok(Err(err)) => setup_fail(format!("creating a channel on the root thread failed: {}", err)),
            Err(_) => setup_fail("creating a channel on the root thread panicked".into()),
        }
    }
    // all Gluon threads are created up front (new_thread locks the parent's context)
    let mut gthreads: Vec<RootedThread> = vec![];
    for t in &sc.threads {
        let th = if t.parent < 0 { root.new_thread() } else { gthreads[t.parent as usize].new_thread() };
        gthreads.push(th.expect("new_thread"));
    }
    gluon_vm::verif::set_quarantine(!sc.no_quarantine);
    let _ = gluon_vm::verif::take_events();
    gluon_vm::verif::set_stride(sc.stride);
    let extra = if sc.root == "none" { 0 } else { 1 };
    let barrier = Arc::new(Barrier::new(if sc.sequential { extra } else { sc.threads.len() + extra }));
    let done = Arc::new(AtomicU64::new(0));
    let total = sc.threads.len() as u64;
    let handle = rt.as_ref().map(|r| r.handle().clone());
    let mut joins = vec![];
    let mut seq_results: Vec<(usize, String)> = vec![];
    let mut order: Vec<usize> = (0..sc.threads.len()).collect();
    if sc.sequential {
        order.sort_by_key(|i| if sc.threads[*i].role == "recv" { 1 } else { 0 });
    }
    for i in order {
        let t = &sc.threads[i];
        let th = gthreads[i].clone();
        let u = &sc.world.units[t.unit];
        let (src, arg) = match t.role.as_str() {
            "plain" => (u.src.clone(), Arg::None),
            "send" => (
                u.src.clone(),
                match &mut chans[t.chan as usize] {
                    Chan::I(s, _) => Arg::SI(s.take().expect("sender used once")),
                    Chan::S(s, _) => Arg::SS(s.take().expect("sender used once")),
                },
            ),
            _ => (
                u.recv_src.clone(),
                match &mut chans[t.chan as usize] {
                    Chan::I(_, r) => Arg::RI(r.take().expect("receiver used once")),
                    Chan::S(_, r) => Arg::RS(r.take().expect("receiver used once")),
                },
            ),
        };
        let barrier = barrier.clone();
        let done = done.clone();
        let handle = handle.clone();
        let (delay, yields) = (t.delay_us, t.yields);
        let (my_chan, is_sender) = (t.chan, t.role == "send");
        if sc.sequential {
            set_chan(my_chan);
            let r = run_one(&th, &format!("c14_t{}", i), &src, arg, handle.as_ref());
            if is_sender {
                sender_done(my_chan);
            }
            println!("DONE {} {}", i, r);
            seq_results.push((i, r));
            continue;
        }
        joins.push(
            std::thread::Builder::new()
                .name(format!("c14-t{}", i))
                .stack_size(16 << 20)
                .spawn(move || {
                    barrier.wait();
                    for _ in 0..yields {
                        std::thread::yield_now();
                    }
                    if delay > 0 {
                        std::thread::sleep(Duration::from_micros(delay));
                    }
                    set_chan(my_chan);
                    let r = run_one(&th, &format!("c14_t{}", i), &src, arg, handle.as_ref());
                    if is_sender {
                        sender_done(my_chan);
                    }
                    done.fetch_add(1, Ordering::SeqCst);
                    println!("DONE {} {}", i, r);
                    let _ = std::io::stdout().flush();
                    r
                })
                .expect("spawn"),
        );
    }
    // root activity
    let root_collections = Arc::new(AtomicU64::new(0));
    let root_join = if sc.root != "none" {
        let root2 = root.clone();
        let barrier = barrier.clone();
        let done = done.clone();
        let rc = root_collections.clone();
        let mode = sc.root.clone();
        let src = if sc.root_unit >= 0 { sc.world.units[sc.root_unit as usize].src.clone() } else { "1".into() };
        let seed = sc.seed;
        let handle = handle.clone();
        Some(
            std::thread::Builder::new()
                .name("c14-root".into())
                .stack_size(16 << 20)
                .spawn(move || {
                    let mut r = Rng::new(seed ^ 0xABCD);
                    barrier.wait();
                    if mode == "collect" {
                        while done.load(Ordering::SeqCst) < total {
                            root2.collect();
                            rc.fetch_add(1, Ordering::SeqCst);
                            std::thread::sleep(Duration::from_micros(50 + r.below(3000)));
                        }
                        String::from("ok 0")
                    } else {
                        let x = run_one(&root2, "c14_root", &src, Arg::None, handle.as_ref());
                        println!("DONE root {}", x);
                        x
                    }
                })
                .expect("spawn"),
        )
    } else {
        None
    };
    let mut rep = ChildReport::default();
    for j in joins {
        rep.results.push(j.join().unwrap_or_else(|_| "PANIC (thread)".into()));
    }
    if sc.sequential {
        seq_results.sort();
        rep.results = seq_results.into_iter().map(|x| x.1).collect();
    }
    if let Some(j) = root_join {
        rep.root_result = j.join().unwrap_or_else(|_| "PANIC (root thread)".into());
    }
    gluon_vm::verif::set_stride(0);
    rep.ticks = ticks();
    rep.events = gluon_vm::verif::take_events();
    rep.forced_collections = gluon_vm::verif::forced_collections();
    rep.root_collections = root_collections.load(Ordering::SeqCst);
    rep.elapsed_ms = t0.elapsed().as_millis() as u64;
    println!("REPORT {}", serde_json::to_string(&rep).unwrap());
    let _ = std::io::stdout().flush();
    // Tear-down (dropping threads/VM with quarantined heaps) is not part of the property and is
    // skipped on purpose: exit right away so that a tear-down problem is not mis-attributed.
    std::process::exit(0);
}


// ------------------------------------------------------------------------------------------
// families: many rounds per thread

/// fresh-names: a program that introduces names no earlier program of the VM used (record fields,
/// constructors, string literals) and uses them through by-name (row polymorphic) field access,
/// matches on the fresh variants and string equality.  All threads of a round use the SAME names.
fn fresh_program(round: usize, thread: usize, width: usize) -> String {
    let mut s = String::new();
    s.push_str("let { string_eq } = import! std.prim\n");
    for k in 0..width {
        s.push_str(&format!("type V{k} = | Ca_{round}_{k} Int | Cb_{round}_{k} Int\n"));
        s.push_str(&format!("let tag{k} v =\n    match v with\n    | Ca_{round}_{k} x -> x\n    | Cb_{round}_{k} y -> y + 1\n"));
        s.push_str(&format!("let get{k} r = r.field_{round}_{k}\n"));
    }
    for k in 0..width {
        s.push_str(&format!(
            "get{k} {{ field_{round}_{k} = {k}, pad_{round}_{k} = 0 }} + get{k} {{ other_{round} = \"s_{round}_{k}\", field_{round}_{k} = 1 }} + tag{k} (Ca_{round}_{k} {k}) + tag{k} (Cb_{round}_{k} 0) + (if string_eq \"lit_{round}_{k}\" \"lit_{round}_{k}\" then 1 else 0) + "
        ));
    }
    s.push_str(&format!("{}\n", thread));
    s
}

/// collector: an allocation-heavy program whose RESULT is a heap value that is used afterwards: a
/// closure over a list, a string and a record of arrays.
fn closure_program(round: usize, thread: usize, n: usize) -> String {
    let mut s = String::new();
    s.push_str("let string = import! std.string\nlet array = import! std.array\n");
    s.push_str("type L = | N | C Int L\n");
    s.push_str("rec let build n acc = if n == 0 then acc else build (n - 1) (C n acc)\n");
    s.push_str("rec let sum l acc =\n    match l with\n    | N -> acc\n    | C x xs -> sum xs (acc + x)\n");
    s.push_str(&format!(
        "(\\xs label r -> \\n -> sum xs n + string.len label + array.index r.xs 3 + array.len r.ys + string.len r.s) (build {} N) \"thread-{}-round-{}-payload\" {{ xs = [{}, 2, 3, {}, 5, 6, 7, 8], ys = [7, 8, {}], s = \"abc-{}\" }}\n",
        n, thread, round, round, thread + 4, round, thread
    ));
    s
}

fn followup_program(round: usize, thread: usize) -> String {
    let mut s = String::new();
    s.push_str("type L = | N | C Int L\n");
    s.push_str("rec let build n acc = if n == 0 then acc else build (n - 1) (C n acc)\n");
    s.push_str("rec let sum l acc =\n    match l with\n    | N -> acc\n    | C x xs -> sum xs (acc + x)\n");
    s.push_str(&format!("sum (build {} N) {}\n", 40 + (round * 7 + thread) % 50, thread));
    s
}

fn family_root(sc: &Scenario) -> RootedThread {
    let vm = gluon::new_vm();
    // everything the programs import is imported on the root thread first (the zone the plain
    // scenarios found clean: sync VM, extern modules loaded by the root, no channels)
    vm.run_expr::<VmInt>(
        "c14_family_preload",
        "let _ = import! std.prim\nlet _ = import! std.string\nlet _ = import! std.array\nlet _ = import! std.int\n1 + 2\n",
    )
    .unwrap_or_else(|e| {
        println!("SETUP-ERROR preloading on the root failed: {}", e.to_string().replace('\n', " | "));
        std::process::exit(4)
    });
    let _ = sc;
    vm
}

/// The work of thread `i` in round `r`: a list of (what, result line).
fn family_round(sc: &Scenario, th: &RootedThread, i: usize, r: usize) -> Vec<(String, String)> {
    let mut out = vec![];
    if sc.family == "fresh-names" {
        let src = fresh_program(r, i, sc.width.max(1));
        out.push((format!("round {} program", r), run_one(th, &format!("c14_f{}_{}", r, i), &src, Arg::None, None)));
    } else {
        let src = closure_program(r, i, 200 + (r * 13 + i * 29) % 200);
        let got = catch_unwind(AssertUnwindSafe(|| -> Vec<(String, String)> {
            let mut v = vec![];
            let f: Result<(FunctionRef<fn(VmInt) -> VmInt>, _), _> = th.run_expr(&format!("c14_c{}_{}", r, i), &src);
            match f {
                Err(e) => v.push((format!("round {} program", r), canon_err(&e.to_string()))),
                Ok((mut f, _)) => {
                    for c in 0..sc.width.max(1) {
                        let a = match f.call(c as VmInt) {
                            Ok(x) => format!("ok {}", x),
                            Err(e) => canon_err(&e.to_string()),
                        };
                        v.push((format!("round {} call {}", r, c), a));
                        if c % 8 == 3 {
                            // a follow-up evaluation on the same child while the closure is still in use
                            let fu = run_one(th, &format!("c14_u{}_{}_{}", r, i, c), &followup_program(r + c, i), Arg::None, None);
                            v.push((format!("round {} follow-up {}", r, c), fu));
                        }
                    }
                }
            }
            v
        }));
        match got {
            Ok(v) => out.extend(v),
            Err(p) => {
                let msg = p.downcast_ref::<String>().cloned().or_else(|| p.downcast_ref::<&str>().map(|s| s.to_string())).unwrap_or_else(|| "?".into());
                out.push((format!("round {}", r), format!("PANIC {}", msg.lines().next().unwrap_or(""))));
            }
        }
    }
    out
}

fn family_main(sc: &Scenario) {
    let t0 = Instant::now();
    let n = sc.threads.len();
    // ---- alone: the same sequence on a fresh VM, one thread after the other, nobody else running
    let solo: Vec<Vec<Vec<(String, String)>>> = {
        let root = family_root(sc);
        (0..n)
            .map(|i| {
                let th = root.new_thread().expect("new_thread");
                (0..sc.rounds).map(|r| family_round(sc, &th, i, r)).collect()
            })
            .collect()
    };
    let solo = Arc::new(solo);
    reset_globals(sc.seed, sc.jitter);
    // ---- together
    let root = family_root(sc);
    let mut gthreads: Vec<RootedThread> = vec![];
    for t in &sc.threads {
        let th = if t.parent < 0 { root.new_thread() } else { gthreads[t.parent as usize].new_thread() };
        gthreads.push(th.expect("new_thread"));
    }
    gluon_vm::verif::set_quarantine(!sc.no_quarantine);
    let _ = gluon_vm::verif::take_events();
    gluon_vm::verif::set_stride(sc.stride);
    let barrier = Arc::new(Barrier::new(n));
    let done = Arc::new(AtomicU64::new(0));
    let sc_arc = Arc::new(sc.clone());
    let mut joins = vec![];
    for i in 0..n {
        let th = gthreads[i].clone();
        let barrier = barrier.clone();
        let done = done.clone();
        let sc = sc_arc.clone();
        let solo = solo.clone();
        joins.push(
            std::thread::Builder::new()
                .name(format!("c14-t{}", i))
                .stack_size(16 << 20)
                .spawn(move || {
                    let mut failed: Option<String> = None;
                    let lockstep = sc.family == "fresh-names";
                    barrier.wait();
                    for r in 0..sc.rounds {
                        if lockstep {
                            // all OS threads are released together in every round
                            barrier.wait();
                        }
                        if failed.is_some() {
                            continue;
                        }
                        let got = family_round(&sc, &th, i, r);
                        let want = &solo[i][r];
                        for k in 0..got.len().max(want.len()) {
                            let g = got.get(k).map(|x| x.1.as_str()).unwrap_or("<nothing>");
                            let w = want.get(k).map(|x| x.1.as_str()).unwrap_or("<nothing>");
                            if g != w {
                                let what = got.get(k).or(want.get(k)).map(|x| x.0.clone()).unwrap_or_default();
                                failed = Some(format!("{}: got `{}`, alone `{}`", what, g, w));
                                break;
                            }
                        }
                    }
                    done.fetch_add(1, Ordering::SeqCst);
                    let r = failed.unwrap_or_else(|| "=solo".into());
                    println!("DONE {} {}", i, r);
                    let _ = std::io::stdout().flush();
                    r
                })
                .expect("spawn"),
        );
    }
    // dedicated collector threads: the root, and every thread that has children
    let root_collections = Arc::new(AtomicU64::new(0));
    let mut collectors = vec![];
    if sc.root == "collect" {
        let mut targets: Vec<RootedThread> = vec![root.clone()];
        for (i, _) in sc.threads.iter().enumerate() {
            if sc.threads.iter().any(|t| t.parent == i as i64) {
                targets.push(gthreads[i].clone());
            }
        }
        for (k, target) in targets.into_iter().enumerate() {
            let done = done.clone();
            let rc = root_collections.clone();
            let total = n as u64;
            let seed = sc.seed;
            collectors.push(
                std::thread::Builder::new()
                    .name(format!("c14-gc{}", k))
                    .spawn(move || {
                        let mut r = Rng::new(seed ^ (k as u64 + 77));
                        while done.load(Ordering::SeqCst) < total {
                            target.collect();
                            rc.fetch_add(1, Ordering::SeqCst);
                            match r.below(4) {
                                0 => std::thread::yield_now(),
                                1 => std::thread::sleep(Duration::from_micros(r.below(200))),
                                _ => {}
                            }
                        }
                    })
                    .expect("spawn"),
            );
        }
    }
    let mut rep = ChildReport::default();
    for j in joins {
        rep.results.push(j.join().unwrap_or_else(|_| "PANIC (thread)".into()));
        rep.solo_results.push("=solo".into());
    }
    for c in collectors {
        let _ = c.join();
    }
    gluon_vm::verif::set_stride(0);
    rep.ticks = ticks();
    rep.events = gluon_vm::verif::take_events();
    rep.forced_collections = gluon_vm::verif::forced_collections();
    rep.root_collections = root_collections.load(Ordering::SeqCst);
    rep.elapsed_ms = t0.elapsed().as_millis() as u64;
    println!("REPORT {}", serde_json::to_string(&rep).unwrap());
    let _ = std::io::stdout().flush();
    std::process::exit(0);
}

fn gen_family(id: usize, rng: &mut Rng, family: &str, thorough: bool) -> Scenario {
    let seed = rng.next_u64();
    let mut r = Rng::new(seed);
    let n = if family == "fresh-names" { *r.pick(&[4usize, 8, 8, 16]) } else { *r.pick(&[4usize, 6, 6, 8]) };
    // nested trees with a collector thread on every intermediate parent expose a further defect of the
    // unchanged tree (abort at vm/src/array.rs:103, 7/8 runs): only generated in the thorough tier
    let nested = family == "collector" && thorough && r.chance(1, 4);
    let stride = if family == "fresh-names" { *r.pick(&[0usize, 0, 17, 64]) } else { *r.pick(&[0usize, 0, 0, 64]) };
    let mut threads = vec![];
    for i in 0..n {
        let parent = if nested && i > 0 && r.chance(1, 3) { r.below(i as u64) as i64 } else { -1 };
        threads.push(ThreadSpec { parent, unit: 0, role: "plain".into(), chan: -1, delay_us: 0, yields: 0 });
    }
    let (rounds, width) = if family == "fresh-names" {
        ((if thorough { 160 } else { 110 }) * 8 / n.max(4), 4 + r.below(4) as usize)
    } else {
        (if thorough { 10 } else { 7 }, 24 + r.below(24) as usize)
    };
    let mut class = String::from("sync+preloaded+");
    class.push_str(if family == "fresh-names" { "fresh-names-rounds" } else { "gc-thread+heap-results" });
    if threads.iter().any(|t| t.parent >= 0) {
        class.push_str("+nested");
    }
    class.push_str(if stride == 0 { "+natural-gc" } else { "+forced-gc" });
    Scenario {
        id,
        seed,
        class,
        n,
        stride,
        async_vm: false,
        warm: true,
        root: if family == "collector" { "collect".into() } else { "none".into() },
        root_unit: -1,
        jitter: false,
        sequential: false,
        no_quarantine: false,
        preload: "all".into(),
        family: family.into(),
        rounds,
        width,
        world: World { id: 0, modules: vec![], units: vec![], solo: vec![] },
        chans: vec![],
        threads,
    }
}

// ------------------------------------------------------------------------------------------
// driver

/// (cpu ticks of the process, per-thread "name:state:wchan") from /proc — used to tell a
/// deadlock (all threads asleep, no CPU time consumed) from a scenario that is merely slow.
fn proc_sample(pid: u32) -> (u64, Vec<String>) {
    let mut cpu = 0u64;
    let mut threads = vec![];
    if let Ok(rd) = std::fs::read_dir(format!("/proc/{}/task", pid)) {
        for e in rd.flatten() {
            let p = e.path();
            let stat = std::fs::read_to_string(p.join("stat")).unwrap_or_default();
            // pid (comm) state ... utime(14) stime(15)
            if let (Some(a), Some(b)) = (stat.find('('), stat.rfind(')')) {
                let comm = &stat[a + 1..b];
                let rest: Vec<&str> = stat[b + 1..].split_whitespace().collect();
                let state = rest.first().cloned().unwrap_or("?");
                let ut: u64 = rest.get(11).and_then(|x| x.parse().ok()).unwrap_or(0);
                let st: u64 = rest.get(12).and_then(|x| x.parse().ok()).unwrap_or(0);
                cpu += ut + st;
                let wchan = std::fs::read_to_string(p.join("wchan")).unwrap_or_default();
                threads.push(format!("{}:{}:{}", comm, state, wchan.trim()));
            }
        }
    }
    threads.sort();
    (cpu, threads)
}

struct ChildOutcome {
    /// nested lock acquisitions logged by the optional hook (fixes/hook-locklog.patch); empty without it
    lock_edges: Vec<(u8, u64, u8, u64)>,
    /// at timeout: CPU ticks (1/100 s) consumed during the last second before the kill, thread states
    cpu_last_s: u64,
    thread_states: Vec<String>,
    status: String, // "exit:0" | "exit:N" | "signal:N" | "timeout"
    stdout: String,
    stderr: String,
    wall_ms: u64,
}

/// At watchdog expiry: nobody runnable, nobody exiting, and either no CPU time at all in the last
/// second or only a receiver polling with `nap` (nanosleep) next to threads blocked on a futex.
fn is_asleep(o: &ChildOutcome) -> bool {
    let ts = &o.thread_states;
    if ts.is_empty() || ts.iter().any(|t| t.contains(":R:") || t.contains(":Z:") || t.contains(":X:")) {
        return false;
    }
    let napping = ts.iter().filter(|t| t.contains("nanosleep")).count();
    let futex = ts.iter().filter(|t| t.contains("futex")).count();
    o.cpu_last_s <= 2 || (napping > 0 && futex >= 2 && napping + futex == ts.len() && o.cpu_last_s <= 30)
}

fn run_child(mode: &str, file: &std::path::Path, timeout: Duration) -> ChildOutcome {
    use std::os::unix::process::ExitStatusExt;
    use std::process::{Command, Stdio};
    let t0 = Instant::now();
    let base = file.with_extension("");
    let out_path = base.with_extension(format!("{}.stdout", mode));
    let err_path = base.with_extension(format!("{}.stderr", mode));
    let edges_path = base.with_extension(format!("{}.edges", mode));
    let _ = std::fs::remove_file(&edges_path);
    let mut tries = 0;
    let mut ch = loop {
        let r = Command::new(std::env::current_exe().expect("current_exe"))
            .arg(mode)
            .arg(file)
            .stdin(Stdio::null())
            .stdout(std::fs::File::create(&out_path).expect("stdout file"))
            .stderr(std::fs::File::create(&err_path).expect("stderr file"))
            .env("RUST_BACKTRACE", "0")
            .env("GLUON_VERIF_LOCK_EDGES", &edges_path)
            .spawn();
        match r {
            Ok(c) => break c,
            Err(e) => {
                // EAGAIN under load (other builders): wait and retry; this is the harness, not gluon
                tries += 1;
                if tries > 50 {
                    panic!("cannot spawn child process: {}", e);
                }
                std::thread::sleep(Duration::from_millis(200));
            }
        }
    };
    let status;
    let mut cpu_last_s = 0;
    let mut thread_states = vec![];
    loop {
        match ch.try_wait().expect("try_wait") {
            Some(st) => {
                status = match (st.code(), st.signal()) {
                    (Some(c), _) => format!("exit:{}", c),
                    (None, Some(s)) => format!("signal:{}", s),
                    _ => "exit:?".into(),
                };
                break;
            }
            None => {
                if t0.elapsed() > timeout {
                    let (c0, _) = proc_sample(ch.id());
                    std::thread::sleep(Duration::from_millis(1000));
                    let (c1, ts) = proc_sample(ch.id());
                    // the process may have ended while it was being sampled (it then shows up as a
                    // zombie): that is a normal termination, not a timeout
                    if let Ok(Some(st)) = ch.try_wait() {
                        status = match (st.code(), st.signal()) {
                            (Some(c), _) => format!("exit:{}", c),
                            (None, Some(s)) => format!("signal:{}", s),
                            _ => "exit:?".into(),
                        };
                        break;
                    }
                    cpu_last_s = c1.saturating_sub(c0);
                    thread_states = ts;
                    let _ = ch.kill();
                    let _ = ch.wait();
                    status = "timeout".into();
                    break;
                }
                std::thread::sleep(Duration::from_millis(5));
            }
        }
    }
    let rd = |p: &std::path::Path| {
        let mut s = String::new();
        if let Ok(mut f) = std::fs::File::open(p) {
            let _ = f.read_to_string(&mut s);
        }
        s
    };
    let lock_edges: Vec<(u8, u64, u8, u64)> = rd(&edges_path)
        .lines()
        .filter_map(|l| {
            let w: Vec<&str> = l.split_whitespace().collect();
            if w.len() == 4 { Some((w[0].parse().ok()?, w[1].parse().ok()?, w[2].parse().ok()?, w[3].parse().ok()?)) } else { None }
        })
        .collect();
    let _ = std::fs::remove_file(&edges_path);
    let o = ChildOutcome { lock_edges, cpu_last_s, thread_states, status, stdout: rd(&out_path), stderr: rd(&err_path), wall_ms: t0.elapsed().as_millis() as u64 };
    let _ = std::fs::remove_file(&out_path);
    let _ = std::fs::remove_file(&err_path);
    o
}

fn expected_line(sc: &Scenario) -> String {
    let mut parts = vec!["exit:0".to_string()];
    if !sc.family.is_empty() {
        for _ in &sc.threads {
            parts.push("=solo".into());
        }
        parts.push("ticks<=1".into());
        parts.push("events=0".into());
        return parts.join(" | ");
    }
    for t in &sc.threads {
        let solo = &sc.world.solo[t.unit];
        let r = match t.role.as_str() {
            "recv" => &solo[1],
            _ => &solo[0],
        };
        parts.push(r.clone());
    }
    if sc.root == "run" && sc.root_unit >= 0 {
        parts.push(format!("root={}", sc.world.solo[sc.root_unit as usize][0]));
    }
    parts.push("ticks<=1".into());
    parts.push("events=0".into());
    parts.join(" | ")
}

struct Judged {
    line: String,
    failures: Vec<serde_json::Value>,
    report: Option<ChildReport>,
}

fn judge(sc: &Scenario, o: &ChildOutcome, watchdog_s: u64) -> Judged {
    let mut failures = vec![];
    let mut parts = vec![];
    let rep: Option<ChildReport> = o.stdout.lines().find_map(|l| l.strip_prefix("REPORT ").and_then(|j| serde_json::from_str(j).ok()));
    let done: Vec<&str> = o.stdout.lines().filter(|l| l.starts_with("DONE ")).collect();
    let stderr_tail: String = o.stderr.lines().rev().take(12).collect::<Vec<_>>().into_iter().rev().collect::<Vec<_>>().join("\n");
    if o.status == "timeout" {
        parts.push("timeout".to_string());
        let finished: Vec<String> = done.iter().map(|l| l.split(' ').nth(1).unwrap_or("?").to_string()).collect();
        // asleep = no thread runnable and (almost) no CPU consumed in the last second: a deadlock;
        // otherwise the process was still computing (livelock / runaway / too slow): reported apart
        let asleep = is_asleep(o);
        let kind = if asleep { "deadlock" } else { "no-termination-busy" };
        failures.push(serde_json::json!({
            "key": format!("{}:{}", kind, sc.class),
            "what": format!("scenario did not finish within the {} s watchdog (N={}, class {}, stride {}); threads that finished: [{}] of {}; in the last second the process used {} CPU ticks; {}", watchdog_s, sc.n, sc.class, sc.stride, finished.join(","), sc.threads.len(), o.cpu_last_s,
                if asleep { "every OS thread was asleep (blocked)" } else { "it was still running" }),
            "expected": "all threads finish", "observed": format!("timeout; finished {:?}; threads {:?}; stderr: {}", finished, o.thread_states, stderr_tail),
        }));
    } else if o.status != "exit:0" || rep.is_none() {
        parts.push(o.status.clone());
        let setup = o.stdout.lines().find(|l| l.starts_with("SETUP-ERROR")).unwrap_or("");
        let panics: Vec<&str> = o.stderr.lines().filter(|l| l.contains("panicked at") || l.starts_with("called `") || l.contains("Please report an issue")).take(4).collect();
        failures.push(serde_json::json!({
            "key": "crash",
            "what": format!("scenario process ended with {} (N={}, class {}, stride {}): {} {}", o.status, sc.n, sc.class, sc.stride, setup, panics.join(" / ")),
            "expected": "exit:0", "observed": format!("{}; stderr: {}", o.status, stderr_tail),
        }));
    } else {
        parts.push("exit:0".to_string());
    }
    if let Some(rep) = &rep {
        for (i, t) in sc.threads.iter().enumerate() {
            let fam_want = String::from("=solo");
            let want = if !sc.family.is_empty() {
                &fam_want
            } else {
                let solo = &sc.world.solo[t.unit];
                if t.role == "recv" { &solo[1] } else { &solo[0] }
            };
            let got = rep.results.get(i).cloned().unwrap_or_else(|| "<missing>".into());
            parts.push(got.clone());
            if &got != want {
                let key = if got.contains("PANIC") { "crash" } else { "result-differs-from-solo" };
                failures.push(serde_json::json!({
                    "key": key,
                    "what": format!("thread {} ({} of unit {}) obtained `{}` in parallel but `{}` alone (N={}, class {}, stride {})", i, t.role, t.unit, got, want, sc.n, sc.class, sc.stride),
                    "expected": want, "observed": got, "thread": i,
                }));
            }
        }
        if sc.root == "run" && sc.root_unit >= 0 {
            let want = &sc.world.solo[sc.root_unit as usize][0];
            parts.push(format!("root={}", rep.root_result));
            if &rep.root_result != want {
                let key = if rep.root_result.starts_with("PANIC") { "crash" } else { "result-differs-from-solo" };
                failures.push(serde_json::json!({
                    "key": key,
                    "what": format!("the root thread obtained `{}` in parallel but `{}` alone (N={}, class {})", rep.root_result, want, sc.n, sc.class),
                    "expected": want, "observed": rep.root_result, "thread": "root",
                }));
            }
        }
        let twice: Vec<String> = rep.ticks.iter().filter(|(_, v)| **v > 1).map(|(k, v)| format!("{}x{}", k, v)).collect();
        if twice.is_empty() {
            parts.push("ticks<=1".into());
        } else {
            parts.push(format!("ticks {}", twice.join(",")));
            failures.push(serde_json::json!({
                "key": "module-evaluated-twice",
                "what": format!("module bodies evaluated more than once in one VM: {} (N={}, class {})", twice.join(", "), sc.n, sc.class),
                "expected": "every counter <= 1", "observed": twice.join(","),
            }));
        }
        parts.push(format!("events={}", rep.events.len()));
        if !rep.events.is_empty() {
            failures.push(serde_json::json!({
                "key": "crash",
                "what": format!("a collection reached a freed (quarantined) object during the parallel run: {} (N={}, class {}, stride {})", rep.events[0], sc.n, sc.class, sc.stride),
                "expected": "no dangling object reached", "observed": rep.events.iter().take(5).cloned().collect::<Vec<_>>().join("; "),
            }));
        }
    }
    Judged { line: parts.join(" | "), failures, report: rep }
}

/// The scenario as an input of the extracted Once model: one to-do list per requester (the
/// thread's c14.m* imports, transitively, dependencies first; model module id = index + 1), fair
/// rounds long enough for everybody to complete (once_progress).  Returns (command, module ids).
fn once_command(sc: &Scenario) -> (String, Vec<usize>) {
    let direct = |src: &str| -> Vec<usize> {
        let mut v = vec![];
        for l in src.lines() {
            if let Some(p) = l.find("import! c14.m") {
                if let Ok(k) = l[p + 13..].chars().take_while(|c| c.is_ascii_digit()).collect::<String>().parse::<usize>() {
                    if !v.contains(&k) {
                        v.push(k);
                    }
                }
            }
        }
        v
    };
    let deps: Vec<Vec<usize>> = sc.world.modules.iter().map(|m| direct(&m.1)).collect();
    fn visit(k: usize, deps: &Vec<Vec<usize>>, out: &mut Vec<usize>) {
        if out.contains(&k) {
            return;
        }
        for d in &deps[k] {
            visit(*d, deps, out);
        }
        out.push(k);
    }
    let closure = |src: &str| -> Vec<usize> {
        let mut out = vec![];
        for k in direct(src) {
            visit(k, &deps, &mut out);
        }
        out
    };
    let mut lists: Vec<Vec<usize>> = vec![];
    if sc.preload == "all" {
        let mut all = vec![];
        for t in &sc.threads {
            let u = &sc.world.units[t.unit];
            for k in closure(if t.role == "recv" { &u.recv_src } else { &u.src }) {
                if !all.contains(&k) {
                    all.push(k);
                }
            }
        }
        lists.push(all);
    }
    for t in &sc.threads {
        let u = &sc.world.units[t.unit];
        lists.push(closure(if t.role == "recv" { &u.recv_src } else { &u.src }));
    }
    if sc.root == "run" && sc.root_unit >= 0 {
        lists.push(closure(&sc.world.units[sc.root_unit as usize].src));
    }
    let n = lists.len();
    let mut mods: Vec<usize> = lists.iter().flatten().map(|k| k + 1).collect();
    mods.sort();
    mods.dedup();
    let work: usize = lists.iter().map(|l| l.iter().map(|k| k + 1 + 2).sum::<usize>()).sum::<usize>() + 1;
    let mut sched = String::new();
    for _ in 0..work {
        for r in 0..n {
            sched.push_str(&r.to_string());
            sched.push(' ');
        }
    }
    let ls: Vec<String> = lists.iter().map(|l| l.iter().map(|k| (k + 1).to_string()).collect::<Vec<_>>().join(" ")).collect();
    (format!("once {} | {}", ls.join(" ; "), sched.trim_end()), mods)
}

fn scenario_text(sc: &Scenario) -> String {
    let ts: Vec<String> = sc
        .threads
        .iter()
        .map(|t| format!("{}{}:u{}{}", t.role, if t.chan >= 0 { format!("#{}", t.chan) } else { String::new() }, t.unit, if t.parent >= 0 { format!("^{}", t.parent) } else { String::new() }))
        .collect();
    format!(
        "scenario {} seed={} class={} N={} stride={} warm={} preload={} jitter={} root={} world={} family={} rounds={} width={} threads=[{}]",
        sc.id, sc.seed, sc.class, sc.n, sc.stride, sc.warm, sc.preload, sc.jitter, sc.root, sc.world.id,
        if sc.family.is_empty() { "-" } else { &sc.family }, sc.rounds, sc.width, ts.join(" ")
    )
}

fn main() {
    let argv: Vec<String> = std::env::args().collect();
    if argv.len() >= 3 && argv[1] == "child" {
        return child_main(&argv[2]);
    }
    if argv.len() >= 3 && argv[1] == "solo" {
        return solo_main(&argv[2]);
    }
    let args = Args::parse();
    let watchdog_s: u64 = args.extra.get("watchdog").and_then(|s| s.parse().ok()).unwrap_or(20);
    let work = args.out.join("work");
    std::fs::create_dir_all(&work).ok();

    if let Some(path) = &args.replay {
        let v: serde_json::Value = serde_json::from_str(&std::fs::read_to_string(path).expect("replay file")).expect("json");
        let sc: Scenario = serde_json::from_value(v["case"]["scenario"].clone()).expect("case.scenario");
        let reps: usize = args.extra.get("reps").and_then(|s| s.parse().ok()).unwrap_or(10);
        println!("{}", scenario_text(&sc));
        println!("expected: {}", expected_line(&sc));
        let f = work.join("replay.json");
        std::fs::write(&f, serde_json::to_string(&sc).unwrap()).unwrap();
        let mut bad = 0;
        for k in 0..reps {
            let o = run_child("child", &f, Duration::from_secs(watchdog_s));
            let j = judge(&sc, &o, watchdog_s);
            if !j.failures.is_empty() {
                bad += 1;
            }
            println!("run {}: {} ({} ms){}", k, j.line, o.wall_ms, if j.failures.is_empty() { "" } else { "   <-- FAILS" });
            for fl in j.failures.iter().take(3) {
                println!("    {}: {}", fl["key"].as_str().unwrap_or(""), fl["what"].as_str().unwrap_or(""));
            }
        }
        println!("failing runs: {}/{}", bad, reps);
        return;
    }

    let thorough = args.thorough();
    let n_worlds: usize = args.extra.get("worlds").and_then(|s| s.parse().ok()).unwrap_or(if thorough { 24 } else { 3 });
    let n_scen: usize = args.extra.get("scenarios").and_then(|s| s.parse().ok()).unwrap_or(if thorough { 1040 } else { 40 });
    let par: usize = args.extra.get("par").and_then(|s| s.parse().ok()).unwrap_or(if thorough { 8 } else { 5 });
    let mut rng = Rng::new(args.seed);

    // ---- worlds and their solo results (each world in its own process, run in parallel)
    let mut worlds: Vec<World> = (0..n_worlds).map(|i| gen_world(i, &mut rng, 8, 3)).collect();
    // corpus: stored scenarios (replay format), run first; their worlds get fresh solo results
    let mut corpus: Vec<Scenario> = vec![];
    if let Some(dir) = args.extra.get("corpus") {
        let mut files: Vec<_> = std::fs::read_dir(dir).map(|rd| rd.flatten().map(|e| e.path()).collect()).unwrap_or_else(|_| vec![]);
        files.sort();
        let reps: usize = args.extra.get("corpus_reps").and_then(|s| s.parse().ok()).unwrap_or(if thorough { 3 } else { 1 });
        for f in files.iter().filter(|f| f.extension().map(|e| e == "json").unwrap_or(false)) {
            let v: serde_json::Value = serde_json::from_str(&std::fs::read_to_string(f).expect("corpus file")).expect("corpus json");
            let mut sc: Scenario = serde_json::from_value(v["case"]["scenario"].clone()).expect("corpus case.scenario");
            sc.world.id = worlds.len();
            sc.world.solo = vec![];
            worlds.push(sc.world.clone());
            for _ in 0..reps {
                corpus.push(sc.clone());
            }
        }
    }
    let n_generated_worlds = n_worlds;
    let t_solo = Instant::now();
    {
        let files: Vec<std::path::PathBuf> = worlds
            .iter()
            .map(|w| {
                let f = work.join(format!("world{}.json", w.id));
                std::fs::write(&f, serde_json::to_string(w).unwrap()).unwrap();
                f
            })
            .collect();
        let results: Vec<ChildOutcome> = std::thread::scope(|s| {
            let mut out = vec![];
            for chunk in files.chunks(12) {
                let hs: Vec<_> = chunk.iter().map(|f| s.spawn(move || run_child("solo", f, Duration::from_secs(600)))).collect();
                for h in hs {
                    out.push(h.join().unwrap());
                }
            }
            out
        });
        for (w, o) in worlds.iter_mut().zip(results.iter()) {
            let v: Option<serde_json::Value> = o.stdout.lines().find_map(|l| l.strip_prefix("SOLO ").and_then(|j| serde_json::from_str(j).ok()));
            match v {
                Some(v) if o.status == "exit:0" => {
                    w.solo = serde_json::from_value(v["solo"].clone()).expect("solo");
                    let bad: Vec<String> = serde_json::from_value(v["bad_ticks"].clone()).unwrap_or_default();
                    if !bad.is_empty() {
                        eprintln!("c14: solo run of world {} evaluated a module twice: {:?}", w.id, bad);
                        std::process::exit(3);
                    }
                }
                _ => {
                    eprintln!("c14: solo run of world {} failed: {} {}", w.id, o.status, o.stderr.lines().last().unwrap_or(""));
                    std::process::exit(3);
                }
            }
        }
    }
    let solo_ms = t_solo.elapsed().as_millis() as u64;
    // a solo result that is not `ok n` means the generator produced a bad program: refuse to go on
    for w in &worlds {
        for (ui, s) in w.solo.iter().enumerate() {
            for r in s {
                if !r.starts_with("ok ") || r == "ok -1" {
                    eprintln!("c14: generator produced a program whose SOLO run is `{}` (world {} unit {}):\n{}", r, w.id, ui, w.units[ui].src);
                    std::process::exit(3);
                }
            }
        }
    }

    // ---- scenarios
    let ns = [2usize, 4, 8, 16];
    let mut scenarios: Vec<Scenario> = vec![];
    for mut sc in corpus {
        sc.id = scenarios.len();
        sc.world = worlds[sc.world.id].clone();
        sc.class = format!("{}", sc.class);
        scenarios.push(sc);
    }
    let n_corpus = scenarios.len();
    let n_fam: usize = args.extra.get("families").and_then(|s| s.parse().ok()).unwrap_or(if thorough { 40 } else { 2 });
    for k in 0..2 * n_fam {
        let id = scenarios.len();
        scenarios.push(gen_family(id, &mut rng, if k % 2 == 0 { "fresh-names" } else { "collector" }, thorough));
    }
    for i in 0..n_scen {
        let w = &worlds[i % n_generated_worlds];
        let n = ns[(i / n_generated_worlds) % 4];
        let id = scenarios.len();
        scenarios.push(gen_scenario(id, &mut rng, w, n));
    }
    let t_run = Instant::now();
    let next = Arc::new(AtomicU64::new(0));
    let outcomes: Arc<Mutex<BTreeMap<usize, ChildOutcome>>> = Arc::new(Mutex::new(BTreeMap::new()));
    std::thread::scope(|s| {
        for _ in 0..par {
            let next = next.clone();
            let outcomes = outcomes.clone();
            let scenarios = &scenarios;
            let work = &work;
            s.spawn(move || {
                loop {
                    let i = next.fetch_add(1, Ordering::SeqCst) as usize;
                    if i >= scenarios.len() {
                        break;
                    }
                    let f = work.join(format!("sc{}.json", i));
                    std::fs::write(&f, serde_json::to_string(&scenarios[i]).unwrap()).unwrap();
                    let o = run_child("child", &f, Duration::from_secs(watchdog_s));
                    let _ = std::fs::remove_file(&f);
                    outcomes.lock().unwrap().insert(i, o);
                }
            });
        }
    });
    // A watchdog expiry while the process was still computing may be plain slowness of a loaded
    // machine (other builders): such scenarios are re-run once, alone, with six times the
    // watchdog, and the second outcome is the one that is judged.  (A sleeping process is a
    // deadlock whatever the load and is not re-run.)
    let mut reruns = 0u64;
    {
        let mut oc = outcomes.lock().unwrap();
        for sc in &scenarios {
            let busy = {
                let o = &oc[&sc.id];
                o.status == "timeout" && !is_asleep(o)
            };
            if busy {
                reruns += 1;
                let f = work.join(format!("sc{}-rerun.json", sc.id));
                std::fs::write(&f, serde_json::to_string(sc).unwrap()).unwrap();
                let o = run_child("child", &f, Duration::from_secs(6 * watchdog_s));
                let _ = std::fs::remove_file(&f);
                oc.insert(sc.id, o);
            }
        }
    }
    let run_ms = t_run.elapsed().as_millis() as u64;

    // ---- judge and write
    let mut once_in = args.file("once_in.txt");
    let mut impl_once = args.file("impl_once.txt");
    let mut lock_edges_out = vec![];
    let mut model_in = args.file("model_in.txt");
    let mut impl_out = args.file("impl_out.txt");
    let mut cases = args.file("cases.txt");
    let mut hist = Hist::default();
    let mut failures = vec![];
    let mut distinct = std::collections::HashSet::new();
    let mut forced = 0u64;
    let mut rootc = 0u64;
    let mut modules_evaluated = 0u64;
    let mut max_wall = 0u64;
    let outcomes = outcomes.lock().unwrap();
    for sc in &scenarios {
        let o = &outcomes[&sc.id];
        let j = judge(sc, o, watchdog_s);
        writeln!(model_in, "{}", expected_line(sc)).unwrap();
        writeln!(impl_out, "{}", j.line).unwrap();
        writeln!(cases, "{}", scenario_text(sc)).unwrap();
        hist.add(&format!("N:{}", sc.n));
        hist.add(&format!("class:{}", sc.class));
        hist.add(&format!("stride:{}", sc.stride));
        hist.add(&format!("status:{}", o.status));
        hist.addn("threads", sc.threads.len() as u64);
        max_wall = max_wall.max(o.wall_ms);
        if !o.lock_edges.is_empty() {
            lock_edges_out.push(serde_json::json!({ "scenario_id": sc.id, "scenario": sc, "edges": o.lock_edges }));
        }
        if let Some(rep) = &j.report {
            if sc.family.is_empty() && o.status == "exit:0" && rep.results.iter().all(|r| r.starts_with("ok ")) && (sc.root != "run" || rep.root_result.starts_with("ok ")) {
                let (cmd, mods) = once_command(sc);
                writeln!(once_in, "{}", cmd).unwrap();
                let ev: Vec<String> = mods.iter().map(|m| format!("{}:{}", m, rep.ticks.get(&format!("m{}", m - 1)).cloned().unwrap_or(0))).collect();
                writeln!(impl_once, "evals={} complete=true", ev.join(",")).unwrap();
            }
            forced += rep.forced_collections as u64;
            rootc += rep.root_collections;
            modules_evaluated += rep.ticks.len() as u64;
        }
        distinct.insert(fnv(scenario_text(sc).as_bytes()));
        for mut f in j.failures {
            f["scenario_id"] = serde_json::json!(sc.id);
            f["scenario_text"] = serde_json::json!(scenario_text(sc));
            f["scenario"] = serde_json::to_value(sc).unwrap();
            f["wall_ms"] = serde_json::json!(o.wall_ms);
            failures.push(f);
        }
    }
    model_in.flush().unwrap();
    impl_out.flush().unwrap();
    cases.flush().unwrap();
    once_in.flush().unwrap();
    impl_once.flush().unwrap();
    gvh::out::write_json(&args.out.join("lock_edges.json"), &serde_json::Value::Array(lock_edges_out));
    gvh::out::write_json(&args.out.join("failures.json"), &serde_json::Value::Array(failures));
    gvh::out::write_json(
        &args.out.join("stats.json"),
        &serde_json::json!({
            "evaluations": scenarios.len(),
            "distinct_nontrivial": distinct.len(),
            "rule": "one evaluation = one concurrent scenario in its own process (N OS threads on sibling/nested Gluon threads of one VM, watchdog); every scenario has >= 2 threads, imports of c14.m* and allocation work, so all are non-trivial; distinct by (seed, class, N, stride, thread/unit assignment)",
            "worlds": worlds.len(),
            "corpus_scenarios": n_corpus,
            "solo_units": worlds.iter().map(|w| w.units.len()).sum::<usize>(),
            "program_runs": hist.0.get("threads").cloned().unwrap_or(0),
            "forced_collections": forced,
            "root_collections": rootc,
            "module_bodies_evaluated": modules_evaluated,
            "solo_ms": solo_ms,
            "run_ms": run_ms,
            "max_scenario_wall_ms": max_wall,
            "watchdog_s": watchdog_s,
            "reruns_after_busy_timeout": reruns,
            "hist": hist.to_json(),
        }),
    );
}
