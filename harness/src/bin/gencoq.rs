//! `gencoq OUTDIR [item...]`: regenerate coq/gen/*.v from /repo.  Prints one line per item:
//!   `ok <item> changed|same` or `fail <item> <message>`; exit 1 if any failed.
use gvh::tr::*;
use std::path::Path;

fn main() {
    let args: Vec<String> = std::env::args().skip(1).collect();
    let outdir = Path::new(args.get(0).expect("usage: gencoq OUTDIR [item...]"));
    std::fs::create_dir_all(outdir).unwrap();
    let want: Vec<&String> = args.iter().skip(1).collect();
    let items: Vec<(&str, fn() -> GenResult)> = vec![("OpTableGen", optable::generate), ("LayoutTablesGen", layout_tables::generate), ("GenerationGen", generation::generate), ("ClonerGen", cloner::generate), ("InstrGen", instr::generate), ("InstrCodecGen", instr_codec::generate), ("AllocGen", alloc::generate), ("SpanGen", span::generate), ("PrecGen", prec::generate), ("MapGen", glu_std::generate_map), ("ListGen", glu_std::generate_list), ("PrimTableGen", primtable::generate), ("StackResetGen", stackreset::generate)];
    let mut failed = false;
    for (name, f) in items {
        if !want.is_empty() && !want.iter().any(|w| w.as_str() == name) {
            continue;
        }
        match f() {
            Ok(text) => {
                let changed = write_if_changed(&outdir.join(format!("{}.v", name)), &text);
                println!("ok {} {}", name, if changed { "changed" } else { "same" });
            }
            Err(e) => {
                failed = true;
                println!("fail {} {}", e.item, e.msg.replace('\n', " "));
            }
        }
    }
    if failed {
        std::process::exit(1);
    }
}
