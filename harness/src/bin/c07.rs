//! C07 — resource limits and constant-stack tail calls.
//!
//! Sections (all write into --out):
//!  V  bytecode: every function of every module compiled here (all of /repo/std + generated
//!     programs) is dumped as a `fn` line for the extracted `verify_fn` (coq/extract/c07).  The
//!     expected reply is `fn <id> ok`.  Split annotations: constructor patterns from the core IR
//!     the compiler was given (CompileValue.core_expr), record patterns from the closing Slide.
//!  A  accounting: random alloc / drop-root / collect sequences on a real standalone
//!     `gluon_vm::gc::Gc`, same sequences through the extracted Account model (`acct` lines).
//!  C  runtime: generated recursion-/allocation-heavy programs under a sweep of stack and memory
//!     limits; outcome must be the generator's closed form or exactly StackOverflow/OutOfMemory;
//!     `allocated_memory() <= limit` sampled after every evaluation; tail loops of 10^6
//!     iterations under a 64-slot stack; deep non-tail recursion in a child process; interrupts.
//!     Results: runtime.jsonl (one record per failed observation) + stats.json.
use gluon::compiler_pipeline::Compileable;
use gluon::vm::thread::ThreadInternal;
use gluon::{RootedThread, ThreadExt};
use gluon_vm::compiler::CompiledFunction;
use gluon_vm::core::{Expr, Named, Pattern};
use gluon_vm::gc::{CollectScope, DataDef, Gc, GcPtr, Generation, Trace, WriteOnly};
use gluon_vm::types::Instruction;
use gvh::out::{fnv, Args, Hist};
use gvh::rng::Rng;
use std::collections::{BTreeMap, HashMap, HashSet};
use std::io::Write;
use std::panic::{catch_unwind, AssertUnwindSafe};
use std::time::{Duration, Instant};

// ------------------------------------------------------------------------------------------
// V: bytecode dump
// ------------------------------------------------------------------------------------------

#[derive(Default, Debug)]
struct FnInfo {
    /// arities of the constructor patterns, in the order the compiler emits their Split
    ctor_arity: Vec<usize>,
    inner: Vec<FnInfo>,
}

/// Mirrors the traversal order of vm/src/compiler.rs `compile_` (:652): scrutinee, then per
/// alternative [Split] body; lambdas of a recursive group become inner functions in order.
fn walk(mut e: &Expr, f: &mut FnInfo) {
    loop {
        match e {
            Expr::Const(..) | Expr::Ident(..) => return,
            Expr::Call(func, args) => {
                walk(func, f);
                for a in args.iter() {
                    walk(a, f);
                }
                return;
            }
            Expr::Data(_, exprs, _) => {
                for a in exprs.iter() {
                    walk(a, f);
                }
                return;
            }
            Expr::Let(lb, body) => {
                match &lb.expr {
                    Named::Expr(b) => walk(b, f),
                    Named::Recursive(cs) => {
                        for c in cs.iter() {
                            if c.args.is_empty() {
                                walk(c.expr, f);
                            } else {
                                let mut g = FnInfo::default();
                                walk(c.expr, &mut g);
                                f.inner.push(g);
                            }
                        }
                    }
                }
                e = body;
            }
            Expr::Match(scrut, alts) => {
                walk(scrut, f);
                for alt in alts.iter() {
                    if let Pattern::Constructor(_, args) = &alt.pattern {
                        f.ctor_arity.push(args.len());
                    }
                    walk(alt.expr, f);
                }
                return;
            }
            Expr::Cast(inner, _) => e = inner,
        }
    }
}

fn instr_tok(i: &Instruction, split_ann: Option<usize>) -> String {
    match i {
        Instruction::Split => format!("Split:{}", split_ann.unwrap_or(0)),
        Instruction::PushFloat(f) => format!("PushFloat:{}", f64::from(*f).to_bits()),
        _ => {
            // Debug rendering: `Name`, `Name(5)`, `Name { a: 1, b: 2 }` — fields in declaration order
            let d = format!("{:?}", i);
            let name: String = d.chars().take_while(|c| c.is_alphanumeric()).collect();
            let mut nums = vec![];
            let mut cur = String::new();
            let rest = &d[name.len()..];
            for ch in rest.chars() {
                if ch.is_ascii_digit() || (ch == '-' && cur.is_empty()) {
                    cur.push(ch);
                } else {
                    if !cur.is_empty() && cur != "-" {
                        nums.push(cur.clone());
                    }
                    cur.clear();
                }
            }
            if !cur.is_empty() && cur != "-" {
                nums.push(cur);
            }
            let mut s = name;
            for n in nums {
                s.push(':');
                s.push_str(&n);
            }
            s
        }
    }
}

/// height = c + sum of the still unknown record-Split arities in `u`
#[derive(Clone, Debug, PartialEq)]
struct Lin {
    c: i64,
    u: Vec<usize>,
}
impl Lin {
    fn conc(c: i64) -> Lin {
        Lin { c, u: vec![] }
    }
    fn add(&self, d: i64) -> Lin {
        Lin { c: self.c + d, u: self.u.clone() }
    }
    fn norm(&self, sol: &HashMap<usize, i64>) -> Lin {
        let mut c = self.c;
        let mut u = vec![];
        for j in &self.u {
            match sol.get(j) {
                Some(v) => c += v,
                None => u.push(*j),
            }
        }
        u.sort();
        Lin { c, u }
    }
}

/// Annotate every Split of `f`: Ok(per-pc annotation) or Err(reason).
fn split_annotations(f: &CompiledFunction, info: &FnInfo) -> Result<Vec<Option<usize>>, String> {
    let code = &f.instructions;
    let n = code.len();
    let mut cjump_targets = HashSet::new();
    for i in code.iter() {
        if let Instruction::CJump(t) = i {
            cjump_targets.insert(*t as usize);
        }
    }
    let mut ann: Vec<Option<usize>> = vec![None; n];
    // constructor Splits: in pc order <-> core IR order
    let ctor_pcs: Vec<usize> = (0..n).filter(|pc| matches!(code[*pc], Instruction::Split) && cjump_targets.contains(pc)).collect();
    if ctor_pcs.len() != info.ctor_arity.len() {
        return Err(format!(
            "constructor Splits in bytecode: {}, constructor alternatives in core IR: {}",
            ctor_pcs.len(),
            info.ctor_arity.len()
        ));
    }
    for (pc, k) in ctor_pcs.iter().zip(info.ctor_arity.iter()) {
        ann[*pc] = Some(*k);
    }
    // record Splits: k = operand of the closing Slide (k >= 1, so it is always emitted): the first
    // Slide met with exactly one value (plus the dead slots left by CloseData) above the fields.
    let mut sol: HashMap<usize, i64> = HashMap::new();
    let mut pending: BTreeMap<usize, Lin> = BTreeMap::new();
    let mut cur: Option<Lin> = Some(Lin::conc(f.args as i64));
    let mut open: Vec<(usize, Lin, i64)> = vec![]; // (split pc, height of the first field slot, CloseData seen since)
    let mut data_slots: Vec<(Lin, i64, bool)> = vec![]; // (slot as a height expression, field count, closed)
    let mut flow = |pending: &mut BTreeMap<usize, Lin>, sol: &mut HashMap<usize, i64>, t: usize, h: Lin| {
        match pending.get(&t) {
            None => {
                pending.insert(t, h);
            }
            Some(p) => {
                let a = p.norm(sol);
                let b = h.norm(sol);
                // one unknown on one side only: solve it
                if a.u.len() == b.u.len() + 1 {
                    let extra: Vec<usize> = a.u.iter().filter(|j| !b.u.contains(j)).cloned().collect();
                    if extra.len() == 1 && b.c - a.c >= 0 {
                        sol.insert(extra[0], b.c - a.c);
                    }
                } else if b.u.len() == a.u.len() + 1 {
                    let extra: Vec<usize> = b.u.iter().filter(|j| !a.u.contains(j)).cloned().collect();
                    if extra.len() == 1 && a.c - b.c >= 0 {
                        sol.insert(extra[0], a.c - b.c);
                    }
                }
            }
        }
    };
    for pc in 0..n {
        if let Some(p) = pending.get(&pc).cloned() {
            match &cur {
                Some(c) => {
                    let c = c.clone();
                    flow(&mut pending, &mut sol, pc, c);
                }
                None => cur = Some(p),
            }
        }
        let h = match &cur {
            Some(h) => h.norm(&sol),
            None => continue,
        };
        let adj = code[pc].adjust() as i64;
        match code[pc] {
            Instruction::Split => match ann[pc] {
                Some(k) => cur = Some(h.add(-1 + k as i64)),
                None => {
                    let mut nh = h.add(-1);
                    open.push((pc, nh.clone(), 0));
                    nh.u.push(pc);
                    cur = Some(nh);
                }
            },
            Instruction::Slide(k) => {
                if let Some((j, base, garbage)) = open.last().cloned() {
                    let base = base.norm(&sol);
                    // every CloseData leaves one dead slot behind (compiler.rs:726): the closing
                    // Slide of the record pattern then sees 1 + garbage values above the fields
                    let mut want = base.add(1 + garbage);
                    want.u.push(j);
                    want.u.sort();
                    if !sol.contains_key(&j) && h == want {
                        sol.insert(j, k as i64);
                        open.pop();
                    } else if sol.contains_key(&j) {
                        open.pop();
                    }
                }
                cur = Some(h.add(-(k as i64)));
            }
            Instruction::Jump(t) => {
                flow(&mut pending, &mut sol, t as usize, h);
                cur = None;
            }
            Instruction::CJump(t) => {
                flow(&mut pending, &mut sol, t as usize, h.add(-1));
                cur = Some(h.add(-1));
            }
            Instruction::Return => cur = None,
            Instruction::CloseClosure(k) => cur = Some(h.add(-1 - k as i64)),
            Instruction::NewRecord { args, .. } | Instruction::NewVariant { args, .. } => {
                data_slots.push((h.clone(), args as i64, false));
                cur = Some(h.add(1));
            }
            Instruction::CloseData { index } => {
                // the slot index is concrete; the slot's height expression may still mention the
                // arity of an open record Split — then `slot == index` determines that arity
                let idx = index as i64;
                let mut m = 0;
                let mut found = false;
                for e in data_slots.iter_mut() {
                    if !e.2 && e.0.norm(&sol) == Lin::conc(idx) {
                        m = e.1;
                        e.2 = true;
                        found = true;
                        break;
                    }
                }
                if !found {
                    for e in data_slots.iter_mut() {
                        let hn = e.0.norm(&sol);
                        if !e.2 && hn.u.len() == 1 && idx - hn.c >= 1 {
                            sol.insert(hn.u[0], idx - hn.c);
                            m = e.1;
                            e.2 = true;
                            break;
                        }
                    }
                }
                for o in open.iter_mut() {
                    o.2 += 1;
                }
                cur = Some(h.add(-m));
            }
            _ => cur = Some(h.add(adj)),
        }
    }
    for pc in 0..n {
        if matches!(code[pc], Instruction::Split) && ann[pc].is_none() {
            match sol.get(&pc) {
                Some(k) if *k >= 1 => ann[pc] = Some(*k as usize),
                _ => return Err(format!("record Split at pc {}: closing Slide not found", pc)),
            }
        }
    }
    Ok(ann)
}

/// Static tail-position scan of one function: a `Call` whose continuation is only
/// `Slide`s and `Jump`s leading to `Return` does nothing with its result but return it, i.e. it is
/// in tail position and the compiler is expected to have emitted `TailCall` (compiler.rs:317
/// emit_call).  Returns (calls in tail position emitted as TailCall, pcs of plain `Call`s in tail
/// position).
fn tail_position_scan(f: &CompiledFunction) -> (usize, Vec<usize>) {
    let code = &f.instructions;
    let returns_directly = |mut q: usize| -> bool {
        for _ in 0..code.len() + 1 {
            match code.get(q) {
                Some(Instruction::Slide(_)) => q += 1,
                Some(Instruction::Jump(t)) => q = *t as usize,
                Some(Instruction::Return) => return true,
                _ => return false,
            }
        }
        false
    };
    let mut ok = 0;
    let mut bad = vec![];
    for (pc, i) in code.iter().enumerate() {
        match i {
            Instruction::TailCall(_) => ok += 1,
            Instruction::Call(_) if returns_directly(pc + 1) => bad.push(pc),
            _ => {}
        }
    }
    (ok, bad)
}

struct Dump<'a> {
    model_in: &'a mut dyn Write,
    impl_out: &'a mut dyn Write,
    cases: &'a mut dyn Write,
    hist: &'a mut Hist,
    n_fns: u64,
    n_instrs: u64,
    n_splits: u64,
    distinct: HashSet<u64>,
    annot_failures: Vec<String>,
    samples: Vec<String>,
    tail_calls: u64,
    /// `Call` in tail position: (function id, pc)
    nontail_in_tail_position: Vec<String>,
}

impl<'a> Dump<'a> {
    fn function(&mut self, id: &str, f: &CompiledFunction, info: &FnInfo, origin: &str) {
        let ann = match split_annotations(f, info) {
            Ok(a) => a,
            Err(e) => {
                self.annot_failures.push(format!("{}: {}", id, e));
                vec![None; f.instructions.len()]
            }
        };
        let toks: Vec<String> = f.instructions.iter().enumerate().map(|(pc, i)| instr_tok(i, ann[pc])).collect();
        let body = toks.join(" ");
        writeln!(self.model_in, "fn {} {} {} {}", id, f.args, f.max_stack_size, body).unwrap();
        writeln!(self.impl_out, "fn {} ok", id).unwrap();
        writeln!(self.cases, "fn {} ({}) args={} max_stack_size={} : {}", id, f.id, f.args, f.max_stack_size, body).unwrap();
        self.n_fns += 1;
        let (tc, bad) = tail_position_scan(f);
        self.tail_calls += tc as u64;
        for pc in bad {
            self.nontail_in_tail_position.push(format!("{}@{} ({:?})", id, pc, f.instructions[pc]));
        }
        self.n_instrs += f.instructions.len() as u64;
        self.n_splits += f.instructions.iter().filter(|i| matches!(i, Instruction::Split)).count() as u64;
        self.hist.add(&format!("fn-origin:{}", origin));
        let l = f.instructions.len();
        self.hist.add(&format!("fn-len:{}", if l <= 4 { "1-4" } else if l <= 16 { "5-16" } else if l <= 64 { "17-64" } else if l <= 256 { "65-256" } else { "257+" }));
        for i in f.instructions.iter() {
            let d = format!("{:?}", i);
            let name: String = d.chars().take_while(|c| c.is_alphanumeric()).collect();
            self.hist.add(&format!("instr:{}", name));
        }
        if f.instructions.len() > 2 && self.distinct.insert(fnv(format!("{} {} {}", f.args, f.max_stack_size, body).as_bytes())) {
            if self.samples.len() < 4 && f.instructions.len() > 12 && f.instructions.len() < 40 {
                self.samples.push(format!("{} args={} max={} : {}", id, f.args, f.max_stack_size, body));
            }
        }
        if f.inner_functions.len() != info.inner.len() {
            self.annot_failures.push(format!("{}: {} inner functions, {} lambdas in core IR", id, f.inner_functions.len(), info.inner.len()));
        }
        let empty = FnInfo::default();
        for (k, g) in f.inner_functions.iter().enumerate() {
            self.function(&format!("{}.{}", id, k), g, info.inner.get(k).unwrap_or(&empty), origin);
        }
    }
}

fn compile_module(vm: &RootedThread, name: &str, src: &str) -> Result<(CompiledFunction, FnInfo), String> {
    let r = catch_unwind(AssertUnwindSafe(|| {
        let mut db = vm.get_database();
        let mut compiler = vm.module_compiler(&mut db);
        futures::executor::block_on(src.compile(&mut compiler, vm, name, src, None))
    }));
    match r {
        Ok(Ok(cv)) => {
            let mut info = FnInfo::default();
            walk(cv.core_expr.value.expr(), &mut info);
            Ok((cv.module.function, info))
        }
        Ok(Err(e)) => Err(format!("{}", e).lines().take(3).collect::<Vec<_>>().join(" | ")),
        Err(_) => Err("panic while compiling".to_string()),
    }
}

fn std_sources() -> Vec<(String, String)> {
    let root = std::env::var("GLUON_REPO").unwrap_or_else(|_| "/repo".to_string());
    let mut out = vec![];
    let mut stack = vec![std::path::PathBuf::from(&root).join("std")];
    while let Some(d) = stack.pop() {
        let mut entries: Vec<_> = std::fs::read_dir(&d).map(|r| r.filter_map(|e| e.ok()).map(|e| e.path()).collect()).unwrap_or_default();
        entries.sort();
        for p in entries {
            if p.is_dir() {
                stack.push(p);
            } else if p.extension().map(|e| e == "glu").unwrap_or(false) {
                let rel = p.strip_prefix(&root).unwrap().to_string_lossy().to_string();
                if let Ok(s) = std::fs::read_to_string(&p) {
                    out.push((rel, s));
                }
            }
        }
    }
    out.sort();
    out
}

// ------------------------------------------------------------------------------------------
// generated programs (shared by V and C)
// ------------------------------------------------------------------------------------------

#[derive(Clone, Debug)]
struct Prog {
    family: &'static str,
    src: String,
    /// closed-form value
    expected: i64,
    /// runs in constant VM stack (every recursive call in tail position)
    tail: bool,
    n: i64,
}

const LIST_TY: &str = "type List a = | Nil | Cons a (List a)\n";

fn prog(family: &'static str, n: i64, c: i64) -> Prog {
    let (src, expected, tail) = match family {
        "tail-direct" => (
            format!("rec let f n acc = if n #Int== 0 then acc else f (n #Int- 1) (acc #Int+ {c})\nf {n} 0"),
            n * c,
            true,
        ),
        "nontail-direct" => (
            format!("rec let f n = if n #Int== 0 then 0 else {c} #Int+ f (n #Int- 1)\nf {n}"),
            n * c,
            false,
        ),
        "tail-mutual" => (
            format!(
                "rec\nlet ev n acc = if n #Int== 0 then acc else od (n #Int- 1) (acc #Int+ {c})\nlet od n acc = if n #Int== 0 then acc else ev (n #Int- 1) (acc #Int+ 1)\nev {n} 0"
            ),
            // ev adds c on even-remaining steps, od adds 1: n steps alternate starting with ev
            (n + 1) / 2 * c + n / 2,
            true,
        ),
        "nontail-mutual" => (
            format!(
                "rec\nlet ev n = if n #Int== 0 then 0 else {c} #Int+ od (n #Int- 1)\nlet od n = if n #Int== 0 then 0 else 1 #Int+ ev (n #Int- 1)\nev {n}"
            ),
            (n + 1) / 2 * c + n / 2,
            false,
        ),
        // continuation-passing: N closures are allocated, every call is a tail call
        "cps-closures" => (
            format!("rec let loop n k = if n #Int== 0 then k 0 else loop (n #Int- 1) (\\r -> k (r #Int+ {c}))\nloop {n} (\\r -> r)"),
            n * c,
            true,
        ),
        // the recursive call goes through a closure captured in a record
        "tail-via-record-closure" => (
            format!("rec let f n acc = if n #Int== 0 then acc else (let r = {{ go = \\m -> f m (acc #Int+ {c}) }} in r.go (n #Int- 1))\nf {n} 0"),
            n * c,
            true,
        ),
        "partial-application" => (
            format!("let add a b = a #Int+ b\nrec let f n acc = if n #Int== 0 then acc else (let g = add {c} in f (n #Int- 1) (g acc))\nf {n} 0"),
            n * c,
            true,
        ),
        // `konst` takes one argument and returns a function: calling it with two is an over-application
        "over-application" => (
            format!("let konst a = \\b -> a #Int+ b\nrec let f n acc = if n #Int== 0 then acc else f (n #Int- 1) (konst {c} acc)\nf {n} 0"),
            n * c,
            true,
        ),
        // h tail-calls g while h itself was entered with an excess argument (TailCall re-pushes it)
        "tailcall-with-excess" => (
            format!("let g a = \\b -> a #Int+ b\nlet h a = g a\nrec let f n acc = if n #Int== 0 then acc else f (n #Int- 1) (h {c} acc)\nf {n} 0"),
            n * c,
            true,
        ),
        // non-tail recursion through an over-applied function
        "nontail-over-application" => (
            format!("let pick n = if n #Int== 0 then (\\x -> x) else (\\x -> x #Int+ {c})\nrec let f n = if n #Int== 0 then 0 else pick 1 (f (n #Int- 1))\nf {n}"),
            n * c,
            false,
        ),
        "alloc-list" => (
            format!(
                "{LIST_TY}rec let build n acc = if n #Int== 0 then acc else build (n #Int- 1) (Cons {c} acc)\nrec let sum xs acc =\n    match xs with\n    | Nil -> acc\n    | Cons x rest -> sum rest (acc #Int+ x)\nsum (build {n} Nil) 0"
            ),
            n * c,
            true,
        ),
        // allocates a record per iteration that dies immediately (collector must keep up)
        "alloc-garbage-records" => (
            format!("rec let f n acc = if n #Int== 0 then acc else (let r = {{ a = n, b = {c}, c = acc }} in f (n #Int- 1) (r.c #Int+ r.b))\nf {n} 0"),
            n * c,
            true,
        ),
        "alloc-arrays" => (
            format!("rec let f n acc = if n #Int== 0 then acc else (let a = [n, {c}, acc, 4, 5, 6, 7, 8] in f (n #Int- 1) (acc #Int+ {c}))\nf {n} 0"),
            n * c,
            true,
        ),
        // non-tail list building: stack and heap grow together
        "alloc-nontail-list" => (
            format!(
                "{LIST_TY}rec let build n = if n #Int== 0 then Nil else Cons {c} (build (n #Int- 1))\nrec let len xs =\n    match xs with\n    | Nil -> 0\n    | Cons x rest -> x #Int+ len rest\nlen (build {n})"
            ),
            n * c,
            false,
        ),
        _ => unreachable!(),
    };
    Prog { family, src, expected, tail, n }
}

/// Every syntactic tail position of the language, each as a loop whose ONLY recursive call sits in
/// that position: if the compiler emits `Call` instead of `TailCall` for it, one frame per
/// iteration stays on the value stack and the loop overflows any small stack limit.
/// Boolean loops are wrapped so that every program returns an Int with a closed form.
const TAIL_SHAPES: &[&str] = &[
    "or-rhs",
    "or-rhs-mutual",
    "and-rhs",
    "and-rhs-mutual",
    "or-and-nested",
    "if-then",
    "if-else-chain",
    "if-both-branches",
    "match-constructor-alt",
    "match-literal-alts",
    "match-nested",
    "match-nested-literal-in-constructor",
    "let-body",
    "rec-let-body",
    "record-pattern-let-body",
    "block-last-expression",
    "closure-with-upvalues",
    "lambda-body",
    "partial-application-tail",
    "over-application-tail",
    "mutual-2",
    "mutual-3",
    "or-inside-match-alt",
    "and-inside-if-inside-or",
    "match-inside-or-rhs",
    "or-inside-let-body-in-closure",
];

fn tail_shape(shape: &'static str, n: i64, c: i64) -> Prog {
    const T: &str = "type T = | A | B Int\n";
    let (src, expected): (String, i64) = match shape {
        // the seeded-change demo shape: the recursive call is the right operand of `||`
        "or-rhs" => (
            format!("rec let reaches i n = i #Int== n || reaches (i #Int+ 1) n\nif reaches 0 {n} then {c} else 0"),
            c,
        ),
        "or-rhs-mutual" => (
            format!("rec\nlet ping i n = i #Int== n || pong (i #Int+ 1) n\nlet pong i n = i #Int== n || ping (i #Int+ 1) n\nif ping 0 {n} then {c} else 0"),
            c,
        ),
        "and-rhs" => (
            format!("rec let down i = 0 #Int< i && down (i #Int- 1)\nif down {n} then 0 else {c}"),
            c,
        ),
        "and-rhs-mutual" => (
            format!("rec\nlet da i = 0 #Int< i && db (i #Int- 1)\nlet db i = 0 #Int< i && da (i #Int- 1)\nif da {n} then 0 else {c}"),
            c,
        ),
        "or-and-nested" => (
            format!("rec let g i n = i #Int== n || (i #Int< n && g (i #Int+ 1) n)\nif g 0 {n} then {c} else 0"),
            c,
        ),
        "if-then" => (
            format!("rec let f n acc = if 0 #Int< n then f (n #Int- 1) (acc #Int+ {c}) else acc\nf {n} 0"),
            n * c,
        ),
        "if-else-chain" => (
            format!("rec let f n acc = if n #Int== 0 then acc else if n #Int< 0 then 0 else f (n #Int- 1) (acc #Int+ {c})\nf {n} 0"),
            n * c,
        ),
        // the call is in tail position of BOTH branches (odd and even steps take different ones)
        "if-both-branches" => (
            format!("rec let f n p acc = if n #Int== 0 then acc else if p #Int== 0 then f (n #Int- 1) 1 (acc #Int+ {c}) else f (n #Int- 1) 0 (acc #Int+ {c})\nf {n} 0 0"),
            n * c,
        ),
        "match-constructor-alt" => (
            format!("{T}rec let f t acc =\n    match t with\n    | A -> acc\n    | B k -> f (if k #Int== 0 then A else B (k #Int- 1)) (acc #Int+ {c})\nf (B {n}) 0"),
            (n + 1) * c,
        ),
        "match-literal-alts" => (
            format!("rec let f n acc =\n    match n with\n    | 0 -> acc\n    | 1 -> f 0 (acc #Int+ {c})\n    | m -> f (m #Int- 1) (acc #Int+ {c})\nf {n} 0"),
            n * c,
        ),
        "match-nested" => (
            format!("{T}rec let f t u acc =\n    match t with\n    | A -> acc\n    | B k ->\n        match u with\n        | A -> f (if k #Int== 0 then A else B (k #Int- 1)) (B 0) (acc #Int+ {c})\n        | B _ -> f (if k #Int== 0 then A else B (k #Int- 1)) A (acc #Int+ {c})\nf (B {n}) A 0"),
            (n + 1) * c,
        ),
        "match-nested-literal-in-constructor" => (
            format!("{T}rec let f t acc =\n    match t with\n    | A -> acc\n    | B k ->\n        match k with\n        | 0 -> f A (acc #Int+ {c})\n        | m -> f (B (m #Int- 1)) (acc #Int+ {c})\nf (B {n}) 0"),
            (n + 1) * c,
        ),
        "let-body" => (
            format!("rec let f n acc =\n    let m = n #Int- 1\n    let a = acc #Int+ {c}\n    if n #Int== 0 then acc else f m a\nf {n} 0"),
            n * c,
        ),
        "rec-let-body" => (
            format!("rec let f n acc =\n    rec let g x = if x #Int< 0 then g 0 else x #Int+ {c}\n    if n #Int== 0 then acc else f (n #Int- 1) (g acc)\nf {n} 0"),
            n * c,
        ),
        "record-pattern-let-body" => (
            format!("rec let f r =\n    let {{ n, acc }} = r\n    if n #Int== 0 then acc else f {{ n = n #Int- 1, acc = acc #Int+ {c} }}\nf {{ n = {n}, acc = 0 }}"),
            n * c,
        ),
        // a block: a unit-valued statement, then the tail call as the last expression (the plain
        // `e1 <newline> e2` form desugars to flat_map, which needs the prelude)
        "block-last-expression" => (
            format!("let ignore x = ()\nrec let f n acc =\n    let _ = ignore n\n    if n #Int== 0 then acc else f (n #Int- 1) (acc #Int+ {c})\nf {n} 0"),
            n * c,
        ),
        "closure-with-upvalues" => (
            format!("let step = {c}\nrec let f n acc =\n    let k = \\a -> f (n #Int- 1) (a #Int+ step)\n    if n #Int== 0 then acc else k acc\nf {n} 0"),
            n * c,
        ),
        "lambda-body" => (
            format!("rec let f n acc = (\\m a -> if m #Int== 0 then a else f (m #Int- 1) (a #Int+ {c})) n acc\nf {n} 0"),
            n * c,
        ),
        "partial-application-tail" => (
            format!("rec let f n acc = if n #Int== 0 then acc else (let g = f (n #Int- 1) in g (acc #Int+ {c}))\nf {n} 0"),
            n * c,
        ),
        // f takes ONE argument and returns a function: the recursive call passes two (excess argument)
        "over-application-tail" => (
            format!("rec let f n = \\acc -> if n #Int== 0 then acc else f (n #Int- 1) (acc #Int+ {c})\nf {n} 0"),
            n * c,
        ),
        "mutual-2" => (
            format!("rec\nlet a n acc = if n #Int== 0 then acc else b (n #Int- 1) (acc #Int+ {c})\nlet b n acc = if n #Int== 0 then acc else a (n #Int- 1) (acc #Int+ {c})\na {n} 0"),
            n * c,
        ),
        "mutual-3" => (
            format!("rec\nlet a n acc = if n #Int== 0 then acc else b (n #Int- 1) (acc #Int+ {c})\nlet b n acc = if n #Int== 0 then acc else d (n #Int- 1) (acc #Int+ {c})\nlet d n acc = if n #Int== 0 then acc else a (n #Int- 1) (acc #Int+ {c})\na {n} 0"),
            n * c,
        ),
        "or-inside-match-alt" => (
            format!("{T}rec let f t i n =\n    match t with\n    | A -> i #Int== n || f A (i #Int+ 1) n\n    | B _ -> 1 #Int== 0\nif f A 0 {n} then {c} else 0"),
            c,
        ),
        "and-inside-if-inside-or" => (
            format!("rec let g i n = i #Int== n || (if i #Int< 0 then 1 #Int== 0 else 0 #Int< n && g (i #Int+ 1) n)\nif g 0 {n} then {c} else 0"),
            c,
        ),
        "match-inside-or-rhs" => (
            format!("{T}rec let f t i n =\n    i #Int== n || (match t with\n        | A -> f (B 0) (i #Int+ 1) n\n        | B _ -> f A (i #Int+ 1) n)\nif f A 0 {n} then {c} else 0"),
            c,
        ),
        "or-inside-let-body-in-closure" => (
            format!("rec let f i n =\n    let k = \\j ->\n        let m = j #Int+ 1\n        j #Int== n || f m n\n    k i\nif f 0 {n} then {c} else 0"),
            c,
        ),
        _ => unreachable!(),
    };
    Prog { family: shape, src, expected, tail: true, n }
}

const FAMILIES: &[&str] = &[
    "tail-direct",
    "nontail-direct",
    "tail-mutual",
    "nontail-mutual",
    "cps-closures",
    "tail-via-record-closure",
    "partial-application",
    "over-application",
    "tailcall-with-excess",
    "nontail-over-application",
    "alloc-list",
    "alloc-garbage-records",
    "alloc-arrays",
    "alloc-nontail-list",
];

// ------------------------------------------------------------------------------------------
// A: accounting on a real standalone Gc
// ------------------------------------------------------------------------------------------

struct Blob(usize);
struct BlobVal;
unsafe impl Trace for BlobVal {}
unsafe impl Trace for Blob {}
unsafe impl DataDef for Blob {
    type Value = BlobVal;
    fn size(&self) -> usize {
        self.0
    }
    fn initialize<'w>(self, result: WriteOnly<'w, BlobVal>) -> &'w mut BlobVal {
        result.write(BlobVal)
    }
}
struct Roots(Vec<Option<GcPtr<BlobVal>>>);
unsafe impl Trace for Roots {
    fn trace(&self, gc: &mut Gc) {
        for p in self.0.iter().flatten() {
            p.trace(gc);
        }
    }
}
impl CollectScope for Roots {
    fn scope<F>(&self, gc: &mut Gc, f: F)
    where
        F: FnOnce(&mut Gc),
    {
        f(gc)
    }
}
impl<'a> CollectScope for &'a Roots {
    fn scope<F>(&self, gc: &mut Gc, f: F)
    where
        F: FnOnce(&mut Gc),
    {
        f(gc)
    }
}

fn measure_header() -> usize {
    let mut gc = Gc::new(Generation::default(), usize::MAX);
    let _ = gc.alloc(Blob(8)).map(|r| unsafe { r.unrooted() });
    let h = gc.allocated_memory() - 8;
    unsafe { gc.clear() };
    h
}

/// ops: a<size> i<size> A<size> d<k> c ; returns the trace "<allocated>[!] ..."
fn run_acct(hdr: usize, limit: usize, ops: &[String]) -> String {
    let mut gc = Gc::new(Generation::default(), limit);
    // live objects newest first, with their root (None = dropped)
    let mut roots = Roots(vec![]);
    let mut out = vec![];
    for o in ops {
        let arg: usize = o[1..].parse().unwrap_or(0);
        let mut oom = false;
        match &o[..1] {
            "a" => match gc.alloc(Blob(arg)) {
                Ok(r) => roots.0.insert(0, Some(unsafe { r.unrooted() })),
                Err(_) => oom = true,
            },
            "i" => {
                let p = unsafe { gc.alloc_ignore_limit(Blob(arg)).unrooted() };
                roots.0.insert(0, Some(p));
            }
            "A" => {
                let before = gc.allocated_memory();
                let r = unsafe { gc.alloc_and_collect(&roots, Blob(arg)) };
                let (p, grown) = match r {
                    Ok(r) => (Some(unsafe { gluon_vm::gc::GcRef::from(r).unrooted() }), arg + hdr),
                    Err(_) => (None, 0),
                };
                // a collection happened iff unrooted objects were swept (the counter dropped):
                // only then do the dropped objects leave the model's list as well
                if gc.allocated_memory() < before + grown {
                    roots.0.retain(|x| x.is_some());
                }
                match p {
                    Some(p) => roots.0.insert(0, Some(p)),
                    None => oom = true,
                }
            }
            "d" => {
                // the model's `unroot` addresses live objects (rooted or not) newest first
                if let Some(slot) = roots.0.get_mut(arg) {
                    *slot = None;
                }
            }
            "c" => {
                unsafe { gc.collect(&roots) };
                roots.0.retain(|x| x.is_some());
            }
            _ => {}
        }
        out.push(format!("{}{}", gc.allocated_memory(), if oom { "!" } else { "" }));
    }
    roots.0.clear();
    unsafe { gc.clear() };
    out.join(" ")
}

fn gen_acct(rng: &mut Rng, hdr: usize, len: usize) -> (usize, Vec<String>) {
    let limit = match rng.below(4) {
        0 => 64 + rng.below(200) as usize,
        1 => 200 + rng.below(2000) as usize,
        2 => 5000 + rng.below(50000) as usize,
        _ => hdr * (2 + rng.below(6) as usize) + rng.below(hdr as u64 + 1) as usize,
    };
    let mut ops = vec![];
    let mut live = 0usize; // objects in the model's list (rooted or dropped-but-unswept)
    for _ in 0..len {
        match rng.below(10) {
            0..=3 => {
                ops.push(format!("a{}", size_pick(rng, hdr, limit)));
                live += 1; // may be refused; then indexes below stay valid (d on a missing index is a no-op on both sides)
            }
            4..=5 => {
                ops.push(format!("A{}", size_pick(rng, hdr, limit)));
                live += 1;
            }
            6 => {
                if rng.chance(1, 3) {
                    ops.push(format!("i{}", size_pick(rng, hdr, limit)));
                    live += 1;
                } else {
                    ops.push("c".into());
                }
            }
            7..=8 => ops.push(format!("d{}", rng.below(live as u64 + 1))),
            _ => ops.push("c".into()),
        }
    }
    (limit, ops)
}

fn size_pick(rng: &mut Rng, hdr: usize, limit: usize) -> usize {
    match rng.below(5) {
        0 => rng.below(17) as usize,
        1 => 8 * (1 + rng.below(16) as usize),
        // around the decision boundary of the limit test
        2 => limit.saturating_sub(hdr + rng.below(2 * hdr as u64 + 2) as usize) / (1 + rng.below(3) as usize),
        3 => limit.saturating_sub(rng.below(4) as usize),
        _ => rng.below(limit as u64 / 2 + 1) as usize,
    }
}

// ------------------------------------------------------------------------------------------
// C: runtime observations
// ------------------------------------------------------------------------------------------

fn new_vm() -> RootedThread {
    let vm = gluon::VmBuilder::new().build();
    vm.get_database_mut().implicit_prelude(false);
    vm
}

#[derive(Debug, Clone, PartialEq)]
enum Outcome {
    Value(i64),
    StackOverflow(u32),
    OutOfMemory { limit: usize },
    Interrupted,
    Other(String),
    Panic,
}

fn classify_err(e: &gluon::Error) -> Outcome {
    use gluon::vm::Error as VE;
    match e {
        gluon::Error::VM(VE::StackOverflow(l)) => Outcome::StackOverflow(*l),
        gluon::Error::VM(VE::OutOfMemory { limit, .. }) => Outcome::OutOfMemory { limit: *limit },
        gluon::Error::VM(VE::Interrupted) => Outcome::Interrupted,
        other => {
            // errors raised inside nested evaluations are wrapped in messages
            let t = format!("{}", other);
            Outcome::Other(t.lines().take(2).collect::<Vec<_>>().join(" | "))
        }
    }
}

struct RunResult {
    outcome: Outcome,
    allocated_after: usize,
    baseline: usize,
    mem_limit: Option<usize>,
}

/// Evaluate `src` on a fresh child thread of `vm` with the given limits.
/// mem_delta: memory limit = the thread's allocated_memory() before the run + delta.
fn run_limited(vm: &RootedThread, name: &str, src: &str, stack_limit: Option<u32>, mem_delta: Option<usize>) -> RunResult {
    let t = vm.new_thread().expect("new_thread");
    let baseline = t.allocated_memory();
    if let Some(s) = stack_limit {
        t.context().set_max_stack_size(s);
    }
    let mem_limit = mem_delta.map(|d| baseline + d);
    if let Some(m) = mem_limit {
        t.set_memory_limit(m);
    }
    let r = catch_unwind(AssertUnwindSafe(|| t.run_expr::<i64>(name, src)));
    let outcome = match r {
        Ok(Ok((v, _))) => Outcome::Value(v),
        Ok(Err(e)) => classify_err(&e),
        Err(_) => Outcome::Panic,
    };
    let allocated_after = t.allocated_memory();
    RunResult { outcome, allocated_after, baseline, mem_limit }
}

struct Obs {
    failures: Vec<serde_json::Value>,
    evaluations: u64,
    distinct: HashSet<u64>,
    hist: Hist,
    samples: Vec<serde_json::Value>,
    over_limit_max: usize,
}

impl Obs {
    fn fail(&mut self, key: &str, what: String, case: serde_json::Value, expected: String, observed: String) {
        if self.failures.iter().filter(|f| f["key"] == key).count() < 5 {
            self.failures.push(serde_json::json!({"key": key, "what": what, "case": case, "expected": expected, "observed": observed}));
        }
        self.hist.add(&format!("FAIL:{}", key));
    }

    /// Run one program under one limit configuration and judge the outcome.
    fn check(&mut self, vm: &RootedThread, p: &Prog, stack_limit: Option<u32>, mem_delta: Option<usize>, hdr: usize, must_succeed: bool) -> Outcome {
        let r = run_limited(vm, "c07", &p.src, stack_limit, mem_delta);
        self.evaluations += 1;
        self.distinct.insert(fnv(format!("{}|{:?}|{:?}", p.src, stack_limit, mem_delta).as_bytes()));
        self.hist.add(&format!("family:{}", p.family));
        self.hist.add(&format!("stack-limit:{}", stack_limit.map(|s| s.to_string()).unwrap_or("none".into())));
        self.hist.add(&format!("mem-limit:{}", if mem_delta.is_some() { "set" } else { "none" }));
        let case = serde_json::json!({"family": p.family, "n": p.n, "source": p.src, "stack_limit": stack_limit, "mem_delta": mem_delta,
            "mem_limit": r.mem_limit, "baseline": r.baseline});
        let tag = match &r.outcome {
            Outcome::Value(_) => "value",
            Outcome::StackOverflow(_) => "stack-overflow",
            Outcome::OutOfMemory { .. } => "out-of-memory",
            Outcome::Interrupted => "interrupted",
            Outcome::Other(_) => "other-error",
            Outcome::Panic => "panic",
        };
        self.hist.add(&format!("outcome:{}", tag));
        let expected = format!("{} | StackOverflow({:?}) | OutOfMemory(limit {:?})", p.expected, stack_limit, r.mem_limit);
        match &r.outcome {
            Outcome::Value(v) if *v == p.expected => {}
            Outcome::Value(v) => self.fail(&format!("limit-outcome:wrong-value:{}", p.family), format!("program of family {} returned {} instead of {}", p.family, v, p.expected), case.clone(), expected.clone(), format!("{}", v)),
            Outcome::StackOverflow(l) if stack_limit == Some(*l) && !must_succeed => {}
            Outcome::OutOfMemory { limit } if r.mem_limit == Some(*limit) && !must_succeed => {}
            o => self.fail(
                &format!("limit-outcome:{}:{}", tag, p.family),
                if must_succeed {
                    format!("tail-recursive program of family {} ({} iterations) must finish under a {:?}-slot stack limit, got {:?}", p.family, p.n, stack_limit, o)
                } else {
                    format!("program of family {} under limits ended with {:?}: neither its value nor the configured limit error", p.family, o)
                },
                case.clone(),
                expected.clone(),
                format!("{:?}", o),
            ),
        }
        if let Some(lim) = r.mem_limit {
            if r.allocated_after > lim {
                let over = r.allocated_after - lim;
                self.over_limit_max = self.over_limit_max.max(over);
                let key = if over <= hdr { "memory-limit-exceeded-by-header" } else { "memory-limit-exceeded" };
                self.fail(
                    key,
                    format!("allocated_memory() = {} exceeds the configured memory limit {} by {} bytes after the evaluation (object header = {} bytes)", r.allocated_after, lim, over, hdr),
                    case.clone(),
                    format!("allocated_memory() <= {}", lim),
                    format!("allocated_memory() = {} (outcome {:?})", r.allocated_after, r.outcome),
                );
            }
        }
        if self.samples.len() < 6 && self.evaluations % 97 == 5 {
            self.samples.push(serde_json::json!({"source": p.src, "stack_limit": stack_limit, "mem_limit": r.mem_limit, "outcome": format!("{:?}", r.outcome), "allocated_after": r.allocated_after}));
        }
        r.outcome
    }
}

fn child_deep(depth: i64, family: &str) {
    // runs in the child process, on the main thread (default 8 MB native stack), default limits
    let vm = new_vm();
    let fam = FAMILIES.iter().find(|f| **f == family).cloned().unwrap_or("nontail-direct");
    let p = prog(fam, depth, 1);
    match vm.run_expr::<i64>("deep", &p.src) {
        Ok((v, _)) => println!("RESULT value {} expected {}", v, p.expected),
        Err(e) => println!("RESULT error {:?}", classify_err(&e)),
    }
}

fn spawn_child(args: &[String], deadline: Duration) -> (Option<i32>, Option<i32>, String, bool) {
    use std::process::{Command, Stdio};
    let exe = std::env::current_exe().expect("current_exe");
    let mut child = Command::new(exe).args(args).stdout(Stdio::piped()).stderr(Stdio::piped()).spawn().expect("spawn child");
    let start = Instant::now();
    loop {
        match child.try_wait() {
            Ok(Some(status)) => {
                let mut out = String::new();
                use std::io::Read;
                if let Some(mut so) = child.stdout.take() {
                    let _ = so.read_to_string(&mut out);
                }
                let mut errs = String::new();
                if let Some(mut se) = child.stderr.take() {
                    let _ = se.read_to_string(&mut errs);
                }
                #[cfg(unix)]
                let sig = {
                    use std::os::unix::process::ExitStatusExt;
                    status.signal()
                };
                #[cfg(not(unix))]
                let sig = None;
                let tail: String = errs.lines().rev().take(3).collect::<Vec<_>>().join(" | ");
                return (status.code(), sig, format!("{}{}", out, if tail.is_empty() { String::new() } else { format!(" stderr: {}", tail) }), false);
            }
            Ok(None) => {
                if start.elapsed() > deadline {
                    let _ = child.kill();
                    let _ = child.wait();
                    return (None, None, String::new(), true);
                }
                std::thread::sleep(Duration::from_millis(20));
            }
            Err(e) => return (None, None, format!("wait failed: {}", e), false),
        }
    }
}

fn interrupt_case(delay_us: u64, family: &str, deadline: Duration) -> (Outcome, Duration, bool) {
    // A fresh VM per case: the interrupt flag is never cleared by the VM.
    let vm = new_vm();
    let src = match family {
        "tail-loop" => "rec let f n = f (n #Int+ 1)\nf 0".to_string(),
        "mutual-loop" => "rec\nlet a n = b (n #Int+ 1)\nlet b n = a (n #Int- 1)\na 0".to_string(),
        "cps-loop" => "rec let loop n k = loop (n #Int+ 1) (\\r -> r)\nloop 0 (\\r -> r)".to_string(),
        _ => "rec let f n = if n #Int== 0 then 0 else f (n #Int- 1) #Int+ 0\nrec let g m = if f 1000 #Int== 0 then g (m #Int+ 1) else 0\ng 0".to_string(),
    };
    let (tx, rx) = std::sync::mpsc::channel();
    let vm2 = vm.clone();
    let worker = std::thread::spawn(move || {
        let r = catch_unwind(AssertUnwindSafe(|| vm2.run_expr::<i64>("intr", &src)));
        let o = match r {
            Ok(Ok((v, _))) => Outcome::Value(v),
            Ok(Err(e)) => classify_err(&e),
            Err(_) => Outcome::Panic,
        };
        let _ = tx.send(o);
    });
    std::thread::sleep(Duration::from_micros(delay_us));
    let t0 = Instant::now();
    vm.interrupt();
    match rx.recv_timeout(deadline) {
        Ok(o) => {
            let _ = worker.join();
            (o, t0.elapsed(), false)
        }
        Err(_) => (Outcome::Other("no answer before the deadline".into()), t0.elapsed(), true),
    }
}

// ------------------------------------------------------------------------------------------

fn main() {
    let args = Args::parse();
    if args.rest.first().map(|s| s.as_str()) == Some("child-deep") {
        let depth: i64 = args.rest.get(1).and_then(|s| s.parse().ok()).unwrap_or(1000);
        let fam = args.rest.get(2).cloned().unwrap_or_default();
        child_deep(depth, &fam);
        return;
    }
    // the compiler and the core-IR walk recurse on expression depth: use a roomy native stack
    let h = std::thread::Builder::new().stack_size(512 << 20).spawn(move || real_main(args)).unwrap();
    let code = match h.join() {
        Ok(()) => 0,
        Err(_) => 3,
    };
    std::process::exit(code);
}

fn real_main(args: Args) {
    let hdr = measure_header();
    if let Some(path) = &args.replay {
        replay(path, hdr);
        return;
    }
    let thorough = args.thorough();
    let mut rng = Rng::new(args.seed);
    let mut model_in = args.file("model_in.txt");
    let mut impl_out = args.file("impl_out.txt");
    let mut cases = args.file("cases.txt");
    let mut hist = Hist::default();
    let t_start = Instant::now();

    // ---------------- slack line (the model's own statement of the limit arithmetic) ----------
    writeln!(model_in, "slack {}", hdr).unwrap();
    // implementation side of the witness: the same single allocation on a real Gc
    let wl = 100 + 2 * hdr;
    let mut wline = String::new();
    {
        // payload sizes around the boundary; report the largest accepted one
        let mut best: Option<(usize, String)> = None;
        for size in (wl.saturating_sub(2 * hdr + 2))..=wl {
            let tr = run_acct(hdr, wl, &[format!("a{}", size)]);
            if !tr.ends_with('!') {
                best = Some((size, tr));
            }
        }
        if let Some((size, tr)) = best {
            let alloc: usize = tr.parse().unwrap_or(0);
            wline = format!("slack {} limit={} size={} trace={}", alloc.saturating_sub(wl), wl, size, tr);
        }
    }
    writeln!(impl_out, "{}", wline).unwrap();
    writeln!(cases, "slack: largest single allocation accepted by a real Gc with memory limit {} (header {})", wl, hdr).unwrap();

    // ---------------- V ----------------
    let mut dump = Dump {
        model_in: &mut model_in,
        impl_out: &mut impl_out,
        cases: &mut cases,
        hist: &mut hist,
        n_fns: 0,
        n_instrs: 0,
        n_splits: 0,
        distinct: HashSet::new(),
        annot_failures: vec![],
        samples: vec![],
        tail_calls: 0,
        nontail_in_tail_position: vec![],
    };
    let mut skipped: Vec<String> = vec![];
    let mut compiled_std = 0;
    {
        let vm = gluon::VmBuilder::new().build();
        for (rel, src) in std_sources() {
            let name = format!("c07v.{}", rel.trim_end_matches(".glu").replace('/', "."));
            match compile_module(&vm, &name, &src) {
                Ok((f, info)) => {
                    compiled_std += 1;
                    dump.function(&rel.trim_end_matches(".glu").replace('/', "."), &f, &info, "std");
                }
                Err(e) => skipped.push(format!("{}: {}", rel, e)),
            }
        }
    }
    // generated programs (the same families the runtime part executes) + structural extras
    let vmg = new_vm();
    let mut gen_progs: Vec<(String, String)> = vec![];
    for fam in FAMILIES {
        for n in [0i64, 1, 7] {
            let p = prog(fam, n, 1 + rng.below(5) as i64);
            gen_progs.push((format!("gen.{}.{}", fam, n), p.src));
        }
    }
    for sh in TAIL_SHAPES {
        let p = tail_shape(sh, 3, 1 + rng.below(5) as i64);
        gen_progs.push((format!("gen.tailshape.{}", sh), p.src));
    }
    let extras: &[(&str, &str)] = &[
        ("rec-records", "rec\nlet a = { x = 1, other = \\u -> b.y }\nlet b = { y = 2, other = \\u -> a.x }\nin\na.x"),
        ("rec-record-in-branch", "let f c =\n    if c then\n        rec\n        let a = { x = 1, o = \\u -> b.y }\n        let b = { y = 2, o = \\u -> a.x }\n        in\n        a.x\n    else 7\nf"),
        ("rec-record-in-match", "let g c =\n    match c with\n    | 0 ->\n        rec\n        let a = { x = 1, o = \\u -> b.y }\n        let b = { y = 2, o = \\u -> a.x }\n        in\n        a.x\n    | n ->\n        let q = 40\n        q #Int+ n\ng"),
        ("rec-record-then-split", "let r = { p = 1, q = 2, s = 3 }\nlet { p, q, s } = r\nrec\nlet a = { x = p, o = \\u -> b.y }\nlet b = { y = q, o = \\u -> a.x }\nin\na.x"),
        ("nested-match", "type T = | A Int Int | B | C Int\nlet f t u =\n    match t with\n    | A x y ->\n        match u with\n        | A p q -> x #Int+ p\n        | B -> y\n        | C z -> z\n    | B -> 0\n    | C z -> z\nf (A 1 2) (C 3)"),
        ("record-split", "let r = { a = 1, b = 2, c = 3 }\nlet { a, b, c } = r\na #Int+ b #Int+ c"),
        ("record-split-nested", "let r = { a = 1, b = { c = 2, d = 3 } }\nlet { a, b } = r\nlet { c, d } = b\na #Int+ c #Int+ d"),
        ("record-getoffset", "let r = { a = 1, b = 2, c = 3, d = 4, e = 5, f = 6, g = 7, h = 8 }\nlet { c } = r\nc"),
        ("and-or", "let f a b = (a #Int< b && b #Int< 10) || a #Int== 3\nif f 1 2 then 1 else 0"),
        ("literal-match", "let f x =\n    match x with\n    | 0 -> 10\n    | 1 -> 11\n    | _ -> 12\nlet g s =\n    match s with\n    | \"a\" -> 1\n    | _ -> 0\nf 1 #Int+ g \"a\""),
        ("zero-arg-single", "type U = | U\nlet f u y =\n    match u with\n    | U -> y\nlet y = 5\nf U y"),
        ("zero-arg-single-in-let", "type U = | U\nlet f u =\n    let y = 5\n    match u with\n    | U -> y\nf U"),
        ("array", "let a = [1, 2, 3]\na"),
    ];
    for (n, s) in extras {
        gen_progs.push((format!("gen.extra.{}", n), s.to_string()));
    }
    let mut gen_compile_errors = vec![];
    for (id, src) in &gen_progs {
        match compile_module(&vmg, &format!("c07g.{}", id), src) {
            Ok((f, info)) => dump.function(id, &f, &info, "generated"),
            Err(e) => gen_compile_errors.push(format!("{}: {}", id, e)),
        }
    }
    let (n_fns, n_instrs, n_splits) = (dump.n_fns, dump.n_instrs, dump.n_splits);
    let distinct_fns = dump.distinct.len() as u64;
    let annot_failures = std::mem::take(&mut dump.annot_failures);
    let fn_samples = std::mem::take(&mut dump.samples);
    let static_tail_calls = dump.tail_calls;
    let nontail_in_tail_position = std::mem::take(&mut dump.nontail_in_tail_position);
    drop(dump);
    let t_v = t_start.elapsed();

    // ---------------- A ----------------
    let n_acct = if thorough { 20000 } else { 2500 };
    let mut acct_ops = 0u64;
    let mut acct_distinct = HashSet::new();
    for i in 0..n_acct {
        let len = 4 + rng.below(if i % 10 == 0 { 120 } else { 30 }) as usize;
        let (limit, ops) = gen_acct(&mut rng, hdr, len);
        let line = format!("acct {} {} {}", hdr, limit, ops.join(" "));
        writeln!(model_in, "{}", line).unwrap();
        writeln!(impl_out, "acct {}", run_acct(hdr, limit, &ops)).unwrap();
        writeln!(cases, "{}", line).unwrap();
        acct_ops += ops.len() as u64;
        if ops.len() >= 3 {
            acct_distinct.insert(fnv(line.as_bytes()));
        }
        hist.add("acct:sequences");
    }
    let t_a = t_start.elapsed();
    model_in.flush().unwrap();
    impl_out.flush().unwrap();
    cases.flush().unwrap();

    // ---------------- C ----------------
    let mut obs = Obs { failures: vec![], evaluations: 0, distinct: HashSet::new(), hist: Hist::default(), samples: vec![], over_limit_max: 0 };
    let mut vm = new_vm();
    let mut since_new = 0;
    let mut renew = |vm: &mut RootedThread, since: &mut u32| {
        *since += 1;
        if *since >= 400 {
            *vm = new_vm();
            *since = 0;
        }
    };
    // corpus first
    let corpus_dir = std::path::Path::new(env!("CARGO_MANIFEST_DIR")).join("../corpus/C07");
    if let Ok(rd) = std::fs::read_dir(&corpus_dir) {
        let mut files: Vec<_> = rd.filter_map(|e| e.ok()).map(|e| e.path()).filter(|p| p.extension().map(|e| e == "json").unwrap_or(false)).collect();
        files.sort();
        for f in files {
            if let Ok(text) = std::fs::read_to_string(&f) {
                if let Ok(v) = serde_json::from_str::<serde_json::Value>(&text) {
                    let p = Prog {
                        family: Box::leak(format!("corpus-{}", f.file_stem().map(|x| x.to_string_lossy().to_string()).unwrap_or_default()).into_boxed_str()),
                        src: v["source"].as_str().unwrap_or("0").to_string(),
                        expected: v["expected"].as_i64().unwrap_or(0),
                        tail: v["tail"].as_bool().unwrap_or(false),
                        n: v["n"].as_i64().unwrap_or(0),
                    };
                    let sl = v["stack_limit"].as_u64().map(|x| x as u32);
                    let md = v["mem_delta"].as_u64().map(|x| x as usize);
                    obs.check(&vm, &p, sl, md, hdr, v["must_succeed"].as_bool().unwrap_or(false));
                }
            }
        }
    }
    // C0: functions the verifier looks at are also executed.  A module returns a function whose
    // first alternative binds recursive records; the second alternative must still work.
    {
        let module = "let g c =\n    match c with\n    | 0 ->\n        rec\n        let a = { x = 1, o = \\u -> b.y }\n        let b = { y = 2, o = \\u -> a.x }\n        in\n        a.x\n    | n ->\n        let q = 40\n        q #Int+ n\ng";
        let vmm = new_vm();
        match catch_unwind(AssertUnwindSafe(|| vmm.load_script("c07recmod", module))) {
            Ok(Ok(())) => {
                for (arg, expected) in [(0i64, 1i64), (5, 45)] {
                    let p = Prog { family: "rec-record-in-alternative", src: format!("let g = import! c07recmod\ng {}", arg), expected, tail: true, n: arg };
                    let before = obs.failures.len();
                    obs.check(&vmm, &p, None, None, hdr, false);
                    for f in obs.failures[before..].iter_mut() {
                        f["case"]["module_c07recmod"] = serde_json::json!(module);
                    }
                }
            }
            other => obs.fail("limit-outcome:module-load:rec-record-in-alternative", format!("could not load the probe module: {:?}", other.map(|r| r.map_err(|e| e.to_string()))), serde_json::json!({"source": module}), "module loads".into(), "error".into()),
        }
    }
    // C1: stack-limit sweep
    let stack_limits: &[u32] = &[8, 12, 16, 24, 32, 48, 64, 96, 128, 256, 512, 1024, 4096];
    let depths: &[i64] = if thorough { &[0, 1, 2, 3, 5, 8, 13, 40, 100, 400, 1500, 6000] } else { &[0, 1, 3, 8, 40, 400, 3000] };
    // smallest stack limit under which each tail family finishes a short run (used for the constant-stack check)
    let mut min_ok: HashMap<&'static str, u32> = HashMap::new();
    for fam in FAMILIES {
        for &n in depths {
            for &s in stack_limits {
                let p = prog(fam, n, 1 + rng.below(4) as i64);
                let o = obs.check(&vm, &p, Some(s), None, hdr, false);
                if p.tail && n >= 40 {
                    if let Outcome::Value(_) = o {
                        let e = min_ok.entry(fam).or_insert(s);
                        *e = (*e).min(s);
                    }
                }
                renew(&mut vm, &mut since_new);
            }
        }
    }
    // C1b: every syntactic tail position: small runs for the value, then >= 10^5 iterations under
    // small stack limits (one leaked frame per iteration would need >= 2 * 10^5 slots)
    let mut tail_shape_runs = vec![];
    let shape_iters: i64 = if thorough { 1_000_000 } else { 200_000 };
    for sh in TAIL_SHAPES {
        for n in [0i64, 1, 2, 7, 50] {
            let p = tail_shape(sh, n, 1 + rng.below(4) as i64);
            obs.check(&vm, &p, None, None, hdr, true);
            obs.check(&vm, &p, Some(1000), None, hdr, true);
            renew(&mut vm, &mut since_new);
        }
        for &s in &[64u32, 1000] {
            let p = tail_shape(sh, shape_iters, 3);
            let t0 = Instant::now();
            let o = obs.check(&vm, &p, Some(s), None, hdr, true);
            tail_shape_runs.push(serde_json::json!({"shape": sh, "iterations": shape_iters, "stack_limit": s, "outcome": format!("{:?}", o), "ms": t0.elapsed().as_millis() as u64}));
        }
        vm = new_vm();
        since_new = 0;
    }
    // C2: constant stack: 10^6 iterations under a 64-slot limit (and under the smallest limit that
    // was enough for a short run: the need must not depend on the iteration count)
    let big: i64 = 1_000_000;
    let mut tail_runs = vec![];
    for fam in FAMILIES {
        let p0 = prog(fam, big, 1);
        if !p0.tail {
            continue;
        }
        // cps-closures and alloc-list keep O(n) heap alive but constant stack
        let t0 = Instant::now();
        let o = obs.check(&vm, &p0, Some(64), None, hdr, true);
        tail_runs.push(serde_json::json!({"family": fam, "iterations": big, "stack_limit": 64, "outcome": format!("{:?}", o), "ms": t0.elapsed().as_millis() as u64}));
        if let Some(&s) = min_ok.get(fam) {
            if s < 64 {
                let p1 = prog(fam, if thorough { big } else { 200_000 }, 1);
                let o = obs.check(&vm, &p1, Some(s), None, hdr, true);
                tail_runs.push(serde_json::json!({"family": fam, "iterations": p1.n, "stack_limit": s, "outcome": format!("{:?}", o)}));
            }
        }
        vm = new_vm();
    }
    // monotonicity of the non-tail families: success under a limit implies success of every
    // shallower recursion under the same limit, and overflow persists for deeper ones
    for fam in FAMILIES {
        if prog(fam, 1, 1).tail {
            continue;
        }
        for &s in &[32u32, 128, 1024] {
            let mut seen_overflow = false;
            for &n in &[1i64, 4, 16, 64, 256, 1024, 4096] {
                let p = prog(fam, n, 2);
                let o = obs.check(&vm, &p, Some(s), None, hdr, false);
                match o {
                    Outcome::StackOverflow(_) => seen_overflow = true,
                    Outcome::Value(_) if seen_overflow => obs.fail(
                        &format!("limit-outcome:non-monotone:{}", fam),
                        format!("family {}: depth {} fits a {}-slot stack although a shallower recursion overflowed", fam, n, s),
                        serde_json::json!({"family": fam, "n": n, "source": p.src, "stack_limit": s}),
                        "StackOverflow".into(),
                        format!("{:?}", o),
                    ),
                    _ => {}
                }
                renew(&mut vm, &mut since_new);
            }
        }
    }
    // C3: memory-limit sweep.  For each program measure its footprint without a limit, then sweep
    // limits around it (coarse) and byte-exact around the points where the last allocation fits.
    let mem_sizes: &[i64] = if thorough { &[0, 1, 2, 5, 20, 100, 1000, 20000] } else { &[0, 1, 3, 20, 300, 5000] };
    for fam in FAMILIES {
        for &n in mem_sizes {
            let p = prog(fam, n, 1 + rng.below(3) as i64);
            let free = run_limited(&vm, "c07", &p.src, None, None);
            let foot = free.allocated_after.saturating_sub(free.baseline);
            let mut deltas: Vec<usize> = vec![0, 1, hdr, 64, 256, 1024, 4096, 65536, 1 << 22];
            for d in 0..=(2 * hdr + 8) {
                deltas.push(foot.saturating_sub(hdr + 4) + d);
            }
            if thorough {
                for _ in 0..24 {
                    deltas.push(rng.below(2 * foot as u64 + 200) as usize);
                }
            } else {
                for _ in 0..6 {
                    deltas.push(rng.below(2 * foot as u64 + 200) as usize);
                }
            }
            deltas.sort();
            deltas.dedup();
            for d in deltas {
                let sl = if rng.chance(1, 4) { Some(*rng.pick(stack_limits)) } else { None };
                obs.check(&vm, &p, sl, Some(d), hdr, false);
                renew(&mut vm, &mut since_new);
            }
        }
    }
    // the probe of DESIGN.md section 1: a three-field record right below the limit
    {
        let p = Prog { family: "record-literal", src: "let r = { a = 1, b = 2, c = 3 }\nr.a #Int+ r.b #Int+ r.c".into(), expected: 6, tail: true, n: 0 };
        for d in 0..=(8 * hdr) {
            obs.check(&vm, &p, None, Some(d), hdr, false);
        }
    }
    let t_c = t_start.elapsed();

    // C4: deep non-tail recursion with default limits, in a child process
    let mut deep_runs = vec![];
    let deep: &[(i64, &str)] = if thorough {
        &[(100_000, "nontail-direct"), (1_000_000, "nontail-direct"), (3_000_000, "nontail-direct"), (300_000, "nontail-mutual"), (300_000, "nontail-over-application"),
          (100_000, "alloc-nontail-list"), (400_000, "alloc-nontail-list"), (1_000_000, "alloc-list"), (1_000_000, "cps-closures")]
    } else {
        &[(100_000, "nontail-direct"), (1_000_000, "nontail-direct"), (200_000, "nontail-mutual"), (400_000, "alloc-nontail-list"), (1_000_000, "alloc-list")]
    };
    for (depth, fam) in deep {
        let t0 = Instant::now();
        let (code, sig, out, timed_out) = spawn_child(&["child-deep".to_string(), depth.to_string(), fam.to_string()], Duration::from_secs(if thorough { 600 } else { 120 }));
        obs.evaluations += 1;
        obs.hist.add("deep-child:runs");
        let case = serde_json::json!({"family": fam, "depth": depth, "child": true, "program_template": prog(FAMILIES.iter().find(|f| *f == fam).cloned().unwrap_or("nontail-direct"), 3, 1).src.replace(" 3", " <depth>")});
        let line = out.lines().find(|l| l.starts_with("RESULT")).unwrap_or("").to_string();
        deep_runs.push(serde_json::json!({"depth": depth, "family": fam, "exit": code, "signal": sig, "result": line, "timed_out": timed_out, "ms": t0.elapsed().as_millis() as u64}));
        if let Some(s) = sig {
            obs.fail(&format!("native-stack:signal:{}", fam), format!("program of family {} (depth / length {}) with default limits killed the process with signal {} (native stack overflow is reported as SIGABRT/SIGSEGV)", fam, depth, s), case, "value or StackOverflow/OutOfMemory error".into(), format!("signal {} {}", s, out));
        } else if timed_out {
            obs.fail(&format!("native-stack:timeout:{}", fam), format!("program of family {} (depth {}) did not finish before the watchdog", fam, depth), case, "value or limit error".into(), "timeout".into());
        } else if code != Some(0) {
            obs.fail(&format!("native-stack:abort:{}", fam), format!("program of family {} (depth {}) ended the process with exit code {:?}", fam, depth, code), case, "value or limit error".into(), format!("exit {:?} {}", code, out));
        } else if !(line.starts_with(&format!("RESULT value {} ", depth)) || line.contains("StackOverflow") || line.contains("OutOfMemory")) {
            obs.fail(&format!("native-stack:wrong-result:{}", fam), format!("deep recursion ({} {}) answered `{}`", fam, depth, line), case, format!("value {}", depth), line.clone());
        }
    }
    // C5: interrupts
    let mut intr_runs = vec![];
    let n_intr = if thorough { 60 } else { 16 };
    let mut worst = Duration::from_millis(0);
    let mut hung = false;
    for i in 0..n_intr {
        let fam = ["tail-loop", "mutual-loop", "cps-loop", "nested-calls"][i % 4];
        let delay = 200 + rng.below(60_000);
        let (o, took, timeout) = interrupt_case(delay, fam, Duration::from_secs(10));
        obs.evaluations += 1;
        obs.hist.add(&format!("interrupt:{}", fam));
        worst = worst.max(took);
        let case = serde_json::json!({"family": format!("interrupt-{}", fam), "delay_us": delay});
        if timeout {
            hung = true;
            obs.fail("interrupt:not-honoured", format!("Thread::interrupt after {} us on a running {} did not stop the program within 10 s", delay, fam), case, "Interrupted error".into(), "still running".into());
        } else if o != Outcome::Interrupted {
            // cps-loop may exhaust memory? no limit is set; anything but Interrupted is wrong
            obs.fail("interrupt:wrong-outcome", format!("interrupted {} ended with {:?}", fam, o), case, "Interrupted".into(), format!("{:?}", o));
        }
        if i < 4 {
            intr_runs.push(serde_json::json!({"family": fam, "delay_us": delay, "outcome": format!("{:?}", o), "latency_us": took.as_micros() as u64}));
        }
    }

    // ---------------- outputs ----------------
    let mut rt = args.file("runtime.jsonl");
    for f in &obs.failures {
        writeln!(rt, "{}", f).unwrap();
    }
    rt.flush().unwrap();
    for (k, v) in obs.hist.0.iter() {
        hist.addn(k, *v);
    }
    gvh::out::write_json(
        &args.out.join("stats.json"),
        &serde_json::json!({
            "evaluations": n_fns + n_acct as u64 + obs.evaluations,
            "distinct_nontrivial": distinct_fns + acct_distinct.len() as u64 + obs.distinct.len() as u64,
            "rule": "functions: distinct (args, max_stack_size, instruction list) with more than 2 instructions; accounting: distinct op sequences of length >= 3; runtime: distinct (program text, stack limit, memory delta)",
            "header_bytes": hdr,
            "functions_verified_input": n_fns,
            "functions_distinct": distinct_fns,
            "instructions": n_instrs,
            "splits": n_splits,
            "std_modules_compiled": compiled_std,
            "std_modules_skipped": skipped,
            "generated_compile_errors": gen_compile_errors,
            "annotation_failures": annot_failures,
            "static_tail_calls": static_tail_calls,
            "static_call_in_tail_position": nontail_in_tail_position,
            "tail_shape_runs": tail_shape_runs,
            "fn_samples": fn_samples,
            "acct_sequences": n_acct,
            "acct_ops": acct_ops,
            "runtime_evaluations": obs.evaluations,
            "runtime_distinct": obs.distinct.len(),
            "runtime_failures": obs.failures.len(),
            "over_limit_max_bytes": obs.over_limit_max,
            "tail_runs": tail_runs,
            "deep_runs": deep_runs,
            "interrupt_samples": intr_runs,
            "interrupt_worst_latency_us": worst.as_micros() as u64,
            "runtime_samples": obs.samples,
            "seconds": {"v": t_v.as_secs_f64(), "a": (t_a - t_v).as_secs_f64(), "c": (t_c - t_a).as_secs_f64(), "total": t_start.elapsed().as_secs_f64()},
            "hist": hist.to_json(),
        }),
    );
    if hung {
        // a worker thread is still spinning inside the VM
        std::process::exit(0);
    }
}

fn replay(path: &str, hdr: usize) {
    let v: serde_json::Value = serde_json::from_str(&std::fs::read_to_string(path).expect("replay file")).expect("json");
    let case = &v["case"];
    println!("key: {}", v["key"]);
    if let Some(src) = case["source"].as_str() {
        let vm = new_vm();
        if let Some(m) = case["module_c07recmod"].as_str() {
            println!("module c07recmod:\n{}\nload: {:?}", m, vm.load_script("c07recmod", m).map_err(|e| e.to_string()));
        }
        let sl = case["stack_limit"].as_u64().map(|x| x as u32);
        let md = case["mem_delta"].as_u64().map(|x| x as usize);
        let r = run_limited(&vm, "c07", src, sl, md);
        println!("source:\n{}", src);
        println!("stack_limit: {:?}  memory limit: {:?} (baseline {} + delta {:?})  header: {}", sl, r.mem_limit, r.baseline, md, hdr);
        println!("outcome: {:?}", r.outcome);
        println!("allocated_memory() after: {}{}", r.allocated_after, match r.mem_limit { Some(l) if r.allocated_after > l => format!("  > limit {} by {}", l, r.allocated_after - l), _ => String::new() });
        println!("expected: {}", v["expected"]);
    } else if let Some(line) = case["model_line"].as_str() {
        let toks: Vec<String> = line.split_whitespace().map(|s| s.to_string()).collect();
        if toks.first().map(|s| s.as_str()) == Some("acct") {
            let limit: usize = toks[2].parse().unwrap();
            println!("{}\nimpl: acct {}", line, run_acct(hdr, limit, &toks[3..]));
        } else {
            println!("{}", line);
        }
        println!("expected: {}", v["expected"]);
    } else if case["child"].as_bool() == Some(true) {
        let depth = case["depth"].as_i64().unwrap_or(100000);
        let fam = case["family"].as_str().unwrap_or("nontail-direct").to_string();
        let r = spawn_child(&["child-deep".to_string(), depth.to_string(), fam], Duration::from_secs(300));
        println!("child: exit {:?} signal {:?} timed_out {} output {}", r.0, r.1, r.3, r.2);
    } else if let Some(f) = case["family"].as_str() {
        if let Some(fam) = f.strip_prefix("interrupt-") {
            let (o, took, timeout) = interrupt_case(case["delay_us"].as_u64().unwrap_or(1000), fam, Duration::from_secs(10));
            println!("interrupt {}: {:?} after {:?} timeout={}", fam, o, took, timeout);
            if timeout {
                std::process::exit(0);
            }
        }
    } else {
        println!("nothing to re-run for this replay: {}", v["what"]);
    }
}
