//! C12 — precompiled bytecode behaves like the source it came from.
//!
//! For generated `gvh::mg` programs (both printer styles) and corpus files (corpus/C12/*.glu, /repo/std/*.glu):
//!  (1) run from source (`mg::run`);
//!  (2) `compile_to_bytecode` (src/lib.rs:550) to serde_json, bincode standard() (varint) and bincode legacy()
//!      (fixed width); load with `load_bytecode` (src/lib.rs:577) and with `Precompiled(..).run_expr`
//!      (compiler_pipeline.rs:1030, the path the repository's own `precompile` test uses) into the SAME vm and
//!      into a FRESH vm (dependencies imported first) and compare the canonical outcome (value, error class,
//!      effect log) with (1) — the property itself;
//!  (3) skeleton tie with the extracted Coq model (coq/extract/c12): the (args, max_stack_size, instructions,
//!      inner functions, strings) tree is read off the JSON serialisation; the model's `enc_fn` bytes (both
//!      integer encodings) must equal the bytes bincode produces for the same pieces, and those pieces must occur,
//!      in order, inside the real bincode serialisation of the whole module;
//!  (4) robustness: truncations at every 1/64 of the length and single-field corruptions of every serialised
//!      form are loaded in CHILD processes with a watchdog; anything but `Err(..)`/a clean runtime error/a value
//!      (panic, abort, signal, hang) is a violation attributed to the exact corrupted input.
//!
//! Files written into --out: model_in.txt / impl_out.txt / cases.txt (skeleton tie), findings.jsonl (one JSON
//! object per distinct violation key), stats.json.
use gluon::compiler_pipeline::{Executable, Precompiled};
use gluon::vm::api::{Hole, OpaqueValue};
use gluon::{RootedThread, ThreadExt};
use gvh::mg::{self, ast::Program, generate::GenConfig, print::Style, run::{ErrKind, Outcome, VmOptions}};
use gvh::out::{fnv, Args, Hist};
use gvh::rng::Rng;
use serde::ser::{self, Serialize, Serializer};
use std::collections::{BTreeMap, HashSet};
use std::io::{BufRead, Write};
use std::panic::{catch_unwind, AssertUnwindSafe};
use std::sync::{mpsc, Arc, Mutex};
use std::time::{Duration, Instant};

/// module name used for `compile_to_bytecode` and for loading (run_expr insists that they match)
const NAME: &str = "mgpre";

// ------------------------------------------------------------------------------------------------
// bincode 2 does not export its serde `Serializer` type; it can only be reached from inside
// `Serialize::serialize<S>`, where `S: Send` and `S::Error: 'static` (required by
// `compile_to_bytecode`) are not known.  `Ad` forwards every call of the top-level serializer to `S`
// and converts its errors into an owned message.  Nested values are serialised by `S` itself.
// The value never leaves this thread (`block_on`), so the `Send` assertion is never relied upon.
struct Ad<S>(S);
unsafe impl<S> Send for Ad<S> {}
#[derive(Debug)]
struct AdErr(String);
impl std::fmt::Display for AdErr {
    fn fmt(&self, f: &mut std::fmt::Formatter) -> std::fmt::Result {
        f.write_str(&self.0)
    }
}
impl std::error::Error for AdErr {}
impl ser::Error for AdErr {
    fn custom<T: std::fmt::Display>(msg: T) -> Self {
        AdErr(msg.to_string())
    }
}
fn cv<E: std::fmt::Display>(e: E) -> AdErr {
    AdErr(e.to_string())
}
macro_rules! prim {
    ($($f:ident : $t:ty),*) => { $( fn $f(self, v: $t) -> Result<S::Ok, AdErr> { self.0.$f(v).map_err(cv) } )* };
}
impl<S: Serializer> Serializer for Ad<S> {
    type Ok = S::Ok;
    type Error = AdErr;
    type SerializeSeq = Ad<S::SerializeSeq>;
    type SerializeTuple = Ad<S::SerializeTuple>;
    type SerializeTupleStruct = Ad<S::SerializeTupleStruct>;
    type SerializeTupleVariant = Ad<S::SerializeTupleVariant>;
    type SerializeMap = Ad<S::SerializeMap>;
    type SerializeStruct = Ad<S::SerializeStruct>;
    type SerializeStructVariant = Ad<S::SerializeStructVariant>;
    prim!(serialize_bool: bool, serialize_i8: i8, serialize_i16: i16, serialize_i32: i32, serialize_i64: i64,
          serialize_u8: u8, serialize_u16: u16, serialize_u32: u32, serialize_u64: u64, serialize_f32: f32,
          serialize_f64: f64, serialize_char: char, serialize_str: &str, serialize_bytes: &[u8]);
    fn serialize_none(self) -> Result<S::Ok, AdErr> {
        self.0.serialize_none().map_err(cv)
    }
    fn serialize_some<T: Serialize + ?Sized>(self, v: &T) -> Result<S::Ok, AdErr> {
        self.0.serialize_some(v).map_err(cv)
    }
    fn serialize_unit(self) -> Result<S::Ok, AdErr> {
        self.0.serialize_unit().map_err(cv)
    }
    fn serialize_unit_struct(self, n: &'static str) -> Result<S::Ok, AdErr> {
        self.0.serialize_unit_struct(n).map_err(cv)
    }
    fn serialize_unit_variant(self, n: &'static str, i: u32, v: &'static str) -> Result<S::Ok, AdErr> {
        self.0.serialize_unit_variant(n, i, v).map_err(cv)
    }
    fn serialize_newtype_struct<T: Serialize + ?Sized>(self, n: &'static str, v: &T) -> Result<S::Ok, AdErr> {
        self.0.serialize_newtype_struct(n, v).map_err(cv)
    }
    fn serialize_newtype_variant<T: Serialize + ?Sized>(self, n: &'static str, i: u32, vn: &'static str, v: &T) -> Result<S::Ok, AdErr> {
        self.0.serialize_newtype_variant(n, i, vn, v).map_err(cv)
    }
    fn serialize_seq(self, len: Option<usize>) -> Result<Self::SerializeSeq, AdErr> {
        self.0.serialize_seq(len).map(Ad).map_err(cv)
    }
    fn serialize_tuple(self, len: usize) -> Result<Self::SerializeTuple, AdErr> {
        self.0.serialize_tuple(len).map(Ad).map_err(cv)
    }
    fn serialize_tuple_struct(self, n: &'static str, len: usize) -> Result<Self::SerializeTupleStruct, AdErr> {
        self.0.serialize_tuple_struct(n, len).map(Ad).map_err(cv)
    }
    fn serialize_tuple_variant(self, n: &'static str, i: u32, v: &'static str, len: usize) -> Result<Self::SerializeTupleVariant, AdErr> {
        self.0.serialize_tuple_variant(n, i, v, len).map(Ad).map_err(cv)
    }
    fn serialize_map(self, len: Option<usize>) -> Result<Self::SerializeMap, AdErr> {
        self.0.serialize_map(len).map(Ad).map_err(cv)
    }
    fn serialize_struct(self, n: &'static str, len: usize) -> Result<Self::SerializeStruct, AdErr> {
        self.0.serialize_struct(n, len).map(Ad).map_err(cv)
    }
    fn serialize_struct_variant(self, n: &'static str, i: u32, v: &'static str, len: usize) -> Result<Self::SerializeStructVariant, AdErr> {
        self.0.serialize_struct_variant(n, i, v, len).map(Ad).map_err(cv)
    }
    fn is_human_readable(&self) -> bool {
        self.0.is_human_readable()
    }
}
impl<X: ser::SerializeSeq> ser::SerializeSeq for Ad<X> {
    type Ok = X::Ok;
    type Error = AdErr;
    fn serialize_element<T: Serialize + ?Sized>(&mut self, v: &T) -> Result<(), AdErr> {
        self.0.serialize_element(v).map_err(cv)
    }
    fn end(self) -> Result<X::Ok, AdErr> {
        self.0.end().map_err(cv)
    }
}
impl<X: ser::SerializeTuple> ser::SerializeTuple for Ad<X> {
    type Ok = X::Ok;
    type Error = AdErr;
    fn serialize_element<T: Serialize + ?Sized>(&mut self, v: &T) -> Result<(), AdErr> {
        self.0.serialize_element(v).map_err(cv)
    }
    fn end(self) -> Result<X::Ok, AdErr> {
        self.0.end().map_err(cv)
    }
}
impl<X: ser::SerializeTupleStruct> ser::SerializeTupleStruct for Ad<X> {
    type Ok = X::Ok;
    type Error = AdErr;
    fn serialize_field<T: Serialize + ?Sized>(&mut self, v: &T) -> Result<(), AdErr> {
        self.0.serialize_field(v).map_err(cv)
    }
    fn end(self) -> Result<X::Ok, AdErr> {
        self.0.end().map_err(cv)
    }
}
impl<X: ser::SerializeTupleVariant> ser::SerializeTupleVariant for Ad<X> {
    type Ok = X::Ok;
    type Error = AdErr;
    fn serialize_field<T: Serialize + ?Sized>(&mut self, v: &T) -> Result<(), AdErr> {
        self.0.serialize_field(v).map_err(cv)
    }
    fn end(self) -> Result<X::Ok, AdErr> {
        self.0.end().map_err(cv)
    }
}
impl<X: ser::SerializeMap> ser::SerializeMap for Ad<X> {
    type Ok = X::Ok;
    type Error = AdErr;
    fn serialize_key<T: Serialize + ?Sized>(&mut self, k: &T) -> Result<(), AdErr> {
        self.0.serialize_key(k).map_err(cv)
    }
    fn serialize_value<T: Serialize + ?Sized>(&mut self, v: &T) -> Result<(), AdErr> {
        self.0.serialize_value(v).map_err(cv)
    }
    fn end(self) -> Result<X::Ok, AdErr> {
        self.0.end().map_err(cv)
    }
}
impl<X: ser::SerializeStruct> ser::SerializeStruct for Ad<X> {
    type Ok = X::Ok;
    type Error = AdErr;
    fn serialize_field<T: Serialize + ?Sized>(&mut self, k: &'static str, v: &T) -> Result<(), AdErr> {
        self.0.serialize_field(k, v).map_err(cv)
    }
    fn end(self) -> Result<X::Ok, AdErr> {
        self.0.end().map_err(cv)
    }
}
impl<X: ser::SerializeStructVariant> ser::SerializeStructVariant for Ad<X> {
    type Ok = X::Ok;
    type Error = AdErr;
    fn serialize_field<T: Serialize + ?Sized>(&mut self, k: &'static str, v: &T) -> Result<(), AdErr> {
        self.0.serialize_field(k, v).map_err(cv)
    }
    fn end(self) -> Result<X::Ok, AdErr> {
        self.0.end().map_err(cv)
    }
}

/// `Serialize` = "compile `src` with `compile_to_bytecode` into whatever serializer asks".
struct CompileJob<'a> {
    vm: &'a RootedThread,
    src: &'a str,
    front_end_error: std::cell::RefCell<Option<gluon::Error>>,
}
impl Serialize for CompileJob<'_> {
    fn serialize<S: Serializer>(&self, s: S) -> Result<S::Ok, S::Error> {
        match futures::executor::block_on(self.vm.compile_to_bytecode(NAME, self.src, Ad(s))) {
            Ok(ok) => Ok(ok),
            Err(gluon::either::Either::Left(e)) => {
                *self.front_end_error.borrow_mut() = Some(e);
                Err(ser::Error::custom("front end refused the program"))
            }
            Err(gluon::either::Either::Right(e)) => Err(ser::Error::custom(e.0)),
        }
    }
}

// ------------------------------------------------------------------------------------------------
#[derive(Clone, Copy, PartialEq, Eq, Debug)]
enum Fmt {
    Json,
    BinVar,
    BinFix,
}
impl Fmt {
    fn name(self) -> &'static str {
        match self {
            Fmt::Json => "json",
            Fmt::BinVar => "bincode-varint",
            Fmt::BinFix => "bincode-fixed",
        }
    }
    fn parse(s: &str) -> Fmt {
        match s {
            "json" => Fmt::Json,
            "bincode-varint" => Fmt::BinVar,
            _ => Fmt::BinFix,
        }
    }
    fn all() -> [Fmt; 3] {
        [Fmt::Json, Fmt::BinVar, Fmt::BinFix]
    }
}
#[derive(Clone, Copy, PartialEq, Eq, Debug)]
enum Api {
    /// `ThreadExt::load_bytecode` followed by `get_global`
    Load,
    /// `Precompiled(de).run_expr`
    Run,
}
impl Api {
    fn name(self) -> &'static str {
        match self {
            Api::Load => "load_bytecode",
            Api::Run => "run_expr",
        }
    }
    fn parse(s: &str) -> Api {
        if s == "load_bytecode" { Api::Load } else { Api::Run }
    }
}

enum CompileError {
    /// parse / typecheck / macro error (or a host panic inside the front end): the program is skipped
    FrontEnd(String),
    /// the serializer refused (e.g. a non-finite float in JSON)
    Ser(String),
}

fn compile(vm: &RootedThread, src: &str, fmt: Fmt) -> Result<Vec<u8>, CompileError> {
    let r = catch_unwind(AssertUnwindSafe(|| -> Result<Vec<u8>, CompileError> {
        match fmt {
            Fmt::Json => {
                let mut buf = Vec::new();
                let r = {
                    let mut ser = serde_json::Serializer::new(&mut buf);
                    futures::executor::block_on(vm.compile_to_bytecode(NAME, src, &mut ser))
                };
                match r {
                    Ok(()) => Ok(buf),
                    Err(gluon::either::Either::Left(e)) => Err(CompileError::FrontEnd(e.to_string())),
                    Err(gluon::either::Either::Right(e)) => Err(CompileError::Ser(e.to_string())),
                }
            }
            Fmt::BinVar | Fmt::BinFix => {
                let job = CompileJob { vm, src, front_end_error: Default::default() };
                let r = if fmt == Fmt::BinVar {
                    bincode::serde::encode_to_vec(&job, bincode::config::standard())
                } else {
                    bincode::serde::encode_to_vec(&job, bincode::config::legacy())
                };
                match r {
                    Ok(b) => Ok(b),
                    Err(e) => match job.front_end_error.borrow_mut().take() {
                        Some(fe) => Err(CompileError::FrontEnd(fe.to_string())),
                        None => Err(CompileError::Ser(e.to_string())),
                    },
                }
            }
        }
    }));
    match r {
        Ok(x) => x,
        Err(p) => Err(CompileError::FrontEnd(format!("host panic: {}", panic_msg(&p)))),
    }
}

fn panic_msg(p: &Box<dyn std::any::Any + Send>) -> String {
    if let Some(s) = p.downcast_ref::<String>() {
        s.clone()
    } else if let Some(s) = p.downcast_ref::<&str>() {
        s.to_string()
    } else {
        "panic".to_string()
    }
}

type Render<'a> = &'a dyn Fn(&gluon::Thread, gluon::vm::Variants<'_>) -> String;

/// What loading (and thereby evaluating) a serialised module gave.
enum Loaded {
    Out(Outcome),
    /// a Rust panic was caught: the vm must not be used any more
    Panic(String),
}

fn load(vm: &RootedThread, fmt: Fmt, api: Api, bytes: &[u8], render: Render) -> Loaded {
    mg::run::log_clear();
    let r = catch_unwind(AssertUnwindSafe(|| -> Result<String, gluon::Error> {
        macro_rules! go {
            ($de_run:expr, $de_load:expr) => {
                match api {
                    Api::Run => {
                        let mut db = vm.get_database();
                        let mut compiler = vm.module_compiler(&mut db);
                        let ev = futures::executor::block_on(Precompiled($de_run).run_expr(&mut compiler, &**vm, NAME, "", ()))?;
                        Ok(render(vm, ev.value.get_variant()))
                    }
                    Api::Load => {
                        futures::executor::block_on(vm.load_bytecode(NAME, $de_load))?;
                        let v: OpaqueValue<RootedThread, Hole> = vm.get_global(NAME)?;
                        Ok(render(vm, v.get_variant()))
                    }
                }
            };
        }
        match fmt {
            Fmt::Json => {
                let mut de1 = serde_json::Deserializer::from_slice(bytes);
                let mut de2 = serde_json::Deserializer::from_reader(std::io::Cursor::new(bytes.to_vec()));
                go!(&mut de1, &mut de2)
            }
            Fmt::BinVar => {
                let mut d1 = bincode::serde::OwnedSerdeDecoder::from_reader(bincode::de::read::SliceReader::new(bytes), bincode::config::standard());
                let mut d2 = bincode::serde::OwnedSerdeDecoder::from_reader(bincode::de::read::SliceReader::new(bytes), bincode::config::standard());
                go!(d1.as_deserializer(), d2.as_deserializer())
            }
            Fmt::BinFix => {
                let mut d1 = bincode::serde::OwnedSerdeDecoder::from_reader(bincode::de::read::SliceReader::new(bytes), bincode::config::legacy());
                let mut d2 = bincode::serde::OwnedSerdeDecoder::from_reader(bincode::de::read::SliceReader::new(bytes), bincode::config::legacy());
                go!(d1.as_deserializer(), d2.as_deserializer())
            }
        }
    }));
    let log = mg::run::log_take();
    match r {
        Ok(Ok(s)) => Loaded::Out(Outcome::Val(s, log)),
        Ok(Err(e)) => Loaded::Out(Outcome::Err(mg::run::classify(&e), log)),
        Err(p) => Loaded::Panic(panic_msg(&p)),
    }
}

fn new_vm(prelude: bool) -> RootedThread {
    mg::run::new_vm_with(&VmOptions { prelude, optimize: None })
}

/// Imports `deps` (module names) so that the globals a serialised module refers to exist.
fn preload(vm: &RootedThread, deps: &[String]) {
    for d in deps {
        let _ = catch_unwind(AssertUnwindSafe(|| {
            let _ = vm.run_expr::<OpaqueValue<RootedThread, Hole>>("dep", &format!("import! {}", d));
        }));
    }
    mg::run::log_clear();
}

// ------------------------------------------------------------------------------------------------
// skeleton (3)

#[derive(Clone, Debug)]
struct SkFn {
    args: u32,
    mss: u32,
    /// instructions as JSON values (externally tagged)
    instrs: Vec<serde_json::Value>,
    inner: Vec<SkFn>,
    strings: Vec<String>,
}

fn sk_of_json(f: &serde_json::Value) -> Result<SkFn, String> {
    let u = |k: &str| -> Result<u32, String> { f.get(k).and_then(|v| v.as_u64()).map(|v| v as u32).ok_or(format!("function without `{}`", k)) };
    let arr = |k: &str| -> Result<&Vec<serde_json::Value>, String> { f.get(k).and_then(|v| v.as_array()).ok_or(format!("function without array `{}`", k)) };
    let mut inner = vec![];
    for g in arr("inner_functions")? {
        inner.push(sk_of_json(g)?);
    }
    let mut strings = vec![];
    for s in arr("strings")? {
        strings.push(s.as_str().ok_or("string constant is not a JSON string")?.to_string());
    }
    Ok(SkFn { args: u("args")?, mss: u("max_stack_size")?, instrs: arr("instructions")?.clone(), inner, strings })
}

/// Model-driver rendering: `fn A M NI instr* NF fn* NS str*`, instr = `Name K (field value)*`
/// (`_` as the field name of a newtype variant; a float as `f<bit pattern>`), str = hex or `-`.
fn sk_model(f: &SkFn, out: &mut String) -> Result<(), String> {
    out.push_str(&format!("fn {} {} {}", f.args, f.mss, f.instrs.len()));
    for i in &f.instrs {
        match i {
            serde_json::Value::String(n) => out.push_str(&format!(" {} 0", n)),
            serde_json::Value::Object(m) if m.len() == 1 => {
                let (n, body) = m.iter().next().unwrap();
                match body {
                    serde_json::Value::Object(fs) => {
                        out.push_str(&format!(" {} {}", n, fs.len()));
                        for (k, v) in fs {
                            out.push_str(&format!(" {} {}", k, num(v)?));
                        }
                    }
                    v => out.push_str(&format!(" {} 1 _ {}", n, num(v)?)),
                }
            }
            other => return Err(format!("unexpected instruction shape {}", other)),
        }
    }
    out.push_str(&format!(" {}", f.inner.len()));
    for g in &f.inner {
        out.push(' ');
        sk_model(g, out)?;
    }
    out.push_str(&format!(" {}", f.strings.len()));
    for s in &f.strings {
        out.push(' ');
        if s.is_empty() { out.push('-') } else { out.push_str(&hex(s.as_bytes())) }
    }
    Ok(())
}

fn num(v: &serde_json::Value) -> Result<String, String> {
    match v {
        serde_json::Value::Number(n) => {
            if let Some(i) = n.as_i64() {
                Ok(i.to_string())
            } else if let Some(u) = n.as_u64() {
                Ok(u.to_string())
            } else {
                // a float field: hand the model its bit pattern
                Ok(format!("f{}", n.as_f64().ok_or("number")?.to_bits()))
            }
        }
        other => Err(format!("instruction field is not a number: {}", other)),
    }
}

fn hex(b: &[u8]) -> String {
    let mut s = String::with_capacity(b.len() * 2);
    for x in b {
        s.push_str(&format!("{:02x}", x));
    }
    s
}
fn unhex(s: &str) -> Vec<u8> {
    (0..s.len() / 2).map(|i| u8::from_str_radix(&s[2 * i..2 * i + 2], 16).unwrap_or(0)).collect()
}

fn benc<T: Serialize>(v: &T, fixed: bool) -> Vec<u8> {
    if fixed { bincode::serde::encode_to_vec(v, bincode::config::legacy()) } else { bincode::serde::encode_to_vec(v, bincode::config::standard()) }.expect("bincode encode")
}

type Instr = gluon::vm::types::Instruction;

fn typed_instrs(f: &SkFn) -> Result<Vec<Instr>, String> {
    serde_json::from_value(serde_json::Value::Array(f.instrs.clone())).map_err(|e| format!("instructions do not deserialise: {}", e))
}

/// The bytes bincode itself produces for the skeleton pieces, assembled in the model's order.
/// `pieces` receives (function number in preorder, kind, bytes) in the serialisation order of the real
/// structs; they must be found, in that order, inside the serialisation of the whole module.
fn real_skeleton_bytes(f: &SkFn, fixed: bool, counter: &mut usize, pieces: &mut Vec<(usize, &'static str, Vec<u8>)>) -> Result<Vec<u8>, String> {
    let me = *counter;
    *counter += 1;
    let instrs = typed_instrs(f)?;
    let mut out = benc(&f.args, fixed);
    out.extend(benc(&f.mss, fixed));
    pieces.push((me, "header", out.clone()));
    let ib = benc(&instrs, fixed);
    // bincode must also read them back
    let back: Vec<Instr> = if fixed {
        bincode::serde::decode_from_slice(&ib, bincode::config::legacy()).map(|x| x.0)
    } else {
        bincode::serde::decode_from_slice(&ib, bincode::config::standard()).map(|x| x.0)
    }
    .map_err(|e| format!("bincode cannot read its own instruction bytes: {}", e))?;
    if back != instrs {
        return Err("bincode round trip of the instruction vector differs".into());
    }
    pieces.push((me, "instructions", ib.clone()));
    out.extend(ib);
    out.extend(benc(&(f.inner.len() as u64), fixed));
    for g in &f.inner {
        out.extend(real_skeleton_bytes(g, fixed, counter, pieces)?);
    }
    let sb = benc(&f.strings, fixed);
    pieces.push((me, "strings", sb.clone()));
    out.extend(sb);
    Ok(out)
}

fn find_from(hay: &[u8], needle: &[u8], from: usize) -> Option<usize> {
    if needle.is_empty() {
        return Some(from);
    }
    if hay.len() < needle.len() || from > hay.len() - needle.len() {
        return None;
    }
    (from..=hay.len() - needle.len()).find(|&i| &hay[i..i + needle.len()] == needle)
}

/// positions of `pieces` (in order, non-overlapping) inside `module`
fn embed(module: &[u8], pieces: &[(usize, &'static str, Vec<u8>)]) -> Option<Vec<usize>> {
    let mut at = 0;
    let mut res = vec![];
    for (_, _, p) in pieces {
        let i = find_from(module, p, at)?;
        res.push(i);
        at = i + p.len();
    }
    Some(res)
}

// ------------------------------------------------------------------------------------------------
// model VM (5): the real serialised module, decoded by the extracted codec and run on the extracted model VM
// (coq/extract/c12vm).  What the codec does not model travels as side information: record field names and the
// module's globals with the value fields of their types.

/// The skeleton bytes cut out of the REAL bincode serialisation of the module, in the skeleton's order:
/// header, instruction vector, number of inner functions (it follows the instruction vector in the real
/// stream), inner functions, strings.
fn slices_from_module(module: &[u8], sk: &SkFn, fixed: bool) -> Option<Vec<u8>> {
    let mut pieces = vec![];
    real_skeleton_bytes(sk, fixed, &mut 0, &mut pieces).ok()?;
    let pos = embed(module, &pieces)?;
    fn go(f: &SkFn, module: &[u8], pieces: &[(usize, &'static str, Vec<u8>)], pos: &[usize], cursor: &mut usize, fixed: bool, out: &mut Vec<u8>) -> Option<()> {
        let h = *cursor;
        out.extend_from_slice(&module[pos[h]..pos[h] + pieces[h].2.len()]);
        let i = h + 1;
        let end_i = pos[i] + pieces[i].2.len();
        out.extend_from_slice(&module[pos[i]..end_i]);
        *cursor += 2;
        let lp = benc(&(f.inner.len() as u64), fixed);
        if !module[end_i..].starts_with(&lp) {
            return None;
        }
        out.extend_from_slice(&module[end_i..end_i + lp.len()]);
        for g in &f.inner {
            go(g, module, pieces, pos, cursor, fixed, out)?;
        }
        let st = *cursor;
        out.extend_from_slice(&module[pos[st]..pos[st] + pieces[st].2.len()]);
        *cursor += 1;
        Some(())
    }
    let mut out = vec![];
    go(sk, module, &pieces, &pos, &mut 0, fixed, &mut out)?;
    Some(out)
}

/// base/src/symbol.rs `Name::declared_name`: no leading `@`, no `@line_col` suffix, last dotted component
fn declared_name(n: &str) -> String {
    let n = n.strip_prefix('@').unwrap_or(n);
    let n = match n.bytes().rposition(|b| (b < b'0' || b > b'9') && b != b'_') {
        Some(i) if n.as_bytes()[i] == b'@' => &n[..i],
        _ => n,
    };
    n.rsplit('.').next().unwrap_or(n).to_string()
}

/// ids of the shared symbols of a JSON serialisation: every `{"Marked":[id, "name"]}` in document order
fn symbol_table(n: &JNode, text: &[u8], out: &mut BTreeMap<u64, String>) {
    match &n.kind {
        JKind::Obj(fs) => {
            if fs.len() == 1 && fs[0].0 == "Marked" {
                if let (Some(id), Some(name)) = (fs[0].1.at(0), fs[0].1.at(1)) {
                    if let JKind::Str = name.kind {
                        if let (Ok(id), Ok(name)) = (String::from_utf8_lossy(id.text(text)).parse::<u64>(), serde_json::from_slice::<String>(name.text(text))) {
                            out.insert(id, name);
                        }
                    }
                }
            }
            for (_, v) in fs {
                symbol_table(v, text, out);
            }
        }
        JKind::Arr(a) => {
            for v in a {
                symbol_table(v, text, out);
            }
        }
        _ => {}
    }
}

fn symbol_name(n: &JNode, text: &[u8], table: &BTreeMap<u64, String>) -> Option<String> {
    if let Some(p) = jsymbol_name(n) {
        return serde_json::from_slice::<String>(p.text(text)).ok();
    }
    let r = n.get("Reference")?;
    let id = String::from_utf8_lossy(r.text(text)).parse::<u64>().ok()?;
    table.get(&id).cloned()
}

fn hexname(s: &str) -> String {
    if s.is_empty() { "-".into() } else { hex(s.as_bytes()) }
}

/// `nrec { k { name } } ninner { rtree }` for the function node `f`
fn records_tree(f: &JNode, text: &[u8], table: &BTreeMap<u64, String>, out: &mut String) -> Option<()> {
    let recs = f.get("records")?;
    out.push_str(&format!("{}", recs.len()));
    for k in 0..recs.len() {
        let r = recs.at(k)?;
        out.push_str(&format!(" {}", r.len()));
        for j in 0..r.len() {
            let name = symbol_name(r.at(j)?, text, table)?;
            out.push(' ');
            out.push_str(&hexname(&declared_name(&name)));
        }
    }
    let inner = f.get("inner_functions")?;
    out.push_str(&format!(" {}", inner.len()));
    for k in 0..inner.len() {
        out.push(' ');
        records_tree(inner.at(k)?, text, table, out)?;
    }
    Some(())
}

/// `n { global-name k { field } }`: the module's globals in order (they are the upvariables of the top-level
/// function) with the value fields of their record types in type order (as harness/src/mg/bytecode.rs does)
fn globals_line(vm: &RootedThread, root: &JNode, text: &[u8], table: &BTreeMap<u64, String>) -> Option<String> {
    use gluon::base::types::TypeExt;
    let gs = root.get("module")?.get("module_globals")?;
    let mut out = format!("{}", gs.len());
    for k in 0..gs.len() {
        let name = symbol_name(gs.at(k)?, text, table)?;
        let gname = name.trim_start_matches('@').to_string();
        let mut fields: Vec<String> = vec![];
        if let Ok(t) = vm.get_global_type(&gname) {
            let t = gluon::base::resolve::remove_aliases(&vm.get_env(), &mut gluon::base::types::NullInterner, t);
            for field in t.remove_forall().row_iter() {
                fields.push(field.name.declared_name().to_string());
            }
        }
        out.push_str(&format!(" {} {}", hexname(&gname), fields.len()));
        for f in fields {
            out.push(' ');
            out.push_str(&hexname(&f));
        }
    }
    Some(out)
}

// ------------------------------------------------------------------------------------------------
// corruptions (4)

#[derive(Clone, Debug)]
struct Corrupt {
    /// `truncated` | `corrupt:<field class>`
    class: String,
    detail: String,
    bytes: Vec<u8>,
}

fn truncations(bytes: &[u8]) -> Vec<Corrupt> {
    let n = bytes.len();
    let mut cuts: Vec<usize> = (0..64).map(|k| n * k / 64).collect();
    cuts.push(n.saturating_sub(1));
    cuts.sort();
    cuts.dedup();
    cuts.into_iter().filter(|c| *c < n).map(|c| Corrupt { class: "truncated".into(), detail: format!("first {} of {} bytes", c, n), bytes: bytes[..c].to_vec() }).collect()
}

// ---- a JSON reader that keeps byte spans and key order (serde_json::Value sorts object keys; the shared-node
// scheme of gluon's serialisation — {"Marked":[id, x]} before {"Reference": id} — depends on the order, so
// corruptions are spliced into the ORIGINAL text) ----
enum JKind {
    Obj(Vec<(String, JNode)>),
    Arr(Vec<JNode>),
    Str,
    Other,
}
struct JNode {
    start: usize,
    end: usize,
    kind: JKind,
}
impl JNode {
    fn get(&self, key: &str) -> Option<&JNode> {
        match &self.kind {
            JKind::Obj(fs) => fs.iter().find(|(k, _)| k == key).map(|(_, v)| v),
            _ => None,
        }
    }
    fn at(&self, i: usize) -> Option<&JNode> {
        match &self.kind {
            JKind::Arr(a) => a.get(i),
            _ => None,
        }
    }
    fn len(&self) -> usize {
        match &self.kind {
            JKind::Arr(a) => a.len(),
            JKind::Obj(o) => o.len(),
            _ => 0,
        }
    }
    fn text<'a>(&self, t: &'a [u8]) -> &'a [u8] {
        &t[self.start..self.end]
    }
}
struct JParser<'a> {
    t: &'a [u8],
    i: usize,
}
impl<'a> JParser<'a> {
    fn ws(&mut self) {
        while self.i < self.t.len() && (self.t[self.i] as char).is_ascii_whitespace() {
            self.i += 1;
        }
    }
    fn string(&mut self) -> Option<String> {
        // at an opening quote; returns the raw (still escaped) content
        let s = self.i + 1;
        let mut j = s;
        while j < self.t.len() && self.t[j] != b'"' {
            if self.t[j] == b'\\' {
                j += 1;
            }
            j += 1;
        }
        if j >= self.t.len() {
            return None;
        }
        self.i = j + 1;
        Some(String::from_utf8_lossy(&self.t[s..j]).into_owned())
    }
    fn value(&mut self) -> Option<JNode> {
        self.ws();
        let start = self.i;
        match *self.t.get(self.i)? {
            b'{' => {
                self.i += 1;
                let mut fs = vec![];
                loop {
                    self.ws();
                    match *self.t.get(self.i)? {
                        b'}' => {
                            self.i += 1;
                            break;
                        }
                        b',' => self.i += 1,
                        b'"' => {
                            let k = self.string()?;
                            self.ws();
                            if *self.t.get(self.i)? != b':' {
                                return None;
                            }
                            self.i += 1;
                            let v = self.value()?;
                            fs.push((k, v));
                        }
                        _ => return None,
                    }
                }
                Some(JNode { start, end: self.i, kind: JKind::Obj(fs) })
            }
            b'[' => {
                self.i += 1;
                let mut a = vec![];
                loop {
                    self.ws();
                    match *self.t.get(self.i)? {
                        b']' => {
                            self.i += 1;
                            break;
                        }
                        b',' => self.i += 1,
                        _ => a.push(self.value()?),
                    }
                }
                Some(JNode { start, end: self.i, kind: JKind::Arr(a) })
            }
            b'"' => {
                self.string()?;
                Some(JNode { start, end: self.i, kind: JKind::Str })
            }
            _ => {
                while self.i < self.t.len() && !matches!(self.t[self.i], b',' | b'}' | b']') && !(self.t[self.i] as char).is_ascii_whitespace() {
                    self.i += 1;
                }
                if self.i == start {
                    return None;
                }
                Some(JNode { start, end: self.i, kind: JKind::Other })
            }
        }
    }
}
fn jparse(t: &[u8]) -> Option<JNode> {
    JParser { t, i: 0 }.value()
}

/// all function nodes of the module, preorder
fn jfns<'a>(f: &'a JNode, out: &mut Vec<&'a JNode>) {
    out.push(f);
    if let Some(JKind::Arr(inner)) = f.get("inner_functions").map(|n| &n.kind) {
        for g in inner {
            jfns(g, out);
        }
    }
}

/// the string scalar naming a symbol: {"Plain": name} | {"Marked": [id, name]}
fn jsymbol_name(n: &JNode) -> Option<&JNode> {
    if let Some(p) = n.get("Plain") {
        return Some(p);
    }
    n.get("Marked").and_then(|m| m.at(1)).filter(|x| matches!(x.kind, JKind::Str))
}

fn jfirst_reference(n: &JNode) -> Option<&JNode> {
    match &n.kind {
        JKind::Obj(fs) => {
            if fs.len() == 1 && fs[0].0 == "Reference" {
                return Some(&fs[0].1);
            }
            fs.iter().find_map(|(_, v)| jfirst_reference(v))
        }
        JKind::Arr(a) => a.iter().find_map(jfirst_reference),
        _ => None,
    }
}

const BIG: u64 = 1_000_000_007;

fn json_corruptions(text: &[u8], rng: &mut Rng) -> Vec<Corrupt> {
    let mut res = vec![];
    let root = match jparse(text) {
        Some(r) => r,
        None => return res,
    };
    let splice = |n: &JNode, new: &str| -> Vec<u8> {
        let mut b = text[..n.start].to_vec();
        b.extend_from_slice(new.as_bytes());
        b.extend_from_slice(&text[n.end..]);
        b
    };
    let mut emit = |class: &str, detail: String, bytes: Vec<u8>| {
        res.push(Corrupt { class: format!("corrupt:{}", class), detail, bytes });
    };
    let function = match root.get("module").and_then(|m| m.get("function")) {
        Some(f) => f,
        None => return res,
    };
    let mut fns = vec![];
    jfns(function, &mut fns);
    // instruction fields: for every (variant, field) that occurs, one occurrence chosen at random
    {
        let mut occ: BTreeMap<(String, String), Vec<&JNode>> = BTreeMap::new();
        let mut where_: BTreeMap<usize, (usize, usize)> = BTreeMap::new();
        for (fi, f) in fns.iter().enumerate() {
            if let Some(JKind::Arr(is)) = f.get("instructions").map(|n| &n.kind) {
                for (ii, i) in is.iter().enumerate() {
                    if let JKind::Obj(m) = &i.kind {
                        if let Some((n, body)) = m.first() {
                            match &body.kind {
                                JKind::Obj(fs) => {
                                    for (k, v) in fs {
                                        occ.entry((n.clone(), k.clone())).or_default().push(v);
                                        where_.insert(v.start, (fi, ii));
                                    }
                                }
                                JKind::Other => {
                                    let t = body.text(text);
                                    if !t.contains(&b'.') && !t.contains(&b'e') && t != b"null" {
                                        occ.entry((n.clone(), String::new())).or_default().push(body);
                                        where_.insert(body.start, (fi, ii));
                                    }
                                }
                                _ => {}
                            }
                        }
                    }
                }
            }
        }
        for ((variant, field), places) in occ {
            if variant == "PushInt" || variant == "PushByte" {
                continue; // any value of these is a legal operand
            }
            let node = places[rng.below(places.len() as u64) as usize];
            let (fi, ii) = where_[&node.start];
            let fname = if field.is_empty() { variant.clone() } else { format!("{}.{}", variant, field) };
            emit(&format!("instr-index:{}", fname), format!("function #{} instruction #{}: {} := {}", fi, ii, fname, BIG), splice(node, &BIG.to_string()));
        }
    }
    // a variant name the instruction set does not have / an instruction replaced by a number
    if let Some(is) = function.get("instructions") {
        if is.len() > 0 {
            let ii = rng.below(is.len() as u64) as usize;
            let node = is.at(ii).unwrap();
            let old = String::from_utf8_lossy(node.text(text)).into_owned();
            // the first quoted name in the element is the variant name
            if let Some(q) = old[1..].find('"').filter(|_| old.starts_with('"') || old.starts_with("{\"")) {
                let close = if old.starts_with('"') { q + 1 } else { old[2..].find('"').map(|x| x + 2).unwrap_or(q + 1) };
                let mut new = old.clone();
                new.insert(close, 'X');
                emit("variant-name", format!("function #0 instruction #{} renamed: {}", ii, new), splice(node, &new));
            }
            emit("instruction-as-number", format!("function #0 instruction #{} := 7", ii), splice(node, "7"));
        }
    }
    // unknown global
    if let Some(g) = root.get("module").and_then(|m| m.get("module_globals")).and_then(|g| g.at(0)).and_then(jsymbol_name) {
        emit("global-name", "module_globals[0] := @no.such.module".into(), splice(g, "\"@no.such.module\""));
    }
    // module name
    if let Some(n) = function.get("id").and_then(jsymbol_name) {
        emit("module-name", "function.id := someone_else".into(), splice(n, "\"someone_else\""));
    }
    // a string replaced by a number
    for (fi, f) in fns.iter().enumerate() {
        if let Some(s0) = f.get("strings").and_then(|s| s.at(0)) {
            emit("string-as-number", format!("function #{} strings[0] := 42", fi), splice(s0, "42"));
            break;
        }
    }
    if let Some(n) = function.get("debug_info").and_then(|d| d.get("source_name")) {
        emit("string-as-number", "function.debug_info.source_name := 7".into(), splice(n, "7"));
    }
    // sizes
    if let Some(n) = function.get("max_stack_size") {
        emit("max_stack_size", "function.max_stack_size := 0".into(), splice(n, "0"));
    }
    if let Some(n) = function.get("args") {
        emit("args", "function.args := 3".into(), splice(n, "3"));
        emit("number-out-of-range", "function.args := -1".into(), splice(n, "-1"));
        emit("number-out-of-range", "function.args := 4294967296".into(), splice(n, "4294967296"));
    }
    // a shared-node reference that was never defined
    if let Some(r) = root.get("module").and_then(jfirst_reference) {
        emit("shared-reference", "first {\"Reference\": n} inside module := 987654".into(), splice(r, "987654"));
    }
    if let Some(t) = root.get("typ") {
        emit("shared-reference", "typ := dangling reference".into(), splice(t, "{\"Reference\":987654}"));
    }
    // a record field list emptied
    if let Some(r0) = function.get("records").and_then(|r| r.at(0)) {
        emit("record-fields", "function.records[0] := []".into(), splice(r0, "[]"));
    }
    // a field renamed away (the struct then lacks `instructions`)
    if function.get("instructions").is_some() {
        let key = b"\"instructions\":";
        if let Some(at) = find_from(text, key, function.start) {
            let mut b = text.to_vec();
            b[at + 1] = b'j';
            emit("missing-field", "function.instructions renamed to jnstructions".into(), b);
        }
    }
    res
}

fn flat<'a>(f: &'a SkFn, out: &mut Vec<&'a SkFn>) {
    out.push(f);
    for g in &f.inner {
        flat(g, out);
    }
}

/// Single-field corruptions of a bincode serialisation.  The instruction vectors are located inside the module
/// bytes (`embed`), mutated as typed values or byte-patched, re-encoded and spliced back.
fn bincode_corruptions(module: &[u8], sk: &SkFn, fixed: bool, deps: &[String], rng: &mut Rng) -> Vec<Corrupt> {
    let mut res = vec![];
    let mut pieces = vec![];
    if real_skeleton_bytes(sk, fixed, &mut 0, &mut pieces).is_err() {
        return res;
    }
    let pos = match embed(module, &pieces) {
        Some(p) => p,
        None => return res,
    };
    // piece number of (function, kind)
    let piece_of = |f: usize, kind: &str| -> usize { pieces.iter().position(|(pf, k, _)| *pf == f && *k == kind).unwrap() };
    let splice = |at: usize, old_len: usize, new: &[u8]| -> Vec<u8> {
        let mut b = module[..at].to_vec();
        b.extend_from_slice(new);
        b.extend_from_slice(&module[at + old_len..]);
        b
    };
    let mut fns = vec![];
    flat(sk, &mut fns);
    // typed mutations: one per (variant, field) that occurs, at a random occurrence
    use gluon::vm::types::Instruction as I;
    let mut seen: HashSet<String> = HashSet::new();
    let mut order: Vec<(usize, usize)> = vec![];
    for (fi, f) in fns.iter().enumerate() {
        for ii in 0..f.instrs.len() {
            order.push((fi, ii));
        }
    }
    for k in (1..order.len()).rev() {
        let j = rng.below(k as u64 + 1) as usize;
        order.swap(k, j);
    }
    let typed: Vec<Vec<I>> = fns.iter().map(|f| typed_instrs(f).unwrap_or_default()).collect();
    for (fi, ii) in order {
        let instrs = &typed[fi];
        if ii >= instrs.len() {
            continue;
        }
        let big = BIG as u32;
        let muts: Vec<(&str, I)> = match instrs[ii] {
            I::PushString(_) => vec![("PushString", I::PushString(big))],
            I::PushUpVar(_) => vec![("PushUpVar", I::PushUpVar(big))],
            I::Push(_) => vec![("Push", I::Push(big))],
            I::Call(_) => vec![("Call", I::Call(big))],
            I::TailCall(_) => vec![("TailCall", I::TailCall(big))],
            I::ConstructVariant { tag, args } => vec![("ConstructVariant.args", I::ConstructVariant { tag, args: big }), ("ConstructVariant.tag", I::ConstructVariant { tag: big, args })],
            I::ConstructPolyVariant { tag, args } => vec![("ConstructPolyVariant.args", I::ConstructPolyVariant { tag, args: big }), ("ConstructPolyVariant.tag", I::ConstructPolyVariant { tag: big, args })],
            I::NewVariant { tag, args } => vec![("NewVariant.args", I::NewVariant { tag, args: big }), ("NewVariant.tag", I::NewVariant { tag: big, args })],
            I::NewRecord { record, args } => vec![("NewRecord.args", I::NewRecord { record, args: big }), ("NewRecord.record", I::NewRecord { record: big, args })],
            I::CloseData { .. } => vec![("CloseData.index", I::CloseData { index: big })],
            I::ConstructRecord { record, args } => vec![("ConstructRecord.args", I::ConstructRecord { record, args: big }), ("ConstructRecord.record", I::ConstructRecord { record: big, args })],
            I::ConstructArray(_) => vec![("ConstructArray", I::ConstructArray(big))],
            I::GetOffset(_) => vec![("GetOffset", I::GetOffset(big))],
            I::GetField(_) => vec![("GetField", I::GetField(big))],
            I::TestTag(_) => vec![("TestTag", I::TestTag(big))],
            I::TestPolyTag(_) => vec![("TestPolyTag", I::TestPolyTag(big))],
            I::Jump(_) => vec![("Jump", I::Jump(big))],
            I::CJump(_) => vec![("CJump", I::CJump(big))],
            I::Pop(_) => vec![("Pop", I::Pop(big))],
            I::Slide(_) => vec![("Slide", I::Slide(big))],
            I::MakeClosure { function_index, upvars } => vec![("MakeClosure.function_index", I::MakeClosure { function_index: big, upvars }), ("MakeClosure.upvars", I::MakeClosure { function_index, upvars: big })],
            I::NewClosure { function_index, upvars } => vec![("NewClosure.function_index", I::NewClosure { function_index: big, upvars }), ("NewClosure.upvars", I::NewClosure { function_index, upvars: big })],
            I::CloseClosure(_) => vec![("CloseClosure", I::CloseClosure(big))],
            _ => vec![],
        };
        for (name, m) in muts {
            if !seen.insert(name.to_string()) {
                continue;
            }
            let mut v = instrs.clone();
            v[ii] = m;
            let pi = piece_of(fi, "instructions");
            res.push(Corrupt {
                class: format!("corrupt:instr-index:{}", name),
                detail: format!("function #{} instruction #{}: {} := {}", fi, ii, name, BIG),
                bytes: splice(pos[pi], pieces[pi].2.len(), &benc(&v, fixed)),
            });
        }
    }
    // wrong variant index: patch the index bytes of one instruction of the top-level function
    {
        let instrs = &typed[0];
        if !instrs.is_empty() {
            let ii = rng.below(instrs.len() as u64) as usize;
            let pi = piece_of(0, "instructions");
            let body: usize = instrs.iter().map(|i| benc(i, fixed).len()).sum();
            let len_prefix = pieces[pi].2.len() - body;
            let off = pos[pi] + len_prefix + instrs[..ii].iter().map(|i| benc(i, fixed).len()).sum::<usize>();
            let mut b = module.to_vec();
            if fixed {
                b[off..off + 4].copy_from_slice(&0xfffffff0u32.to_le_bytes());
            } else {
                b[off] = 250; // a one-byte varint: variant 250 does not exist
            }
            res.push(Corrupt { class: "corrupt:variant-index".into(), detail: format!("function #0 instruction #{}: variant index out of range", ii), bytes: b });
        }
    }
    // sequence length prefix of the top-level instruction vector: claims far more elements than there are bytes
    {
        let pi = piece_of(0, "instructions");
        let old = benc(&(sk.instrs.len() as u64), fixed);
        let new = benc(&(1u64 << 60), fixed);
        if module[pos[pi]..].starts_with(&old) {
            res.push(Corrupt { class: "corrupt:seq-length".into(), detail: "instruction vector length := 2^60".into(), bytes: splice(pos[pi], old.len(), &new) });
        }
    }
    // header: max_stack_size := 0, args := 3
    {
        let hi = piece_of(0, "header");
        let enc2 = |a: u32, m: u32| -> Vec<u8> {
            let mut o = benc(&a, fixed);
            o.extend(benc(&m, fixed));
            o
        };
        res.push(Corrupt { class: "corrupt:max_stack_size".into(), detail: "function.max_stack_size := 0".into(), bytes: splice(pos[hi], pieces[hi].2.len(), &enc2(sk.args, 0)) });
        res.push(Corrupt { class: "corrupt:args".into(), detail: "function.args := 3".into(), bytes: splice(pos[hi], pieces[hi].2.len(), &enc2(3, sk.mss)) });
    }
    // names: same-length substitutions keep every length prefix valid
    for d in deps.iter().take(1) {
        let needle = format!("@{}", d);
        if let Some(at) = find_from(module, needle.as_bytes(), 0) {
            let mut b = module.to_vec();
            let last = at + needle.len() - 1;
            b[last] = if b[last] == b'x' { b'y' } else { b'x' };
            res.push(Corrupt { class: "corrupt:global-name".into(), detail: format!("{} renamed (last byte)", needle), bytes: b });
        }
    }
    if let Some(at) = find_from(module, NAME.as_bytes(), 0) {
        let mut b = module.to_vec();
        b[at] = b'x';
        res.push(Corrupt { class: "corrupt:module-name".into(), detail: "first occurrence of the module name renamed".into(), bytes: b });
    }
    // a string constant made invalid UTF-8
    for (fi, f) in fns.iter().enumerate() {
        if f.strings.iter().any(|s| !s.is_empty()) {
            let pi = piece_of(fi, "strings");
            let first = f.strings.iter().find(|s| !s.is_empty()).unwrap();
            if let Some(at) = find_from(module, first.as_bytes(), pos[pi]) {
                let mut b = module.to_vec();
                b[at] = 0xff;
                res.push(Corrupt { class: "corrupt:string-bytes".into(), detail: format!("function #{}: first byte of a string constant := 0xff", fi), bytes: b });
                break;
            }
        }
    }
    res
}

// ------------------------------------------------------------------------------------------------
// child process: `c12 child` reads jobs `<id> <payload|same> <api> <fmt> <bare|deps> <dep,dep,..|-> <prelude 0|1> <hex>`,
// answers `<id> READY` once its VM exists and the dependencies are imported (the watchdog starts then), and then
// `<id> <canonical outcome>` or `<id> PANIC <message>` (and exits: locks may be poisoned).
// `payload`: the hex is a serialised module; `same`: the hex is a source text which the child compiles with
// `compile_to_bytecode` and loads into the very same VM.

fn child_main() {
    // panics are reported through the protocol, not on stderr
    std::panic::set_hook(Box::new(|_| {}));
    let stdin = std::io::stdin();
    let mut vms: BTreeMap<bool, RootedThread> = BTreeMap::new();
    let mut loaded: HashSet<(bool, String)> = HashSet::new();
    for line in stdin.lock().lines() {
        let line = match line {
            Ok(l) => l,
            Err(_) => break,
        };
        let p: Vec<&str> = line.split(' ').collect();
        if p.len() != 8 {
            continue;
        }
        let (id, same, api, fmt, bare, deps, prelude, payload) = (p[0], p[1] == "same", Api::parse(p[2]), Fmt::parse(p[3]), p[4] == "bare", p[5], p[6] == "1", unhex(p[7]));
        let vm = if bare {
            new_vm(prelude)
        } else {
            let vm = vms.entry(prelude).or_insert_with(|| new_vm(prelude)).clone();
            let ds: Vec<String> = if deps == "-" { vec![] } else { deps.split(',').map(|s| s.to_string()).collect() };
            let missing: Vec<String> = ds.into_iter().filter(|d| loaded.insert((prelude, d.clone()))).collect();
            preload(&vm, &missing);
            vm
        };
        let out = std::io::stdout();
        let mut out = out.lock();
        let payload = if same {
            match compile(&vm, &String::from_utf8_lossy(&payload), fmt) {
                Ok(b) => b,
                Err(CompileError::FrontEnd(m)) | Err(CompileError::Ser(m)) => {
                    writeln!(out, "{} READY", id).ok();
                    writeln!(out, "{} COMPILE-ERROR {}", id, m.replace('\n', " | ")).ok();
                    out.flush().ok();
                    continue;
                }
            }
        } else {
            payload
        };
        writeln!(out, "{} READY", id).ok();
        out.flush().ok();
        let r = load(&vm, fmt, api, &payload, &|t, v| mg::value::canon(t, v));
        match r {
            Loaded::Out(o) => {
                writeln!(out, "{} {}", id, o.canonical()).ok();
                out.flush().ok();
            }
            Loaded::Panic(m) => {
                writeln!(out, "{} PANIC {}", id, m.replace('\n', " | ")).ok();
                out.flush().ok();
                std::mem::forget(vm);
                std::process::exit(3);
            }
        }
    }
}

struct Child {
    proc: std::process::Child,
    stdin: std::process::ChildStdin,
    rx: mpsc::Receiver<String>,
}

fn spawn_child() -> Child {
    // address-space cap: a corrupted count must not be able to eat the machine's memory (an allocation failure
    // aborts the child, which is then reported as a crash of that input)
    let exe = std::env::current_exe().unwrap();
    let mut proc = std::process::Command::new("sh")
        .arg("-c")
        .arg("ulimit -v 2500000; exec \"$0\" child")
        .arg(&exe)
        .stdin(std::process::Stdio::piped())
        .stdout(std::process::Stdio::piped())
        .stderr(std::process::Stdio::null())
        .spawn()
        .expect("spawn child");
    let stdin = proc.stdin.take().unwrap();
    let stdout = proc.stdout.take().unwrap();
    let (tx, rx) = mpsc::channel();
    std::thread::spawn(move || {
        for l in std::io::BufReader::new(stdout).lines() {
            match l {
                Ok(l) => {
                    if tx.send(l).is_err() {
                        break;
                    }
                }
                Err(_) => break,
            }
        }
    });
    Child { proc, stdin, rx }
}

#[derive(Clone, Debug)]
struct Job {
    prog: usize,
    /// `bytes` is a source text to be compiled and loaded in one and the same (child) VM
    same: bool,
    /// for unmodified modules: the canonical outcome of the source
    expect: Option<String>,
    fmt: Fmt,
    api: Api,
    bare: bool,
    prelude: bool,
    deps: Vec<String>,
    class: String,
    detail: String,
    bytes: Vec<u8>,
}

#[derive(Clone, Debug)]
enum JobResult {
    /// the child answered with a canonical outcome
    Outcome(String),
    Panic(String),
    /// the child died (signal / abort / exit without answer)
    Died(String),
    Hang,
    /// not run: the same entry point and format already hung repeatedly in this run
    Skipped,
}

fn run_job(child: &mut Option<Child>, job: &Job, id: u64, watchdog: Duration) -> JobResult {
    if child.is_none() {
        *child = Some(spawn_child());
    }
    let c = child.as_mut().unwrap();
    let deps = if job.deps.is_empty() { "-".to_string() } else { job.deps.join(",") };
    let line = format!("{} {} {} {} {} {} {} {}\n", id, if job.same { "same" } else { "payload" }, job.api.name(), job.fmt.name(), if job.bare { "bare" } else { "deps" }, deps, if job.prelude { 1 } else { 0 }, hex(&job.bytes));
    if c.stdin.write_all(line.as_bytes()).and_then(|_| c.stdin.flush()).is_err() {
        let st = c.proc.wait().map(|s| s.to_string()).unwrap_or_default();
        *child = None;
        return JobResult::Died(format!("child not accepting input ({})", st));
    }
    // creating the VM / importing dependencies / compiling is not what the watchdog is about
    let mut deadline = Instant::now() + Duration::from_secs(300);
    loop {
        let left = deadline.saturating_duration_since(Instant::now());
        match c.rx.recv_timeout(left) {
            Ok(l) => {
                let (rid, rest) = l.split_once(' ').unwrap_or((&l, ""));
                if rid != id.to_string() {
                    continue;
                }
                if rest == "READY" {
                    deadline = Instant::now() + watchdog;
                    continue;
                }
                if let Some(m) = rest.strip_prefix("PANIC ") {
                    let _ = c.proc.wait();
                    *child = None;
                    return JobResult::Panic(m.to_string());
                }
                return JobResult::Outcome(rest.to_string());
            }
            Err(mpsc::RecvTimeoutError::Timeout) => {
                let _ = c.proc.kill();
                let _ = c.proc.wait();
                *child = None;
                return JobResult::Hang;
            }
            Err(mpsc::RecvTimeoutError::Disconnected) => {
                let st = c.proc.wait().map(|s| s.to_string()).unwrap_or_default();
                *child = None;
                return JobResult::Died(st);
            }
        }
    }
}

// ------------------------------------------------------------------------------------------------

struct Finding {
    key: String,
    what: String,
    case: serde_json::Value,
    expected: String,
    observed: String,
    count: u64,
}

#[derive(Default)]
struct Findings(BTreeMap<String, Finding>);
impl Findings {
    fn add(&mut self, key: &str, what: String, case: serde_json::Value, expected: &str, observed: &str) {
        let e = self.0.entry(key.to_string()).or_insert(Finding { key: key.to_string(), what, case, expected: expected.to_string(), observed: observed.to_string(), count: 0 });
        e.count += 1;
    }
}

struct Case {
    family: String,
    source: String,
    prelude: bool,
    program: Option<Program>,
}

fn deps_of(tree: &serde_json::Value) -> Vec<String> {
    let mut v = vec![];
    if let Some(gs) = tree["module"]["module_globals"].as_array() {
        for g in gs {
            let name = g.get("Plain").and_then(|x| x.as_str()).or_else(|| g.get("Marked").and_then(|m| m.get(1)).and_then(|x| x.as_str()));
            if let Some(n) = name {
                let n = n.trim_start_matches('@');
                if !n.is_empty() && n.chars().all(|c| c.is_alphanumeric() || c == '.' || c == '_') {
                    v.push(n.to_string());
                }
            }
        }
    }
    v
}

fn is_load_error(o: &Outcome) -> bool {
    matches!(o, Outcome::Err(ErrKind::Other(_), _))
}

fn main() {
    if std::env::args().nth(1).as_deref() == Some("child") {
        child_main();
        return;
    }
    let args = Args::parse();
    if let Some(path) = args.replay.clone() {
        replay(&path);
        return;
    }
    if let Some(src) = args.extra.get("probe") {
        probe(src);
        return;
    }
    let t_start = Instant::now();
    let thorough = args.thorough();
    let n_gen: usize = args.extra.get("programs").and_then(|s| s.parse().ok()).unwrap_or(if thorough { 10000 } else { 400 });
    // robustness is run for every `robust_every`-th program
    let robust_every: usize = args.extra.get("robust_every").and_then(|s| s.parse().ok()).unwrap_or(if thorough { 40 } else { 30 });
    let max_operand: usize = args.extra.get("max_operand").and_then(|s| s.parse().ok()).unwrap_or(if thorough { 8 } else { 3 });
    let workers: usize = args.extra.get("workers").and_then(|s| s.parse().ok()).unwrap_or(if thorough { 12 } else { 6 });
    let watchdog = Duration::from_secs(args.extra.get("watchdog").and_then(|s| s.parse().ok()).unwrap_or(if thorough { 15 } else { 4 }));

    // ---- cases: corpus first, then generated programs in both styles ----
    let mut cases: Vec<Case> = vec![];
    let verif = std::env::var("VERIF_ROOT").unwrap_or_else(|_| "/verif".into());
    let repo = std::env::var("GLUON_REPO").unwrap_or_else(|_| "/repo".into());
    if let Ok(rd) = std::fs::read_dir(format!("{}/corpus/C12", verif)) {
        let mut files: Vec<_> = rd.filter_map(|e| e.ok()).map(|e| e.path()).filter(|p| p.extension().map(|e| e == "glu").unwrap_or(false)).collect();
        files.sort();
        for f in files {
            let src = std::fs::read_to_string(&f).unwrap_or_default();
            let prelude = !src.contains("// c12: no-prelude");
            cases.push(Case { family: format!("corpus:{}", f.file_name().unwrap().to_string_lossy()), source: src, prelude, program: None });
        }
    }
    let std_files: &[&str] = if thorough {
        &["map", "list", "option", "result", "string", "char", "int", "float", "bool", "unit", "array", "functor", "monoid", "foldable", "state", "writer", "lazy", "stream", "parser", "json/de"]
    } else {
        &["map", "list"]
    };
    if args.extra.get("std").map(|s| s != "0").unwrap_or(true) {
        for m in std_files {
            if let Ok(src) = std::fs::read_to_string(format!("{}/std/{}.glu", repo, m)) {
                cases.push(Case { family: format!("std:{}", m), source: src, prelude: true, program: None });
            }
        }
    }
    let mut rng = Rng::new(args.seed);
    let mut cfg = GenConfig::default();
    cfg.features.floats = true;
    cfg.features.multi_record_alts = false; // known C01 finding (front-end panic), not about serialisation
    cfg.features.update_reorder = false;
    let styles = Style::all();
    for i in 0..n_gen {
        let mut c = cfg.clone();
        // vary the size; every 4th program is a big one
        c.max_size = if i % 4 == 3 { 120 } else { 30 + (i as u32 % 5) * 15 };
        c.max_depth = if i % 4 == 3 { 7 } else { 5 };
        let p = mg::generate::gen_program(&mut rng, &c);
        let st = &styles[i % styles.len()];
        let src = mg::print::to_gluon(&p, st);
        cases.push(Case { family: format!("gen:{}", st.name()), source: src, prelude: false, program: Some(p) });
    }

    let mut model_in = args.file("model_in.txt");
    let mut impl_out = args.file("impl_out.txt");
    let mut cases_txt = args.file("cases.txt");
    let mut vm_in = args.file("vm_in.txt");
    let mut vm_expect = args.file("vm_expect.txt");
    let mut vm_cases = args.file("vm_cases.txt");
    let mut hist = Hist::default();
    let mut findings = Findings::default();
    let mut distinct = HashSet::new();
    let mut nontrivial = 0u64;
    let mut evaluations = 0u64;
    let mut loads_compared = 0u64;
    let mut samples: Vec<serde_json::Value> = vec![];
    let mut jobs: Vec<Job> = vec![];
    let mut job_sources: Vec<String> = vec![]; // by case index

    let mut vm_same: BTreeMap<bool, (RootedThread, u32)> = BTreeMap::new();
    let mut vm_other: BTreeMap<bool, (RootedThread, u32, HashSet<String>)> = BTreeMap::new();

    for (ci, case) in cases.iter().enumerate() {
        job_sources.push(case.source.clone());
        let prelude = case.prelude;
        // the VM that runs and compiles the source
        let renew = vm_same.get(&prelude).map(|(_, n)| *n >= 400).unwrap_or(true);
        if renew {
            vm_same.insert(prelude, (new_vm(prelude), 0));
        }
        let vm = vm_same.get(&prelude).unwrap().0.clone();
        vm_same.get_mut(&prelude).unwrap().1 += 1;
        let render_typed = |t: &gluon::Thread, v: gluon::vm::Variants<'_>| -> String {
            match &case.program {
                Some(p) => mg::value::canon_typed(t, v, &p.ty, &p.types),
                None => mg::value::canon(t, v),
            }
        };
        // (1) from source
        // the value is rendered twice: with the program's static type (record field names) for the in-process
        // comparisons, and untyped for the comparisons with what a child process reports
        let both = mg::run::run_with(&vm, &case.source, |t, v| format!("{}\u{1}{}", render_typed(t, v.clone()), mg::value::canon(t, v)));
        let (src_out, expected_untyped) = match both {
            Outcome::Val(s, l) => {
                let (a, b) = s.split_once('\u{1}').map(|(a, b)| (a.to_string(), b.to_string())).unwrap_or((s.clone(), s.clone()));
                (Outcome::Val(a, l.clone()), Outcome::Val(b, l).canonical())
            }
            e => {
                let c = e.canonical();
                (e, c)
            }
        };
        evaluations += 1;
        hist.add(&format!("family:{}", case.family.split(':').next().unwrap()));
        hist.add(&format!("source-outcome:{}", src_out.class()));
        if matches!(src_out, Outcome::Err(ErrKind::Parse(_), _) | Outcome::Err(ErrKind::Typecheck(_), _) | Outcome::Err(ErrKind::HostPanic(_), _)) {
            hist.add("skipped:front-end");
            if let Outcome::Err(ErrKind::HostPanic(_), _) = src_out {
                std::mem::forget(vm_same.remove(&prelude));
            }
            continue;
        }
        let expected = src_out.canonical();
        // (2) compile to every format
        let mut blobs: Vec<(Fmt, Vec<u8>)> = vec![];
        let mut skip = false;
        for fmt in Fmt::all() {
            mg::run::log_clear();
            match compile(&vm, &case.source, fmt) {
                Ok(b) => {
                    let l = mg::run::log_take();
                    if !l.is_empty() {
                        findings.add("compile-has-effects", format!("compile_to_bytecode ran host effects {:?}", l), serde_json::json!({"check": "roundtrip", "source": case.source, "format": fmt.name(), "prelude": prelude}), "(log)", &format!("{:?}", l));
                    }
                    hist.addn(&format!("bytes:{}", fmt.name()), b.len() as u64);
                    blobs.push((fmt, b));
                }
                Err(CompileError::FrontEnd(_)) => {
                    hist.add("skipped:compile-front-end");
                    skip = true;
                    break;
                }
                Err(CompileError::Ser(m)) => {
                    hist.add(&format!("serialise-error:{}", fmt.name()));
                    findings.add(
                        &format!("serialise-fails:{}", fmt.name()),
                        format!("compile_to_bytecode cannot serialise an accepted program to {}: {}", fmt.name(), m),
                        serde_json::json!({"check": "roundtrip", "source": case.source, "format": fmt.name(), "prelude": prelude}),
                        "Ok(bytes)",
                        &m,
                    );
                }
            }
        }
        if skip || blobs.is_empty() {
            continue;
        }
        let json_tree: Option<serde_json::Value> = blobs.iter().find(|(f, _)| *f == Fmt::Json).and_then(|(_, b)| serde_json::from_slice(b).ok());
        let deps = json_tree.as_ref().map(deps_of).unwrap_or_default();
        hist.add(&format!("deps:{}", deps.len().min(5)));
        // the other VM: never saw the source; the modules the bytecode refers to are imported first
        let renew = vm_other.get(&prelude).map(|(_, n, _)| *n >= 400).unwrap_or(true);
        if renew {
            vm_other.insert(prelude, (new_vm(prelude), 0, HashSet::new()));
        }
        {
            let e = vm_other.get_mut(&prelude).unwrap();
            e.1 += 1;
            let missing: Vec<String> = deps.iter().filter(|d| e.2.insert((*d).clone())).cloned().collect();
            preload(&e.0, &missing);
        }
        let other = vm_other.get(&prelude).unwrap().0.clone();
        // a brand-new VM per program for a sample of the programs
        let brand_new = if true {
            let v = new_vm(prelude);
            preload(&v, &deps);
            Some(v)
        } else {
            None
        };
        let mut poisoned = false;
        let mut precompiled_outcome: Option<String> = None;
        for (fmt, bytes) in &blobs {
            // `load_bytecode` is only ever called in child processes (below): on the unchanged tree it can block
            // for ever on the compiler database lock it already holds
            for api in [Api::Run] {
                let mut targets: Vec<(&str, &RootedThread)> = vec![("same", &vm), ("fresh", &other)];
                if let Some(b) = &brand_new {
                    targets.push(("brand-new", b));
                }
                for (vmname, target) in targets {
                    if poisoned {
                        continue;
                    }
                    let got = load(target, *fmt, api, bytes, &|t, v| render_typed(t, v));
                    loads_compared += 1;
                    let got_s = match &got {
                        Loaded::Out(o) => o.canonical(),
                        Loaded::Panic(m) => format!("PANIC {}", m),
                    };
                    hist.add(&format!("load:{}:{}:{}", fmt.name(), api.name(), if got_s == expected { "same" } else { "differs" }));
                    if *fmt == Fmt::BinFix && vmname == "fresh" {
                        precompiled_outcome = Some(got_s.clone());
                    }
                    if got_s != expected {
                        let case_json = serde_json::json!({"check": "roundtrip", "source": case.source, "format": fmt.name(), "api": api.name(), "vm": vmname, "prelude": prelude});
                        let rejects_own = matches!(&got, Loaded::Out(o) if is_load_error(o)) && !is_load_error(&src_out);
                        if rejects_own {
                            // the loader refuses what the compiler just produced
                            let short = if got_s.contains("missing field") { "missing-field" } else { "error" };
                            findings.add(
                                &format!("load-rejects-own-output:{}:{}:{}", api.name(), fmt.name(), short),
                                format!("{} refuses the unmodified {} output of compile_to_bytecode: {}", api.name(), fmt.name(), got_s.chars().take(300).collect::<String>()),
                                case_json,
                                &expected,
                                &got_s,
                            );
                        } else if let Loaded::Panic(m) = &got {
                            findings.add(
                                &format!("load-crash:unmodified:{}", fmt.name()),
                                format!("{} panics on the unmodified {} serialisation: {}", api.name(), fmt.name(), m),
                                case_json,
                                &expected,
                                &got_s,
                            );
                        } else {
                            findings.add(
                                &format!("precompiled-differs:{:016x}", fnv(case.source.as_bytes())),
                                format!("a module loaded from its {} serialisation with {} into the {} vm evaluates differently from its source", fmt.name(), api.name(), vmname),
                                case_json,
                                &expected,
                                &got_s,
                            );
                        }
                    }
                    if let Loaded::Panic(_) = got {
                        poisoned = true;
                    }
                }
            }
        }
        if poisoned {
            // these VMs may hold poisoned locks: retire them without running their destructors
            std::mem::forget(vm_same.remove(&prelude));
            std::mem::forget(vm_other.remove(&prelude));
            std::mem::forget(brand_new);
        } else {
            drop(brand_new);
        }
        // (2b) `load_bytecode` of the unmodified module, in a child: into a VM that never saw the source, and —
        // compiled there again — into the very VM that compiled it
        for (fmt, bytes) in &blobs {
            jobs.push(Job { prog: ci, same: false, expect: Some(expected_untyped.clone()), fmt: *fmt, api: Api::Load, bare: false, prelude, deps: deps.clone(), class: "unmodified".into(), detail: "unmodified module, fresh VM with the dependencies imported".into(), bytes: bytes.clone() });
            jobs.push(Job { prog: ci, same: true, expect: Some(expected_untyped.clone()), fmt: *fmt, api: Api::Load, bare: false, prelude, deps: deps.clone(), class: "unmodified".into(), detail: "compiled and loaded in the same VM".into(), bytes: case.source.as_bytes().to_vec() });
        }
        // (3) skeleton tie
        let tree = match &json_tree {
            Some(t) => t,
            None => continue,
        };
        let mut tie = |model_line: &str, impl_line: &str| {
            writeln!(model_in, "{}", model_line).unwrap();
            writeln!(impl_out, "{}", impl_line).unwrap();
            writeln!(cases_txt, "{}", case.source.replace('\n', "\\n")).unwrap();
        };
        let sk = match sk_of_json(&tree["module"]["function"]) {
            Ok(sk) => sk,
            Err(m) => {
                tie("fn 0 0 0 0 0", &format!("unmodelled {}", m));
                continue;
            }
        };
        let mut line = String::new();
        if let Err(m) = sk_model(&sk, &mut line) {
            tie("fn 0 0 0 0 0", &format!("unmodelled {}", m));
            continue;
        }
        let mut impl_line = String::from("ok");
        let mut embedded = true;
        for (fixed, tag, fmt) in [(true, "F", Fmt::BinFix), (false, "V", Fmt::BinVar)] {
            let mut pieces = vec![];
            match real_skeleton_bytes(&sk, fixed, &mut 0, &mut pieces) {
                Ok(b) => {
                    impl_line.push_str(&format!(" {}={}", tag, hex(&b)));
                    if let Some((_, module)) = blobs.iter().find(|(f, _)| *f == fmt) {
                        if embed(module, &pieces).is_none() {
                            embedded = false;
                        }
                    }
                }
                Err(m) => impl_line = format!("unmodelled {}", m),
            }
        }
        if !embedded {
            impl_line = "not-embedded: the modelled pieces do not occur in order in the real bincode serialisation".into();
        }
        tie(&line, &impl_line);
        // (5) the real module on the model VM
        if let Some((_, jbytes)) = blobs.iter().find(|(f, _)| *f == Fmt::Json) {
            let vm_line = (|| -> Option<String> {
                let root = jparse(jbytes)?;
                let mut table = BTreeMap::new();
                symbol_table(&root, jbytes, &mut table);
                let g = globals_line(&vm, &root, jbytes, &table)?;
                let mut r = String::new();
                records_tree(root.get("module")?.get("function")?, jbytes, &table, &mut r)?;
                let f = slices_from_module(&blobs.iter().find(|(f, _)| *f == Fmt::BinFix)?.1, &sk, true)?;
                let v = slices_from_module(&blobs.iter().find(|(f, _)| *f == Fmt::BinVar)?.1, &sk, false)?;
                Some(format!("G {} R {} F {} V {} J {}", g, r, if f.is_empty() { "-".into() } else { hex(&f) }, if v.is_empty() { "-".into() } else { hex(&v) }, line))
            })();
            if let Some(l) = vm_line {
                writeln!(vm_in, "{}", l).unwrap();
                writeln!(vm_expect, "{}\t{}", expected, precompiled_outcome.clone().unwrap_or_else(|| "?".into())).unwrap();
                let modelled = deps.iter().all(|d| matches!(d.as_str(), "mg.prim" | "std.prim" | "std.array.prim" | "std.types"));
                writeln!(vm_cases, "{}\t{}\t{}\t{}", case.family, if case.program.is_some() { "typed" } else { "untyped" }, if modelled { "globals-modelled" } else { "globals-unmodelled" }, case.source.replace('\n', "\\n")).unwrap();
            } else {
                hist.add("model-vm:line-not-built");
            }
        }
        {
            let mut fns = vec![];
            flat(&sk, &mut fns);
            let mut variants = HashSet::new();
            let mut ni = 0u64;
            for f in &fns {
                ni += f.instrs.len() as u64;
                for i in &f.instrs {
                    variants.insert(match i {
                        serde_json::Value::String(s) => s.clone(),
                        serde_json::Value::Object(m) => m.keys().next().cloned().unwrap_or_default(),
                        _ => String::new(),
                    });
                }
            }
            hist.addn("skeleton:functions", fns.len() as u64);
            hist.addn("skeleton:instructions", ni);
            for v in variants {
                hist.add(&format!("variant:{}", v));
            }
            if ni > 4 && distinct.insert(fnv(line.as_bytes())) {
                nontrivial += 1;
            }
            if samples.len() < 4 && (ci % 97 == 5 || samples.is_empty()) {
                samples.push(serde_json::json!({"source": case.source.chars().take(1500).collect::<String>(), "outcome": expected.chars().take(300).collect::<String>(), "skeleton": line.chars().take(400).collect::<String>()}));
            }
        }
        // (4) robustness jobs
        // (modules that need the prelude make every respawned child import half of std again: thorough tier only)
        if (ci % robust_every == 0 || (case.program.is_none() && case.family.starts_with("corpus"))) && (thorough || !prelude) {
            let mut jrng = Rng::new(args.seed ^ fnv(case.source.as_bytes()));
            for (fmt, bytes) in &blobs {
                let mut cs = truncations(bytes);
                match fmt {
                    Fmt::Json => cs.extend(json_corruptions(bytes, &mut jrng)),
                    Fmt::BinFix => cs.extend(bincode_corruptions(bytes, &sk, true, &deps, &mut jrng)),
                    Fmt::BinVar => cs.extend(bincode_corruptions(bytes, &sk, false, &deps, &mut jrng)),
                }
                // operand corruptions nearly always end the child (no bytecode verifier): the quick tier takes a
                // random handful per program and format, the thorough tier a larger one
                let mut operand: Vec<usize> = (0..cs.len()).filter(|k| cs[*k].class.starts_with("corrupt:instr-index")).collect();
                let mut drop_set: HashSet<usize> = HashSet::new();
                while operand.len() > max_operand {
                    let k = jrng.below(operand.len() as u64) as usize;
                    drop_set.insert(operand.swap_remove(k));
                }
                for (k, c) in cs.into_iter().enumerate() {
                    if drop_set.contains(&k) {
                        continue;
                    }
                    for api in [Api::Run, Api::Load] {
                        jobs.push(Job { prog: ci, same: false, expect: None, fmt: *fmt, api, bare: false, prelude, deps: deps.clone(), class: c.class.clone(), detail: c.detail.clone(), bytes: c.bytes.clone() });
                    }
                }
                // the unmodified module in a VM that defines nothing it refers to
                if !deps.is_empty() {
                    for api in [Api::Run, Api::Load] {
                        jobs.push(Job { prog: ci, same: false, expect: None, fmt: *fmt, api, bare: true, prelude, deps: vec![], class: "missing-global".into(), detail: format!("unmodified module loaded into a VM that has not imported {:?}", deps), bytes: bytes.clone() });
                    }
                }
            }
        }
    }
    model_in.flush().unwrap();
    impl_out.flush().unwrap();
    cases_txt.flush().unwrap();
    vm_in.flush().unwrap();
    vm_expect.flush().unwrap();
    vm_cases.flush().unwrap();
    let t_inproc = t_start.elapsed();
    eprintln!("c12: {} programs run, compiled and re-loaded in process in {:?}; {} child jobs", evaluations, t_inproc, jobs.len());
    drop(vm_same);
    drop(vm_other);

    // ---- (4) run the robustness jobs in child processes ----
    let n_jobs = jobs.len();
    // unmodified modules first (stable): they decide whether an entry point is usable for a format at all
    jobs.sort_by_key(|j| if j.class == "unmodified" { 0 } else { 1 });
    let queue = Arc::new(Mutex::new((0usize, jobs)));
    let results: Arc<Mutex<Vec<(usize, JobResult, u64)>>> = Arc::new(Mutex::new(Vec::new()));
    // hangs seen so far per (entry point, format): after 2 the remaining jobs of that kind are skipped (each costs a
    // full watchdog period; they are counted in the histogram as skipped)
    let hangs: Arc<Mutex<BTreeMap<String, u32>>> = Arc::new(Mutex::new(BTreeMap::new()));
    let mut handles = vec![];
    for w in 0..workers {
        let queue = queue.clone();
        let results = results.clone();
        let hangs = hangs.clone();
        handles.push(std::thread::spawn(move || {
            let mut child: Option<Child> = None;
            loop {
                let (idx, job) = {
                    let mut q = queue.lock().unwrap();
                    if q.0 >= q.1.len() {
                        break;
                    }
                    let i = q.0;
                    q.0 += 1;
                    (i, q.1[i].clone())
                };
                // hangs are counted per (entry point, format, corruption class); an entry point that hangs on
                // UNMODIFIED modules of a format is not tried on corrupted modules of that format at all
                let hk = format!("{}:{}:{}", job.api.name(), job.fmt.name(), job.class);
                let hk_all = format!("{}:{}:unmodified", job.api.name(), job.fmt.name());
                let tripped = {
                    let h = hangs.lock().unwrap();
                    h.get(&hk).copied().unwrap_or(0) >= 2 || h.get(&hk_all).copied().unwrap_or(0) >= 2
                };
                let t0 = Instant::now();
                let r = if tripped { JobResult::Skipped } else { run_job(&mut child, &job, (w as u64) << 32 | idx as u64, watchdog) };
                let ms = t0.elapsed().as_millis() as u64;
                if let JobResult::Hang = r {
                    *hangs.lock().unwrap().entry(hk).or_insert(0) += 1;
                }
                results.lock().unwrap().push((idx, r, ms));
            }
            if let Some(mut c) = child {
                drop(c.stdin);
                let _ = c.proc.kill();
                let _ = c.proc.wait();
            }
        }));
    }
    for h in handles {
        let _ = h.join();
    }
    let jobs = std::mem::take(&mut queue.lock().unwrap().1);
    let mut results = std::mem::take(&mut *results.lock().unwrap());
    results.sort_by_key(|r| r.0);
    let mut robust_hist: BTreeMap<String, u64> = BTreeMap::new();
    let mut robust_samples: BTreeMap<String, String> = BTreeMap::new();
    for (idx, r, ms) in results {
        let job = &jobs[idx];
        hist.addn(&format!("child-ms:{}:{}", job.class.split(':').take(2).collect::<Vec<_>>().join(":"), job.api.name()), ms);
        let (bad, kind, observed) = match &r {
            JobResult::Outcome(o) => {
                if o.contains("hostpanic") {
                    (true, "panic", o.clone())
                } else if o.starts_with("COMPILE-ERROR") {
                    (false, "compile-error", o.clone())
                } else {
                    (false, if o.starts_with("(val") { "value" } else { "error" }, o.clone())
                }
            }
            JobResult::Panic(m) => (true, "panic", format!("PANIC {}", m)),
            JobResult::Died(s) => (true, "died", format!("child process died: {}", s)),
            JobResult::Hang => (true, "hang", format!("no answer within {:?} (killed)", watchdog)),
            JobResult::Skipped => (false, "skipped-after-repeated-hangs", String::new()),
        };
        let cls: String = job.class.split(':').take(2).collect::<Vec<_>>().join(":");
        let hk = format!("{}:{}:{}:{}", cls, job.api.name(), job.fmt.name(), kind);
        robust_samples.entry(hk.clone()).or_insert_with(|| format!("{} => {}", job.detail, observed.chars().take(240).collect::<String>()));
        *robust_hist.entry(hk).or_insert(0) += 1;
        let case_json = serde_json::json!({"check": "robust", "source": job_sources[job.prog], "format": job.fmt.name(), "api": job.api.name(), "bare": job.bare, "same": job.same,
                                           "prelude": job.prelude, "deps": job.deps, "class": job.class, "detail": job.detail, "payload_hex": hex(&job.bytes)});
        if let Some(expect) = &job.expect {
            // the unmodified module through `load_bytecode`: the property itself
            if kind == "skipped-after-repeated-hangs" || kind == "compile-error" {
                continue;
            }
            loads_compared += 1;
            if &observed == expect {
                continue;
            }
            let was_error = expect.starts_with("(err other");
            if kind == "hang" {
                findings.add(
                    &format!("load-hangs-on-own-output:{}:{}", job.api.name(), job.fmt.name()),
                    format!("{} of the unmodified {} output of compile_to_bytecode never returns ({})", job.api.name(), job.fmt.name(), job.detail),
                    case_json, expect, &observed);
            } else if bad {
                findings.add(
                    &format!("load-crash:unmodified:{}", job.fmt.name()),
                    format!("{} of the unmodified {} output of compile_to_bytecode ends in a {}: {}", job.api.name(), job.fmt.name(), kind, observed.chars().take(300).collect::<String>()),
                    case_json, expect, &observed);
            } else if observed.starts_with("(err other") && !was_error {
                let short = if observed.contains("missing field") { "missing-field" } else { "error" };
                findings.add(
                    &format!("load-rejects-own-output:{}:{}:{}", job.api.name(), job.fmt.name(), short),
                    format!("{} refuses the unmodified {} output of compile_to_bytecode ({}): {}", job.api.name(), job.fmt.name(), job.detail, observed.chars().take(300).collect::<String>()),
                    case_json, expect, &observed);
            } else {
                findings.add(
                    &format!("precompiled-differs:{:016x}", fnv(job_sources[job.prog].as_bytes())),
                    format!("a module loaded from its {} serialisation with {} ({}) evaluates differently from its source", job.fmt.name(), job.api.name(), job.detail),
                    case_json, expect, &observed);
            }
            continue;
        }
        if bad {
            let key = format!("load-crash:{}", job.class);
            findings.add(
                &key,
                format!("loading a {} module ({}) with {} ends in a {} instead of an error: {}", job.fmt.name(), job.class, job.api.name(), kind, observed.chars().take(300).collect::<String>()),
                case_json,
                "Err(..) or a clean runtime error",
                &observed,
            );
        }
    }
    for (k, v) in &robust_hist {
        hist.addn(&format!("robust:{}", k), *v);
    }

    eprintln!("c12: child jobs done after {:?}", t_start.elapsed());
    let mut f = args.file("findings.jsonl");
    for fd in findings.0.values() {
        writeln!(f, "{}", serde_json::json!({"key": fd.key, "what": fd.what, "case": fd.case, "expected": fd.expected, "observed": fd.observed, "count": fd.count})).unwrap();
    }
    f.flush().unwrap();
    gvh::out::write_json(
        &args.out.join("stats.json"),
        &serde_json::json!({
            "evaluations": evaluations + loads_compared + n_jobs as u64,
            "programs": evaluations,
            "loads_compared": loads_compared,
            "robustness_loads": n_jobs,
            "distinct_nontrivial": nontrivial,
            "rule": "programs whose serialised skeleton has more than 4 instructions, distinct by skeleton (args, max_stack_size, instruction list, inner functions, strings)",
            "samples": samples,
            "robust_samples": robust_samples,
            "hist": hist.to_json(),
        }),
    );
}

/// `c12 probe=<source>`: show what the harness sees for one program (debugging aid).
fn probe(src: &str) {
    let vm = new_vm(false);
    println!("source: {}", mg::run::run(&vm, src).canonical());
    for fmt in Fmt::all() {
        match compile(&vm, src, fmt) {
            Ok(b) => {
                println!("{}: {} bytes", fmt.name(), b.len());
                if fmt == Fmt::Json {
                    println!("{}", String::from_utf8_lossy(&b));
                }
                for api in [Api::Load, Api::Run] {
                    let t0 = Instant::now();
                    let fresh = new_vm(false);
                    let t1 = t0.elapsed();
                    if let Ok(tree) = serde_json::from_slice::<serde_json::Value>(&compile(&vm, src, Fmt::Json).unwrap_or_default()) {
                        preload(&fresh, &deps_of(&tree));
                    }
                    for (n, t) in [("same", &vm), ("fresh", &fresh)] {
                        match load(t, fmt, api, &b, &|t, v| mg::value::canon(t, v)) {
                            Loaded::Out(o) => println!("  {} {} -> {}", api.name(), n, o.canonical()),
                            Loaded::Panic(m) => println!("  {} {} -> PANIC {}", api.name(), n, m),
                        }
                    }
                    println!("  (new vm: {:?})", t1);
                }
            }
            Err(CompileError::FrontEnd(m)) => println!("{}: front end: {}", fmt.name(), m),
            Err(CompileError::Ser(m)) => println!("{}: serialiser: {}", fmt.name(), m),
        }
    }
}

fn replay(path: &str) {
    let v: serde_json::Value = serde_json::from_str(&std::fs::read_to_string(path).expect("replay file")).expect("json");
    let case = &v["case"];
    let src = case["source"].as_str().unwrap_or("").to_string();
    let prelude = case["prelude"].as_bool().unwrap_or(false);
    println!("key: {}", v["key"].as_str().unwrap_or("?"));
    println!("source:\n{}", src);
    match case["check"].as_str() {
        Some("robust") => {
            let job = Job {
                prog: 0,
                same: case["same"].as_bool().unwrap_or(false),
                expect: None,
                fmt: Fmt::parse(case["format"].as_str().unwrap_or("json")),
                api: Api::parse(case["api"].as_str().unwrap_or("run_expr")),
                bare: case["bare"].as_bool().unwrap_or(false),
                prelude,
                deps: case["deps"].as_array().map(|a| a.iter().filter_map(|x| x.as_str().map(|s| s.to_string())).collect()).unwrap_or_default(),
                class: case["class"].as_str().unwrap_or("").to_string(),
                detail: case["detail"].as_str().unwrap_or("").to_string(),
                bytes: unhex(case["payload_hex"].as_str().unwrap_or("")),
            };
            println!("corruption: {} ({})", job.class, job.detail);
            let mut child = None;
            let r = run_job(&mut child, &job, 1, Duration::from_secs(20));
            println!("observed now: {:?}", r);
            println!("expected: {}", v["expected"].as_str().unwrap_or("Err(..) or a clean runtime error"));
        }
        _ => {
            let vm = new_vm(prelude);
            let out = mg::run::run(&vm, &src);
            println!("from source: {}", out.canonical());
            let fmt = Fmt::parse(case["format"].as_str().unwrap_or("json"));
            let api = Api::parse(case["api"].as_str().unwrap_or("run_expr"));
            match compile(&vm, &src, fmt) {
                Ok(b) => {
                    let target = if case["vm"].as_str() == Some("same") {
                        vm.clone()
                    } else {
                        let t = new_vm(prelude);
                        if let Ok(jb) = compile(&vm, &src, Fmt::Json) {
                            if let Ok(tree) = serde_json::from_slice::<serde_json::Value>(&jb) {
                                preload(&t, &deps_of(&tree));
                            }
                        }
                        t
                    };
                    match load(&target, fmt, api, &b, &|t, v| mg::value::canon(t, v)) {
                        Loaded::Out(o) => println!("loaded ({} / {} / {} vm): {}", fmt.name(), api.name(), case["vm"].as_str().unwrap_or("fresh"), o.canonical()),
                        Loaded::Panic(m) => println!("loaded: PANIC {}", m),
                    }
                }
                Err(CompileError::FrontEnd(m)) => println!("compile: front end error {}", m),
                Err(CompileError::Ser(m)) => println!("compile: serialiser error {}", m),
            }
            println!("expected (recorded): {}", v["expected"].as_str().unwrap_or("?"));
            println!("observed (recorded): {}", v["observed"].as_str().unwrap_or("?"));
        }
    }
}
