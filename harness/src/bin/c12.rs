//! probe (temporary)
use gluon::ThreadExt;
use gvh::mg;

fn main() {
    let src = std::env::args().nth(1).unwrap_or_else(|| "let f x = x #Int+ 1\n{ a = f 2, s = \"hi\", g = 1.5 }".to_string());
    let vm = mg::run::new_vm();
    let mut buf = Vec::new();
    {
        let mut ser = serde_json::Serializer::new(&mut buf);
        let r = futures::executor::block_on(vm.compile_to_bytecode("test", &src, &mut ser));
        match r {
            Ok(_) => {}
            Err(e) => {
                println!("compile err: {}", match e { gluon::either::Either::Left(e) => e.to_string(), gluon::either::Either::Right(e) => e.to_string() });
                return;
            }
        }
    }
    println!("{}", String::from_utf8_lossy(&buf));
    {
        let mut de = serde_json::Deserializer::from_reader(std::io::Cursor::new(buf.clone()));
        let r = futures::executor::block_on(vm.load_bytecode("test", &mut de));
        println!("load_bytecode same vm: {:?}", r.map_err(|e| e.to_string()));
    }
    {
        use gluon::compiler_pipeline::{Executable, Precompiled};
        let vm2 = mg::run::new_vm();
        let mut de = serde_json::Deserializer::from_slice(&buf);
        let r = futures::executor::block_on(Precompiled(&mut de).run_expr(&mut vm2.module_compiler(&mut vm2.get_database()), &*vm2, "test", "", ()));
        match r {
            Ok(v) => println!("run_expr fresh: {}", mg::value::canon(&vm2, v.value.get_variant())),
            Err(e) => println!("run_expr fresh err: {}", e),
        }
    }
}
