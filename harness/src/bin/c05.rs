//! C05 — garbage collection is transparent and never frees a reachable value.
//!
//! Allocation-heavy generated programs (lists, arrays, closures, strings, trees, references,
//! module-level lazy values and reference cells, host handles kept across evaluations) are run
//! under the collection strides k in {1,2,3,5,8,13,off} (hook `verif::set_stride`: a collection on
//! every k-th `check_collect`) with quarantine on (freed blocks are poisoned, leaked, remembered),
//! plus explicit `Thread::collect()` between evaluations.  For every (program, stride):
//!   * the outcome (every step's result rendered as a graph: shape, sharing, payload) must be the
//!     one the generator knows, and identical for every stride;
//!   * `verif::take_events()` must be empty (no collection reached a freed object) and no rendered
//!     value may contain a freed object;
//!   * handles held by the host render the same after later evaluations and collections;
//!   * after dropping every handle and collecting, `allocated_memory()` is back at the baseline
//!     measured the same way on the same VM after a warm-up run of the same program.
//! Each stride runs in its own child process (watchdog, crash attribution to (program, stride)).
//!
//! Files in --out: expected.txt impl_out.txt cases.txt violations.jsonl stats.json
use gluon::vm::api::{Getable, Hole, IO, OpaqueValue, OwnedFunction};
use gluon::vm::thread::RootedValue;
use gluon::{RootedThread, ThreadExt};
use gluon_vm::verif::{self, Graph, GraphEdge};
use gvh::out::{Args, Hist, fnv};
use gvh::rng::Rng;
use std::collections::{HashMap, HashSet};
use std::io::Write;
use std::panic::{AssertUnwindSafe, catch_unwind};

type Val = OpaqueValue<RootedThread, Hole>;
type RVal = RootedValue<RootedThread>;

const STRIDES: [usize; 7] = [1, 2, 3, 5, 8, 13, 0];

// ------------------------------------------------------------------------------------------------
// rendering (same conventions as c13.rs `shape`)

fn esc(s: &str) -> String {
    s.chars().map(|c| if c.is_ascii_alphanumeric() || "_-:./{}, ".contains(c) { c.to_string() } else { format!("%{:02x}", c as u32) }).collect()
}

fn shape(g: &Graph) -> String {
    let idx: HashMap<usize, usize> = g.nodes.iter().enumerate().map(|(i, n)| (n.addr, i)).collect();
    let mut names: HashMap<usize, String> = HashMap::new();
    let mut k = 0;
    for n in &g.nodes {
        if n.kind != "extern" && n.kind != "bytecode" {
            names.insert(n.addr, format!("n{}", k));
            k += 1;
        }
    }
    let edge = |e: &GraphEdge| -> String {
        match e {
            GraphEdge::Imm(s) => s.clone(),
            GraphEdge::Ptr(a) => match idx.get(a) {
                Some(i) if g.nodes[*i].kind == "extern" || g.nodes[*i].kind == "bytecode" => {
                    if g.nodes[*i].freed { "<FREED code>".to_string() } else { format!("<{} {}>", g.nodes[*i].kind, g.nodes[*i].label) }
                }
                Some(_) => names[a].clone(),
                None => "<?>".into(),
            },
        }
    };
    let mut s = format!("root={}", edge(&g.root));
    for n in &g.nodes {
        if n.kind == "extern" || n.kind == "bytecode" {
            continue;
        }
        if n.freed {
            s.push_str(&format!(" | {}:FREED", names[&n.addr]));
            continue;
        }
        let es: Vec<String> = n.edges.iter().map(|e| edge(e)).collect();
        s.push_str(&format!(" | {}:{}#{}({})", names[&n.addr], n.kind, esc(&n.label), es.join(",")));
    }
    s
}

/// Trace coverage: every edge the graph dump knows (it reads the fields of each object directly)
/// must also be followed by `Trace` (hook `verif_walk` runs the real tracer from the thread's
/// roots).  A child the dump reaches through a parent the tracer visited, but the tracer never
/// marked, is a field `Trace` forgets: the next collection frees it while it is reachable.
fn trace_coverage(vm: &RootedThread, g: &Graph) -> Vec<(String, String)> {
    let walked: HashSet<usize> = vm.verif_walk().iter().map(|n| n.addr).collect();
    let idx: HashMap<usize, usize> = g.nodes.iter().enumerate().map(|(i, n)| (n.addr, i)).collect();
    let mut out: Vec<(String, String)> = vec![];
    if let GraphEdge::Ptr(a) = &g.root {
        if !walked.contains(a) {
            out.push(("trace-missing:root".into(), format!("the handle's own object {:#x} is not reached from the thread's roots", a)));
            return out;
        }
    }
    for n in &g.nodes {
        if n.freed || !walked.contains(&n.addr) {
            continue;
        }
        for (i, e) in n.edges.iter().enumerate() {
            if let GraphEdge::Ptr(a) = e {
                if !walked.contains(a) {
                    let child = idx.get(a).map(|j| g.nodes[*j].kind.clone()).unwrap_or("?".into());
                    let key = format!("trace-missing:{}->{}", n.kind, child);
                    if !out.iter().any(|(k, _)| k == &key) {
                        out.push((key, format!("field {} of a `{}` points to a `{}` that the tracer does not mark although it visits the `{}`", i, n.kind, child, n.kind)));
                    }
                }
            }
        }
    }
    out
}

fn sh_int(i: i64) -> String {
    format!("root=int:{}", i)
}
fn sh_string(s: &str) -> String {
    format!("root=n0 | n0:string#{}()", esc(s))
}

// ------------------------------------------------------------------------------------------------
// programs

#[derive(Clone, Debug)]
enum Step {
    /// load_script(module, src)
    Load { module: String, src: String },
    /// run_expr(src); `expect`: the rendering the generator knows (None: only compared across
    /// strides); `hold`: the host keeps the handle and re-renders it at every later CheckHandles
    Eval { src: String, expect: Option<String>, hold: bool, guard: Option<String> },
    /// host: v = run_expr(src) (an IO action is run: `ref x` gives the Reference); the value is
    /// registered as the global `module` (`set_global`: deep clone into the generation-0 heap, the
    /// same promotion a loaded module's value goes through)
    DefineCell { module: String, src: String },
    /// explicit Thread::collect()
    Collect,
    /// every held handle must render as it did when it was taken
    CheckHandles,
    /// host: cell = get_global(module); v = run_expr(src) (fresh, in the thread heap); cell <- v; drop v
    StoreCell { module: String, src: String },
    /// host: load (get_global(module)) must render as `expect`
    LoadCell { module: String, expect: String },
}

#[derive(Clone, Debug)]
struct Prog {
    family: &'static str,
    steps: Vec<Step>,
}

const HDR: &str = "let { append } = import! std.string\nlet arr = import! std.array.prim\nlet { ref, (<-), load } = import! std.reference\nlet { lazy, force } = import! std.lazy\nlet { wrap, flat_map } = import! std.io\n";

const LIST: &str = "type L = | N | C { v : Int, s : String } L\nrec let build k i acc = if i #Int== 0 then acc else build k (i #Int- 1) (C { v = i #Int* k, s = append \"x\" \"y\" } acc)\nrec let sum l =\n    match l with\n    | N -> 0\n    | C r t -> r.v #Int+ sum t\n";

fn garbage(rng: &mut Rng) -> (String, i64) {
    let n = rng.range(5, 120);
    let k = rng.range(1, 9);
    (format!("{}{}sum (build {} {} N)", HDR, LIST, k, n), k * n * (n + 1) / 2)
}

/// helpers for the container families: strings built at run time (literals live in generation 0 and
/// are never freed by a thread collection) and a loop that allocates garbage of the same sizes, so
/// that collections happen while the container is live and freed blocks get reused
const LIB: &str = "let { channel, send, recv } = import! std.channel\nlet mk s = append s \"-sfx\"\nlet keep a b = b\nrec let churn n acc : Int -> String -> String =\n    if n #Int== 0 then acc\n    else churn (n #Int- 1) (append \"ZZZZZ\" \"-sfx\")\nin\n";

/// Values that are reachable ONLY through a container; `body` sees `mk`, `churn`, `keep`, `arr`.
fn container_values() -> Vec<(&'static str, &'static str)> {
    vec![
        ("array-string", "[mk \"alpha\", mk \"gamma\", mk \"delta\", mk \"omega\"]"),
        ("array-string-show", "[show 1, show 22, append (show 333) \"x\"]"),
        ("array-records", "[{ s = mk \"ra\", n = 1 }, { s = mk \"rb\", n = 2 }]"),
        ("array-arrays-strings", "[[mk \"aa\"], [mk \"ab\", mk \"ac\"], [\"lit\", mk \"ad\"]]"),
        ("array-closures", "let s1 = mk \"c1\"\nlet s2 = mk \"c2\"\n[\\x -> keep s1 x, \\x -> keep s2 (x #Int+ 1)]"),
        ("array-papps", "[append (mk \"p1\"), append (mk \"p2\"), keep (mk \"p3\")]"),
        ("array-in-record-in-array", "[{ xs = [mk \"na\", mk \"nb\"], k = 1 }, { xs = [mk \"nc\"], k = 2 }]"),
        ("record-late-pointer", "{ a = 1, b = 2.5, c = 3b, d = mk \"late\" }"),
        ("variant-late-pointer", "type T = | T Int Float Byte String\n[T 1 2.5 3b (mk \"v1\"), T 2 3.5 4b (mk \"v2\")]"),
        ("record-of-arrays", "{ names = [mk \"n1\", mk \"n2\"], nums = [1, 2, 3], fl = [1.5], by = [1b, 2b], nest = [[mk \"n3\"]] }"),
        ("closure-over-array-string", "let xs = [mk \"u1\", mk \"u2\"]\n\\i -> arr.index xs i"),
        ("papp-over-array-string", "let pick xs i : Array String -> Int -> String = arr.index xs i\npick [mk \"q1\", mk \"q2\"]"),
    ]
}

fn gen_prog(rng: &mut Rng, idx: usize) -> Prog {
    let fam = idx % 21;
    let mut steps = vec![];
    let ev = |src: String, expect: Option<String>| Step::Eval { src, expect, hold: false, guard: None };
    match fam {
        0 => {
            // list of records: build and sum
            let (src, e) = garbage(rng);
            steps.push(ev(src, Some(sh_int(e))));
            Prog { family: "list-sum", steps }
        }
        1 => {
            // array grown by append; the array itself is the result (held across a later run)
            let n = rng.range(1, 40);
            let k = rng.range(1, 7);
            let src = format!("{}rec let go i a = if i #Int== {} then a else go (i #Int+ 1) (arr.append a [i #Int* {}])\ngo 1 [0]", HDR, n + 1, k);
            let elems: Vec<String> = (0..=n).map(|i| format!("int:{}", i * k)).collect();
            steps.push(Step::Eval { src, expect: Some(format!("root=n0 | n0:array:int#({})", elems.join(","))), hold: true, guard: None });
            let (g, e) = garbage(rng);
            steps.push(ev(g, Some(sh_int(e))));
            steps.push(Step::Collect);
            steps.push(Step::CheckHandles);
            Prog { family: "array-append", steps }
        }
        2 => {
            // list of closures each capturing a fresh record
            let n = rng.range(3, 100);
            let x0 = rng.range(0, 50);
            let src = format!(
                "{}type F = | N | C (Int -> Int) F\nrec let build i acc =\n    if i #Int== 0 then acc\n    else\n        let r = {{ v = i }}\n        build (i #Int- 1) (C (\\x -> x #Int+ r.v) acc)\nrec let app l x =\n    match l with\n    | N -> x\n    | C f t -> app t (f x)\napp (build {} N) {}",
                HDR, n, x0
            );
            steps.push(ev(src, Some(sh_int(x0 + n * (n + 1) / 2))));
            Prog { family: "closures", steps }
        }
        3 => {
            // string grown by append
            let n = rng.range(1, 60);
            let piece = ["ab", "c", "xyz"][rng.below(3) as usize];
            let src = format!("{}rec let go i s = if i #Int== 0 then s else go (i #Int- 1) (append s \"{}\")\ngo {} \"s\"", HDR, piece, n);
            let mut e = String::from("s");
            for _ in 0..n {
                e.push_str(piece);
            }
            steps.push(ev(src, Some(sh_string(&e))));
            Prog { family: "string-append", steps }
        }
        4 => {
            // binary tree, held by the host while garbage is produced and collected
            let d = rng.range(1, 6);
            let src = format!(
                "{}type T = | Leaf Int | Node T T\nrec let mk d i = if d #Int== 0 then Leaf i else Node (mk (d #Int- 1) (i #Int* 2)) (mk (d #Int- 1) (i #Int* 2 #Int+ 1))\nrec let count t =\n    match t with\n    | Leaf _ -> 1\n    | Node l r -> count l #Int+ count r\nin\nlet t = mk {} 1\n{{ n = count t, t, s = append \"tr\" \"ee\" }}",
                HDR, d
            );
            steps.push(Step::Eval { src, expect: None, hold: true, guard: None });
            for _ in 0..rng.range(1, 3) {
                let (g, e) = garbage(rng);
                steps.push(ev(g, Some(sh_int(e))));
                steps.push(Step::CheckHandles);
            }
            steps.push(Step::Collect);
            steps.push(Step::CheckHandles);
            Prog { family: "tree-handle", steps }
        }
        5 | 6 => {
            // a module-level lazy value: forced by the program, must stay valid across collections
            let n = rng.range(3, 60);
            let k = rng.range(1, 9);
            let module = format!("c05lazy{}", idx);
            let msrc = format!("{}{}{{ cell = lazy (\\_ -> build {} {} N), total = sum }}", HDR, LIST, k, n);
            steps.push(Step::Load { module: module.clone(), src: msrc });
            let e = k * n * (n + 1) / 2;
            let main = format!("{}let m = import! {}\nm.total (force m.cell)", HDR, module);
            let gev = |src: String, expect: Option<String>| Step::Eval { src, expect, hold: false, guard: Some(module.clone()) };
            steps.push(gev(main.clone(), Some(sh_int(e))));
            if fam == 6 {
                let (g, ge) = garbage(rng);
                steps.push(ev(g, Some(sh_int(ge))));
            }
            steps.push(Step::Collect);
            steps.push(gev(main.clone(), Some(sh_int(e))));
            steps.push(Step::Collect);
            steps.push(gev(main, Some(sh_int(e))));
            Prog { family: "module-lazy", steps }
        }
        7 | 8 => {
            // a module-level reference cell; the host stores fresh values into it
            let module = format!("c05cell{}", idx);
            steps.push(Step::DefineCell { module: module.clone(), src: format!("{}ref {{ v = 0, s = \"init\" }}", HDR) });
            steps.push(Step::LoadCell { module: module.clone(), expect: "root=n0 | n0:data#record {v,s}(int:0,n1) | n1:string#init()".into() });
            for r in 0..rng.range(1, 3) {
                let i = rng.range(1, 1000);
                steps.push(Step::StoreCell { module: module.clone(), src: format!("{}{{ v = {}, s = append \"st\" \"ored{}\" }}", HDR, i, i) });
                let exp = format!("root=n0 | n0:data#record {{v,s}}(int:{},n1) | n1:string#stored{}()", i, i);
                steps.push(Step::LoadCell { module: module.clone(), expect: exp.clone() });
                if fam == 8 || r > 0 {
                    let (g, ge) = garbage(rng);
                    steps.push(ev(g, Some(sh_int(ge))));
                }
                steps.push(Step::Collect);
                steps.push(Step::LoadCell { module: module.clone(), expect: exp });
            }
            Prog { family: "module-cell", steps }
        }
        9 => {
            // a reference owned by the running thread, overwritten with fresh records in a loop
            let n = rng.range(2, 80);
            let src = format!(
                "{}do r = ref {{ v = 0, s = \"a\" }}\nrec let go i =\n    if i #Int== 0 then wrap ()\n    else\n        do _ = r <- {{ v = i, s = append \"n\" \"m\" }}\n        go (i #Int- 1)\ndo _ = go {}\ndo x = load r\nwrap {{ last = x.v, s = x.s, r }}",
                HDR, n
            );
            steps.push(Step::Eval { src, expect: Some("root=n0 | n0:data#record {last,s,r}(int:1,n1,n2) | n1:string#nm() | n2:reference#(n3) | n3:data#record {v,s}(int:1,n1)".into()), hold: true, guard: None });
            let (g, e) = garbage(rng);
            steps.push(ev(g, Some(sh_int(e))));
            steps.push(Step::Collect);
            steps.push(Step::CheckHandles);
            Prog { family: "thread-reference", steps }
        }
        10 => {
            // a lazy value of the running thread forced once, kept by the host
            let n = rng.range(3, 40);
            let k = rng.range(1, 9);
            let src = format!("{}{}in\nlet l = lazy (\\_ -> build {} {} N)\nlet a = sum (force l)\nlet b = sum (force l)\n{{ a, b, l }}", HDR, LIST, k, n);
            steps.push(Step::Eval { src, expect: None, hold: true, guard: None });
            let (g, e) = garbage(rng);
            steps.push(ev(g, Some(sh_int(e))));
            steps.push(Step::Collect);
            steps.push(Step::CheckHandles);
            Prog { family: "thread-lazy", steps }
        }
        12 | 13 => {
            // a container held ONLY by a host handle: collect, churn (reuse), collect, check
            let vals = container_values();
            let (name, body) = vals[(idx / 21 * 2 + (fam - 12)) % vals.len()];
            let _ = name;
            steps.push(Step::Eval { src: format!("{}{}{}", HDR, LIB, body), expect: None, hold: true, guard: None });
            steps.push(Step::Collect);
            let n = rng.range(50, 250);
            steps.push(ev(format!("{}{}churn {} \"\"", HDR, LIB, n), Some(sh_string("ZZZZZ-sfx"))));
            steps.push(Step::CheckHandles);
            let (g, e) = garbage(rng);
            steps.push(ev(g, Some(sh_int(e))));
            steps.push(Step::Collect);
            steps.push(Step::CheckHandles);
            Prog { family: "container-host-held", steps }
        }
        14 | 15 => {
            // a container held ONLY by a local variable of the running program while it allocates
            let vals = container_values();
            let (_, body) = vals[(idx / 21 * 2 + (fam - 14)) % vals.len()];
            let n = rng.range(60, 300);
            let src = format!("{}{}let kept =\n    {}\nlet filler = churn {} \"\"\n{{ kept, filler }}", HDR, LIB, body.replace('\n', "\n    "), n);
            steps.push(Step::Eval { src, expect: None, hold: true, guard: None });
            steps.push(Step::Collect);
            steps.push(Step::CheckHandles);
            Prog { family: "container-local", steps }
        }
        16 => {
            // array of strings on the stack, read back element by element (the seeded-change demo)
            let n = rng.range(60, 250);
            let src = format!("{}{}let xs = [mk \"alpha\", mk \"gamma\", mk \"delta\", mk \"omega\"]\nlet filler = churn {} \"\"\n{{ first = arr.index xs 0, last = arr.index xs 3, n = arr.len xs, filler }}", HDR, LIB, n);
            steps.push(Step::Eval {
                src,
                expect: Some("root=n0 | n0:data#record {first,last,n,filler}(n1,n2,int:4,n3) | n1:string#alpha-sfx() | n2:string#omega-sfx() | n3:string#ZZZZZ-sfx()".into()),
                hold: true,
                guard: None,
            });
            steps.push(Step::Collect);
            steps.push(Step::CheckHandles);
            Prog { family: "array-string-stack", steps }
        }
        17 => {
            // values kept only in a channel queue while the program allocates
            let n = rng.range(60, 250);
            let src = format!(
                "{}{}do ch = channel [\"\"]\ndo _ = send ch.sender [mk \"q1\", mk \"q2\"]\ndo _ = send ch.sender [mk \"q3\"]\nlet filler = churn {} \"\"\ndo a = recv ch.receiver\ndo b = recv ch.receiver\nwrap {{ a, b, filler, ch }}",
                HDR, LIB, n
            );
            steps.push(Step::Eval { src, expect: None, hold: true, guard: None });
            steps.push(Step::Collect);
            steps.push(Step::CheckHandles);
            Prog { family: "channel-only", steps }
        }
        18 => {
            // values kept only in a reference / only in a forced lazy
            let n = rng.range(60, 250);
            let src = format!(
                "{}{}do r = ref [mk \"r0\"]\ndo _ = r <- [mk \"r1\", mk \"r2\"]\nlet l = lazy (\\_ -> {{ xs = [mk \"l1\", mk \"l2\"], k = 7 }})\nlet k = (force l).k\nlet filler = churn {} \"\"\ndo x = load r\nwrap {{ x, forced = force l, k, filler, r, l }}",
                HDR, LIB, n
            );
            steps.push(Step::Eval { src, expect: None, hold: true, guard: None });
            steps.push(Step::Collect);
            steps.push(Step::CheckHandles);
            Prog { family: "cell-only", steps }
        }
        19 => {
            // excess arguments: `f` takes one argument and allocates before returning the function
            // that takes the other two; they wait in the excess-argument record meanwhile
            let n = rng.range(60, 250);
            let src = format!(
                "{}{}let f x =\n    let filler = churn {} \"\"\n    \\a b -> {{ a, b, x, filler }}\nf 1 [mk \"e1\", mk \"e2\"] {{ s = mk \"e3\", t = [mk \"e4\"] }}",
                HDR, LIB, n
            );
            steps.push(Step::Eval { src, expect: None, hold: true, guard: None });
            steps.push(Step::Collect);
            steps.push(Step::CheckHandles);
            Prog { family: "excess-arguments", steps }
        }
        20 => {
            // array of strings grown by append in a loop: every intermediate array holds run-time strings
            let n = rng.range(2, 40);
            let src = format!(
                "{}{}rec let go i a = if i #Int== {} then a else go (i #Int+ 1) (arr.append a [append (show i) \"-e\"])\nin\nlet xs = go 1 [mk \"e\"]\nlet filler = churn 200 \"\"\n{{ xs, n = arr.len xs, filler }}",
                HDR, LIB, n + 1
            );
            steps.push(Step::Eval { src, expect: None, hold: true, guard: None });
            steps.push(Step::Collect);
            steps.push(Step::CheckHandles);
            Prog { family: "array-string-append", steps }
        }
        _ => {
            // cyclic records and partial applications held across collections
            let n = rng.range(2, 30);
            let src = format!(
                "{}rec\ntype A = {{ b : B, k : Int, s : String }}\ntype B = {{ a : A, z : Array Int }}\nrec\nlet x : A = {{ b = y, k = {}, s = append \"cy\" \"c\" }}\nlet y : B = {{ a = x, z = [1, 2, {}] }}\nin\nlet add3 a b c = a #Int+ b #Int+ c\n{{ x, p = add3 {} 2, q = append (append \"p\" \"q\") }}",
                HDR, n, n, n
            );
            steps.push(Step::Eval { src, expect: None, hold: true, guard: None });
            let (g, e) = garbage(rng);
            steps.push(ev(g, Some(sh_int(e))));
            steps.push(Step::CheckHandles);
            steps.push(Step::Collect);
            steps.push(Step::CheckHandles);
            Prog { family: "cycles-papp", steps }
        }
    }
}

/// corpus/C05/*.glu: hand-picked programs, run first.  Each file is one expression (HDR and LIB are
/// prepended); its value is held by the host across a collection, a garbage run and another collection.
fn corpus_progs(rng: &mut Rng) -> Vec<Prog> {
    let dir = std::path::Path::new(env!("CARGO_MANIFEST_DIR")).join("../corpus/C05");
    let mut files: Vec<std::path::PathBuf> = std::fs::read_dir(&dir).map(|d| d.flatten().map(|e| e.path()).filter(|p| p.extension().map(|x| x == "glu").unwrap_or(false)).collect()).unwrap_or_default();
    files.sort();
    let mut out = vec![];
    for p in files {
        if let Ok(text) = std::fs::read_to_string(&p) {
            let body: String = text.lines().filter(|l| !l.trim_start().starts_with("//")).collect::<Vec<_>>().join("\n");
            let mut steps = vec![Step::Eval { src: format!("{}{}{}", HDR, LIB, body.trim_end()), expect: None, hold: true, guard: None }];
            steps.push(Step::Collect);
            steps.push(Step::Eval { src: format!("{}{}churn 600 \"\"", HDR, LIB), expect: Some(sh_string("ZZZZZ-sfx")), hold: false, guard: None });
            steps.push(Step::CheckHandles);
            let (g, e) = garbage(rng);
            steps.push(Step::Eval { src: g, expect: Some(sh_int(e)), hold: false, guard: None });
            steps.push(Step::Collect);
            steps.push(Step::CheckHandles);
            out.push(Prog { family: "corpus", steps });
        }
    }
    out
}

fn prog_list(args: &Args) -> Vec<Prog> {
    let mut rng = Rng::new(args.seed);
    let n = args.extra.get("programs").and_then(|s| s.parse().ok()).unwrap_or(if args.thorough() { 1260 } else { 42 });
    let mut progs = corpus_progs(&mut rng);
    let c = progs.len();
    progs.extend((0..n).map(|i| gen_prog(&mut rng, i)));
    let _ = c;
    progs
}

// ------------------------------------------------------------------------------------------------
// running one program on a fresh VM

fn new_vm() -> RootedThread {
    let vm = gluon::new_vm();
    vm.get_database_mut().run_io(true);
    vm.run_expr::<()>("prelude", &format!("{}()", HDR)).unwrap_or_else(|e| panic!("prelude: {}", e));
    vm
}

fn helper(vm: &RootedThread, name: &str) -> RVal {
    let src = match name {
        "set" => "let { (<-) } = import! std.reference\n\\r v -> r <- v",
        _ => "let { load } = import! std.reference\n\\r -> load r",
    };
    vm.get_database_mut().run_io(false);
    let v = vm.run_expr::<Val>(name, src).unwrap_or_else(|e| panic!("helper {}: {}", name, e)).0.into_inner();
    vm.get_database_mut().run_io(true);
    v
}

struct RunResult {
    outcomes: Vec<String>,
    problems: Vec<(String, String)>, // (key suffix, detail)
}

/// Runs the steps once.  `tag` makes module names unique between the warm-up and the measured run.
fn run_steps(vm: &RootedThread, p: &Prog, tag: &str) -> RunResult {
    let mut res = RunResult { outcomes: vec![], problems: vec![] };
    let mut handles: Vec<(RVal, String)> = vec![];
    let set = helper(vm, "set");
    let loadf = helper(vm, "load");
    let rename = |s: &str| s.replace("c05lazy", &format!("c05lazy{}", tag)).replace("c05cell", &format!("c05cell{}", tag));
    let _ = verif::take_events();
    for (si, st) in p.steps.iter().enumerate() {
        let mut check_events = |res: &mut RunResult, what: &str| {
            let ev = verif::take_events();
            if !ev.is_empty() {
                res.problems.push((format!("dangling-reached:{}", what), format!("step {}: {}", si, ev.join(" ; "))));
            }
        };
        match st {
            Step::Load { module, src } => {
                let r = vm.load_script(&rename(module), &rename(src));
                res.outcomes.push(match r {
                    Ok(()) => "loaded".into(),
                    Err(e) => format!("load-error {}", esc(&e.to_string()).chars().take(200).collect::<String>()),
                });
                check_events(&mut res, "load");
            }
            Step::DefineCell { module, src } => {
                let r = (|| -> Result<(), String> {
                    let (v, typ) = vm.run_expr::<Val>("cell", &rename(src)).map_err(|e| e.to_string())?;
                    let g = verif::graph(v.get_value());
                    if g.nodes.first().map(|n| n.kind != "reference").unwrap_or(true) {
                        return Err("the expression did not evaluate to a Reference".into());
                    }
                    vm.get_database_mut().set_global(&rename(module), typ, Default::default(), v.get_value());
                    Ok(())
                })();
                res.outcomes.push(match r {
                    Ok(()) => "loaded".into(),
                    Err(e) => format!("load-error {}", esc(&e).chars().take(200).collect::<String>()),
                });
                check_events(&mut res, "define-cell");
            }
            Step::Eval { src, hold, guard, .. } => {
                // a module value that already holds a freed object is reported, not handed to the VM
                // (running on poisoned memory would only abort the process)
                let mut poisoned = None;
                if let Some(m) = guard {
                    if let Ok(v) = vm.get_global::<OpaqueValue<&gluon::Thread, Hole>>(&rename(m)) {
                        let g = verif::graph(v.get_value());
                        if g.nodes.iter().any(|n| n.freed) {
                            poisoned = Some(shape(&g));
                        }
                    }
                }
                if let Some(sh) = poisoned {
                    res.problems.push(("freed-in-module-value".into(), format!("step {}: the loaded module's value reaches a freed object: {}", si, sh)));
                    res.outcomes.push(format!("module-holds-FREED {}", sh));
                    continue;
                }
                match vm.run_expr::<Val>("main", &rename(src)) {
                    Ok((v, _)) => {
                        let v = v.into_inner();
                        let sh = shape(&verif::graph(v.get_value()));
                        if sh.contains("FREED") {
                            res.problems.push(("freed-in-result:eval".into(), format!("step {}: {}", si, sh)));
                        } else {
                            for (k, d) in trace_coverage(vm, &verif::graph(v.get_value())) {
                                res.problems.push((k, format!("step {}: {}", si, d)));
                            }
                        }
                        if *hold {
                            handles.push((v, sh.clone()));
                        }
                        res.outcomes.push(sh);
                    }
                    Err(e) => res.outcomes.push(format!("error {}", esc(&e.to_string()).chars().take(200).collect::<String>())),
                }
                check_events(&mut res, "eval");
            }
            Step::Collect => {
                vm.collect();
                res.outcomes.push("collected".into());
                check_events(&mut res, "collect");
            }
            Step::CheckHandles => {
                let mut o = vec![];
                for (h, was) in &handles {
                    let now = shape(&verif::graph(h.get_value()));
                    if &now != was {
                        let key = if now.contains("FREED") { "freed-in-handle" } else { "handle-changed" };
                        res.problems.push((key.into(), format!("step {}: was {} now {}", si, was, now)));
                    }
                    if !now.contains("FREED") {
                        for (k, d) in trace_coverage(vm, &verif::graph(h.get_value())) {
                            res.problems.push((k, format!("step {}: {}", si, d)));
                        }
                    }
                    o.push(now);
                }
                res.outcomes.push(format!("handles[{}]", o.join(" && ")));
            }
            Step::StoreCell { module, src } => {
                let r = (|| -> Result<(), String> {
                    let cell = vm.get_global::<OpaqueValue<&gluon::Thread, Hole>>(&rename(module)).map_err(|e| e.to_string())?;
                    if verif::graph(cell.get_value()).nodes.first().map(|n| n.kind != "reference").unwrap_or(true) {
                        return Err("the global is not a Reference".into());
                    }
                    let cell: RVal = vm.root_value_of(cell.get_variant());
                    let v = vm.run_expr::<Val>("fresh", &rename(src)).map_err(|e| e.to_string())?.0.into_inner();
                    let mut f: OwnedFunction<fn(Val, Val) -> IO<Val>> = OwnedFunction::from_value(set.vm(), set.get_variant());
                    match f.call(Val::from_value(cell), Val::from_value(v)) {
                        Ok(IO::Value(_)) => Ok(()),
                        Ok(IO::Exception(e)) => Err(e),
                        Err(e) => Err(e.to_string()),
                    }
                })();
                res.outcomes.push(match r {
                    Ok(()) => "stored".into(),
                    Err(e) => format!("store-error {}", esc(&e).chars().take(200).collect::<String>()),
                });
                check_events(&mut res, "store");
            }
            Step::LoadCell { module, .. } => {
                let r = (|| -> Result<String, String> {
                    let cell = vm.get_global::<OpaqueValue<&gluon::Thread, Hole>>(&rename(module)).map_err(|e| e.to_string())?;
                    // look at the cell itself first: a freed object behind it must not be handed to the VM
                    let g = verif::graph(cell.get_value());
                    if g.nodes.iter().any(|n| n.freed) {
                        return Ok(format!("cell-holds-FREED {}", shape(&g)));
                    }
                    if g.nodes.first().map(|n| n.kind != "reference").unwrap_or(true) {
                        return Err("the global is not a Reference".into());
                    }
                    let cell: RVal = vm.root_value_of(cell.get_variant());
                    let mut f: OwnedFunction<fn(Val) -> IO<Val>> = OwnedFunction::from_value(loadf.vm(), loadf.get_variant());
                    match f.call(Val::from_value(cell)) {
                        Ok(IO::Value(v)) => Ok(shape(&verif::graph(v.get_value()))),
                        Ok(IO::Exception(e)) => Err(e),
                        Err(e) => Err(e.to_string()),
                    }
                })();
                match r {
                    Ok(sh) => {
                        if sh.contains("FREED") {
                            res.problems.push(("freed-in-result:module-cell".into(), format!("step {}: {}", si, sh)));
                        }
                        res.outcomes.push(sh)
                    }
                    Err(e) => res.outcomes.push(format!("load-error {}", esc(&e).chars().take(200).collect::<String>())),
                }
                check_events(&mut res, "load-cell");
            }
        }
    }
    drop(handles);
    res
}

trait RootValueOf {
    fn root_value_of(&self, v: gluon::vm::Variants) -> RVal;
}
impl RootValueOf for RootedThread {
    fn root_value_of(&self, v: gluon::vm::Variants) -> RVal {
        use gluon::vm::thread::ThreadInternal;
        self.root_value(v)
    }
}

/// expected outcome line, as far as the generator knows it (`*` = only compared across strides)
fn expected_steps(p: &Prog) -> Vec<Option<String>> {
    p.steps
        .iter()
        .map(|s| match s {
            Step::Load { .. } | Step::DefineCell { .. } => Some("loaded".to_string()),
            Step::Eval { expect, .. } => expect.clone(),
            Step::Collect => Some("collected".to_string()),
            Step::CheckHandles => None,
            Step::StoreCell { .. } => Some("stored".to_string()),
            Step::LoadCell { expect, .. } => Some(expect.clone()),
        })
        .collect()
}

fn child_main(args: &Args, stride: usize, start: usize) {
    verif::set_quarantine(true);
    let progs = prog_list(args);
    let tagname = format!("s{}", stride);
    let mut outf = std::fs::OpenOptions::new().create(true).append(true).open(args.out.join(format!("run_{}.jsonl", tagname))).unwrap();
    let progress = args.out.join(format!("progress_{}.txt", tagname));
    let mut vm_slot: Option<RootedThread> = None;
    let mut used = 0;
    for (i, p) in progs.iter().enumerate() {
        if i < start {
            continue;
        }
        std::fs::write(&progress, format!("{}", i)).unwrap();
        // one VM serves a batch of programs (module names are unique per program); it is renewed
        // regularly and after any program that misbehaved
        if vm_slot.is_none() || used >= 24 {
            verif::set_stride(0);
            vm_slot = None;
            vm_slot = Some(new_vm());
            used = 0;
        }
        used += 1;
        let vm = vm_slot.clone().unwrap();
        let r = catch_unwind(AssertUnwindSafe(|| {
            verif::set_stride(0);
            // warm-up (compiles everything, loads the modules), then the baseline
            verif::set_stride(stride);
            let warm = run_steps(&vm, p, "w");
            verif::set_stride(0);
            vm.collect();
            let _ = verif::take_events();
            let base = vm.allocated_memory();
            verif::set_stride(stride);
            let before = verif::forced_collections();
            let run = run_steps(&vm, p, "m");
            let forced = verif::forced_collections() - before;
            verif::set_stride(0);
            vm.collect();
            let ev = verif::take_events();
            let after = vm.allocated_memory();
            (warm, run, base, after, forced, ev)
        }));
        let line = match r {
            Ok((warm, run, base, after, forced, ev)) => {
                let mut problems: Vec<(String, String)> = run.problems.clone();
                for (k, d) in &warm.problems {
                    problems.push((format!("{}:warm-up", k), d.clone()));
                }
                if !ev.is_empty() {
                    problems.push(("dangling-reached:final-collect".into(), ev.join(" ; ")));
                }
                if warm.outcomes != run.outcomes {
                    problems.push(("second-run-differs".into(), format!("warm-up {:?} measured {:?}", warm.outcomes, run.outcomes)));
                }
                serde_json::json!({"prog": i, "stride": stride, "outcomes": run.outcomes, "problems": problems, "base": base, "after": after, "forced": forced})
            }
            Err(_) => serde_json::json!({"prog": i, "stride": stride, "outcomes": ["panic"], "problems": [["panic", "the VM panicked"]], "base": 0, "after": 0, "forced": 0}),
        };
        if line["problems"].as_array().map(|a| !a.is_empty()).unwrap_or(true) || line["base"] != line["after"] {
            // do not let a damaged heap influence the next program
            std::mem::forget(vm_slot.take());
        }
        writeln!(outf, "{}", line).unwrap();
        outf.flush().unwrap();
    }
    std::fs::write(&progress, "done").unwrap();
}

fn case_json(i: usize, p: &Prog, stride: usize) -> serde_json::Value {
    let steps: Vec<serde_json::Value> = p
        .steps
        .iter()
        .map(|s| match s {
            Step::Load { module, src } => serde_json::json!({"load": module, "src": src}),
            Step::DefineCell { module, src } => serde_json::json!({"define-cell": module, "src": src}),
            Step::Eval { src, expect, hold, .. } => serde_json::json!({"eval": src, "expect": expect, "hold": hold}),
            Step::Collect => serde_json::json!("collect"),
            Step::CheckHandles => serde_json::json!("check-handles"),
            Step::StoreCell { module, src } => serde_json::json!({"store-cell": module, "src": src}),
            Step::LoadCell { module, expect } => serde_json::json!({"load-cell": module, "expect": expect}),
        })
        .collect();
    serde_json::json!({"prog": i, "family": p.family, "stride": stride, "steps": steps})
}


// ------------------------------------------------------------------------------------------------
// collect replay: dump the heap before a real collection, let the extracted model collect the dump
// (coq/extract/c05), compare which of the dumped objects are freed.

struct RForest {
    gcs: Vec<usize>,            // heap index -> Gc identity: 0 G | 1 R | 2 A | 3 B | 4 AA
    parents: Vec<Option<usize>>,
    ths: Vec<(&'static str, RootedThread, usize)>, // (name, thread, heap)
}

impl RForest {
    fn new() -> RForest {
        let r = new_vm();
        r.run_expr::<()>("prelude2", &format!("{}{}()", HDR, LIB)).unwrap_or_else(|e| panic!("prelude: {}", e));
        let a = r.new_thread().unwrap();
        let b = r.new_thread().unwrap();
        let aa = a.new_thread().unwrap();
        let gcs = vec![r.verif_global_gc_id(), r.verif_gc_id(), a.verif_gc_id(), b.verif_gc_id(), aa.verif_gc_id()];
        RForest { gcs, parents: vec![None, Some(0), Some(1), Some(1), Some(2)], ths: vec![("R", r, 1), ("A", a, 2), ("B", b, 3), ("AA", aa, 4)] }
    }
    fn heap_of_gc(&self, gc: usize) -> Option<usize> {
        self.gcs.iter().position(|g| *g == gc)
    }
}

fn model_kind(kind: &str) -> u8 {
    match kind {
        "data" => 0,
        "closure" => 1,
        "papp" => 2,
        "array:unknown" => 3,
        "array:array" => 4,
        "array:string" => 5,
        "array:byte" | "array:int" | "array:float" => 6,
        "array:userdata" => 7,
        "string" => 8,
        "extern" => 9,
        "bytecode" => 10,
        "reference" | "lazy:thunk" | "lazy:value" => 11,
        _ => 12,
    }
}

fn replay_values() -> Vec<String> {
    let mut v: Vec<String> = container_values().into_iter().map(|(_, b)| b.to_string()).collect();
    v.push("type L = | N | C String L\nC (mk \"l1\") (C (mk \"l2\") (C \"lit\" N))".into());
    v.push("rec\ntype A = { b : B, k : Int, s : String }\ntype B = { a : A, z : Array String }\nrec\nlet x : A = { b = y, k = 1, s = mk \"cy\" }\nlet y : B = { a = x, z = [mk \"c1\", mk \"c2\"] }\nx".into());
    v.push("ref { v = 1, s = [mk \"rf\"] }".into());
    v.push("let l = lazy (\\_ -> { xs = [mk \"lz\"], k = 2 })\nlet k = (force l).k\n{ l, k }".into());
    v.push("let s = { v = mk \"sh\" }\n{ l = s, r = s, arr = [s, s] }".into());
    v.push("mk \"plain\"".into());
    v.push("42".into());
    v
}

/// One replay case; returns (model_in, impl_out, case json) or a skip reason
fn replay_case(f: &RForest, rng: &mut Rng, idx: usize) -> Result<(String, String, serde_json::Value), String> {
    let vals = replay_values();
    let nt = f.ths.len();
    // 1. values, each held by a host handle rooted in the thread that made it
    let mut handles: Vec<(RVal, usize, String)> = vec![];
    let nvals = 2 + rng.below(4) as usize;
    let mut descr = vec![];
    for _ in 0..nvals {
        let t = rng.below(nt as u64) as usize;
        let k = rng.below(vals.len() as u64) as usize;
        let src = format!("{}{}{}", HDR, LIB, vals[k]);
        match f.ths[t].1.run_expr::<Val>("value", &src) {
            Ok((v, _)) => {
                descr.push(format!("{}:value#{}", f.ths[t].0, k));
                handles.push((v.into_inner(), t, format!("value#{} made by {}", k, f.ths[t].0)));
            }
            Err(e) => return Err(format!("value-error {}", esc(&e.to_string()).chars().take(120).collect::<String>())),
        }
    }
    // a value the host holds must never reach a freed object (natural collections have run already)
    let held_freed = |handles: &Vec<(RVal, usize, String)>| -> Option<String> {
        for (h, _, d) in handles {
            let g = verif::graph(h.get_value());
            let idx: HashMap<usize, usize> = g.nodes.iter().enumerate().map(|(i, n)| (n.addr, i)).collect();
            for n in &g.nodes {
                for (k, e) in n.edges.iter().enumerate() {
                    if let GraphEdge::Ptr(a) = e {
                        if let Some(m) = idx.get(a).map(|j| &g.nodes[*j]) {
                            if m.freed {
                                return Some(format!("held-freed {} field {} of a `{}` in {}", n.kind, k, n.kind, d));
                            }
                        }
                    }
                }
            }
            if g.nodes.first().map(|n| n.freed).unwrap_or(false) {
                return Some(format!("held-freed root the object of {}", d));
            }
        }
        None
    };
    if let Some(e) = held_freed(&handles) {
        return Err(e);
    }
    // 2. some values are also handed to another thread (copied, or shared when the receiver may hold them)
    let nshare = rng.below(3) as usize;
    for _ in 0..nshare {
        let i = rng.below(handles.len() as u64) as usize;
        let t = rng.below(nt as u64) as usize;
        if let Ok(w) = handles[i].0.re_root(f.ths[t].1.clone()) {
            descr.push(format!("{}->{}", handles[i].2, f.ths[t].0));
            let d = format!("{} re-rooted in {}", handles[i].2, f.ths[t].0);
            handles.push((w, t, d));
        }
    }
    // leave only what the handles (and the threads' own roots) keep alive: after this, what the
    // replayed collection frees is exactly what dropping handles made unreachable
    // (every other case: without it the replayed collection is the first one after the values were
    // built, and the heaps still hold the garbage of their construction — no accounting comparison then)
    let precollected = idx % 2 == 0;
    if precollected {
        for (_, th, _) in f.ths.iter().rev() {
            th.collect();
        }
    }
    if let Some(e) = held_freed(&handles) {
        return Err(e);
    }
    // 3. the dump: every object reachable from any handle
    let mut addr_idx: HashMap<usize, usize> = HashMap::new();
    let mut nodes: Vec<gluon_vm::verif::GraphNode> = vec![];
    let mut handle_roots: Vec<Option<usize>> = vec![];
    for (h, _, _) in &handles {
        let g = verif::graph(h.get_value());
        for n in &g.nodes {
            if n.freed {
                return Err("a fresh handle already reaches a freed object".into());
            }
            if !addr_idx.contains_key(&n.addr) {
                addr_idx.insert(n.addr, nodes.len());
                nodes.push(n.clone());
            }
        }
        handle_roots.push(match g.root {
            GraphEdge::Ptr(a) => Some(a),
            _ => None,
        });
    }
    if nodes.is_empty() {
        return Err("nothing on the heap".into());
    }
    // 4. drop some handles, then take the root census with the real tracer
    let mut keep: Vec<(RVal, usize, String)> = vec![];
    let mut kept_roots: Vec<(usize, usize)> = vec![]; // (heap, object id)
    let mut dropped = vec![];
    for (i, (h, t, d)) in handles.into_iter().enumerate() {
        if rng.chance(1, 2) {
            dropped.push(d);
            drop(h);
        } else {
            if let Some(a) = handle_roots[i] {
                kept_roots.push((f.ths[t].2, addr_idx[&a]));
            }
            keep.push((h, t, d));
        }
    }
    let mut roots: Vec<Vec<usize>> = vec![vec![]; f.gcs.len()];
    for (_, th, heap) in &f.ths {
        for n in th.verif_walk() {
            if let Some(i) = addr_idx.get(&n.addr) {
                roots[*heap].push(*i);
            }
        }
    }
    // a handle the host still holds is a root whatever the tracer thinks
    for (h, i) in &kept_roots {
        if !roots[*h].contains(i) {
            roots[*h].push(*i);
        }
    }
    for r in roots.iter_mut() {
        r.sort();
        r.dedup();
    }
    // 5. model input
    let mut objs = vec![];
    for n in &nodes {
        let owner = f.heap_of_gc(n.owner).ok_or_else(|| format!("object of kind {} has an unknown owner", n.kind))?;
        let es: Vec<String> = n
            .edges
            .iter()
            .map(|e| match e {
                GraphEdge::Imm(_) => "i0".to_string(),
                GraphEdge::Ptr(a) => format!("p{}", addr_idx[a]),
            })
            .collect();
        objs.push(format!("{}:{}:{}:0:{}", owner, n.generation, model_kind(&n.kind), if es.is_empty() { "-".to_string() } else { es.join(".") }));
    }
    let ct = rng.below(nt as u64) as usize;
    let tree: Vec<String> = f.parents.iter().map(|p| p.map(|x| x.to_string()).unwrap_or("-".into())).collect();
    let roots_field: Vec<String> = roots.iter().enumerate().filter(|(_, r)| !r.is_empty()).map(|(h, r)| format!("{}:{}", h, r.iter().map(|x| x.to_string()).collect::<Vec<_>>().join("."))).collect();
    let model_in = format!("tree={};objs={};roots={};collect={}", tree.join(","), objs.join("|"), roots_field.join("|"), f.ths[ct].2);
    // path from a root to every object (for the reports)
    let mut path: Vec<Option<String>> = vec![None; nodes.len()];
    let mut queue = std::collections::VecDeque::new();
    for (h, r) in roots.iter().enumerate() {
        for i in r {
            if path[*i].is_none() {
                path[*i] = Some(format!("root of heap {} -> {}", h, nodes[*i].kind));
                queue.push_back(*i);
            }
        }
    }
    while let Some(i) = queue.pop_front() {
        for (k, e) in nodes[i].edges.iter().enumerate() {
            if let GraphEdge::Ptr(a) = e {
                let j = addr_idx[a];
                if path[j].is_none() {
                    path[j] = Some(format!("{} .{} -> {}", path[i].clone().unwrap(), k, nodes[j].kind));
                    queue.push_back(j);
                }
            }
        }
    }
    // 6. the real collection
    let _ = verif::take_events();
    let before: Vec<usize> = f.ths.iter().map(|t| t.1.allocated_memory()).collect();
    f.ths[ct].1.collect();
    let after: Vec<usize> = f.ths.iter().map(|t| t.1.allocated_memory()).collect();
    let shrunk: Vec<usize> = (0..f.ths.len()).filter(|i| after[*i] < before[*i]).map(|i| f.ths[i].2).collect();
    let grew: Vec<usize> = (0..f.ths.len()).filter(|i| after[*i] > before[*i]).map(|i| f.ths[i].2).collect();
    let events = verif::take_events();
    let freed: Vec<String> = nodes.iter().enumerate().filter(|(_, n)| verif::is_freed(n.addr)).map(|(i, _)| i.to_string()).collect();
    let impl_out = format!("ok freed={}", freed.join(","));
    let mut case = serde_json::json!({
        "replay_case": idx,
        "setup": descr,
        "dropped": dropped,
        "collect": f.ths[ct].0,
        "kinds": nodes.iter().map(|n| n.kind.clone()).collect::<Vec<_>>(),
        "owners": nodes.iter().map(|n| f.heap_of_gc(n.owner).unwrap_or(99)).collect::<Vec<_>>(),
        "paths": path,
        "allocated_before": before,
        "allocated_after": after,
        "events": events,
    });
    if precollected {
        case["shrunk"] = serde_json::json!(shrunk);
        case["grew"] = serde_json::json!(grew);
    }
    // a damaged heap (something the host still holds was freed) must not be used any further
    if held_freed(&keep).is_some() {
        case["damaged"] = serde_json::json!(true);
        std::mem::forget(keep);
        return Ok((model_in, impl_out, case));
    }
    // clean up: everything goes, leaf heaps first
    drop(keep);
    for (_, th, _) in f.ths.iter().rev() {
        th.collect();
    }
    let _ = verif::take_events();
    Ok((model_in, impl_out, case))
}

fn replay_child(args: &Args, start: usize) {
    verif::set_quarantine(true);
    verif::set_stride(0);
    let n = args.extra.get("replays").and_then(|s| s.parse().ok()).unwrap_or(if args.thorough() { 6000 } else { 400 });
    let open = |name: &str| std::io::BufWriter::new(std::fs::OpenOptions::new().create(true).append(true).open(args.out.join(name)).unwrap());
    let (mut mi, mut io, mut cs) = (open("creplay_model_in.txt"), open("creplay_impl_out.txt"), open("creplay_cases.txt"));
    let progress = args.out.join("creplay_progress.txt");
    let mut f = RForest::new();
    for i in 0..n {
        // every case draws from its own generator so that a restart after a crash continues identically
        let mut rng = Rng::new(args.seed.wrapping_mul(1_000_003).wrapping_add(i as u64));
        if i < start {
            continue;
        }
        std::fs::write(&progress, format!("{}", i)).unwrap();
        if i > start && i % 150 == 0 {
            f = RForest::new();
        }
        let r = catch_unwind(AssertUnwindSafe(|| replay_case(&f, &mut rng, i)));
        let (a, b, c) = match r {
            Ok(Ok(x)) => {
                if x.2["damaged"].as_bool() == Some(true) {
                    std::mem::forget(std::mem::replace(&mut f, RForest::new()));
                }
                x
            }
            Ok(Err(why)) if why.starts_with("held-freed") => {
                // the heap is damaged: start over with a fresh forest
                std::mem::forget(std::mem::replace(&mut f, RForest::new()));
                ("skip".to_string(), why.clone(), serde_json::json!({"replay_case": i, "held_freed": why}))
            }
            Ok(Err(why)) => ("skip".to_string(), "skip".to_string(), serde_json::json!({"replay_case": i, "skipped": why})),
            Err(_) => {
                f = RForest::new();
                ("skip".to_string(), "panic".to_string(), serde_json::json!({"replay_case": i, "panic": true}))
            }
        };
        writeln!(mi, "{}", a).unwrap();
        writeln!(io, "{}", b).unwrap();
        writeln!(cs, "{}", c).unwrap();
        if i % 20 == 0 {
            mi.flush().unwrap();
            io.flush().unwrap();
            cs.flush().unwrap();
        }
    }
    mi.flush().unwrap();
    io.flush().unwrap();
    cs.flush().unwrap();
    std::fs::write(&progress, "done").unwrap();
}

fn main() {
    let args = Args::parse();
    if args.rest.iter().any(|a| a == "creplay") {
        let start = args.extra.get("start").and_then(|s| s.parse().ok()).unwrap_or(0);
        replay_child(&args, start);
        return;
    }
    if args.rest.iter().any(|a| a == "child") {
        let stride = args.extra.get("stride").and_then(|s| s.parse().ok()).unwrap_or(0);
        let start = args.extra.get("start").and_then(|s| s.parse().ok()).unwrap_or(0);
        child_main(&args, stride, start);
        return;
    }
    if let Some(path) = &args.replay {
        let v: serde_json::Value = serde_json::from_str(&std::fs::read_to_string(path).expect("replay file")).expect("json");
        if let Some(i) = v["case"]["replay_case"].as_u64() {
            // a collect-replay case: re-run exactly that case and show both sides' inputs
            let mut a = Args::parse();
            a.seed = v["seed"].as_u64().unwrap_or(a.seed);
            a.out = std::path::Path::new(env!("CARGO_MANIFEST_DIR")).join("../.cache/replay-c05");
            std::fs::create_dir_all(&a.out).ok();
            for n in ["creplay_model_in.txt", "creplay_impl_out.txt", "creplay_cases.txt"] {
                let _ = std::fs::remove_file(a.out.join(n));
            }
            a.extra.insert("replays".into(), format!("{}", i + 1));
            println!("key: {}\ncase: {}", v["key"], v["case"]);
            replay_child(&a, i as usize);
            for n in ["creplay_model_in.txt", "creplay_impl_out.txt", "creplay_cases.txt"] {
                println!("{}: {}", n, std::fs::read_to_string(a.out.join(n)).unwrap_or_default().trim());
            }
            println!("(feed creplay_model_in.txt to .cache/extract/c05/model to see the model's freed set)");
            return;
        }
    }
    let progs = prog_list(&args);
    let (only_prog, strides): (Option<usize>, Vec<usize>) = if let Some(path) = &args.replay {
        let v: serde_json::Value = serde_json::from_str(&std::fs::read_to_string(path).expect("replay file")).expect("json");
        println!("key: {}\ncase: {}", v["key"], v["case"]);
        println!("(re-running program {} of seed {} tier {} under every stride)", v["case"]["prog"], v["seed"], v["tier"]);
        (v["case"]["prog"].as_u64().map(|x| x as usize), STRIDES.to_vec())
    } else {
        (None, STRIDES.to_vec())
    };
    let mut args = args;
    if args.replay.is_some() {
        args.out = std::path::Path::new(env!("CARGO_MANIFEST_DIR")).join("../.cache/replay-c05");
        std::fs::create_dir_all(&args.out).ok();
    }
    for e in std::fs::read_dir(&args.out).unwrap().flatten() {
        let n = e.file_name().to_string_lossy().to_string();
        if n.starts_with("run_") || n.starts_with("progress_") || n.starts_with("creplay_") {
            let _ = std::fs::remove_file(e.path());
        }
    }
    // one child per stride, all in parallel; a crash is attributed to (program, stride) and the
    // child restarted after it
    let exe = std::env::current_exe().unwrap();
    let budget = std::time::Duration::from_secs(if args.thorough() { 3000 } else { 700 });
    let t0 = std::time::Instant::now();
    let mut crashes: Vec<(usize, usize, String)> = vec![];
    let spawn = |stride: usize, start: usize| {
        let mut c = std::process::Command::new(&exe);
        c.args(["--tier", &args.tier, "--seed", &args.seed.to_string(), "--out", args.out.to_str().unwrap(), "child", &format!("stride={}", stride), &format!("start={}", start)]);
        if let Some(p) = args.extra.get("programs") {
            c.arg(format!("programs={}", p));
        }
        c.stdout(std::process::Stdio::null()).stderr(std::process::Stdio::null()).spawn().expect("spawn child")
    };
    // the collect replay runs next to the stride children (not for a --replay of one program)
    let spawn_creplay = |start: usize| {
        let mut c = std::process::Command::new(&exe);
        c.args(["--tier", &args.tier, "--seed", &args.seed.to_string(), "--out", args.out.to_str().unwrap(), "creplay", &format!("start={}", start)]);
        if let Some(p) = args.extra.get("replays") {
            c.arg(format!("replays={}", p));
        }
        c.stdout(std::process::Stdio::null()).stderr(std::process::Stdio::null()).spawn().expect("spawn creplay")
    };
    let mut creplay = if only_prog.is_none() { Some(spawn_creplay(0)) } else { None };
    let first = only_prog.unwrap_or(0);
    let mut running: Vec<(usize, std::process::Child, usize)> = strides.iter().map(|s| (*s, spawn(*s, first), 0usize)).collect();
    while !running.is_empty() {
        std::thread::sleep(std::time::Duration::from_millis(100));
        let mut next = vec![];
        for (stride, mut child, ncrash) in running.drain(..) {
            let timed_out = t0.elapsed() > budget;
            let progress_path = args.out.join(format!("progress_s{}.txt", stride));
            let progress = std::fs::read_to_string(&progress_path).unwrap_or_default();
            if let (Some(only), Ok(i)) = (only_prog, progress.parse::<usize>()) {
                if i > only {
                    let _ = child.kill();
                    let _ = child.wait();
                    continue;
                }
            }
            match child.try_wait().unwrap() {
                None if !timed_out => next.push((stride, child, ncrash)),
                None => {
                    let _ = child.kill();
                    let _ = child.wait();
                    crashes.push((progress.parse().unwrap_or(usize::MAX), stride, "watchdog: the run did not finish in time".into()));
                }
                Some(st) => {
                    if st.success() && progress == "done" {
                        continue;
                    }
                    let i: usize = progress.parse().unwrap_or(usize::MAX);
                    crashes.push((i, stride, format!("child process died: {}", st)));
                    if i != usize::MAX && ncrash < 8 && only_prog.is_none() {
                        next.push((stride, spawn(stride, i + 1), ncrash + 1));
                    }
                }
            }
        }
        running = next;
    }
    // supervise the collect replay: a crash is attributed to the case in progress, then it goes on
    let mut creplay_crashes: Vec<(usize, String)> = vec![];
    while let Some(mut child) = creplay.take() {
        let status = loop {
            match child.try_wait().unwrap() {
                Some(st) => break Some(st),
                None if t0.elapsed() > budget => {
                    let _ = child.kill();
                    let _ = child.wait();
                    break None;
                }
                None => std::thread::sleep(std::time::Duration::from_millis(100)),
            }
        };
        let progress = std::fs::read_to_string(args.out.join("creplay_progress.txt")).unwrap_or_default();
        if status.map(|s| s.success()).unwrap_or(false) && progress == "done" {
            break;
        }
        let i: usize = progress.parse().unwrap_or(usize::MAX);
        creplay_crashes.push((i, status.map(|s| format!("child process died: {}", s)).unwrap_or("watchdog".into())));
        if status.is_none() || i == usize::MAX || creplay_crashes.len() >= 12 {
            break;
        }
        // realign the three files to i lines and mark the crashed case
        for (name, filler) in [("creplay_model_in.txt", "skip"), ("creplay_impl_out.txt", "crash"), ("creplay_cases.txt", "{\"crashed\":true}")] {
            let mut l: Vec<String> = std::fs::read_to_string(args.out.join(name)).unwrap_or_default().lines().map(|x| x.to_string()).collect();
            l.truncate(i);
            while l.len() < i {
                l.push(if name == "creplay_cases.txt" { "{\"lost\":true}".to_string() } else { "skip".to_string() });
            }
            l.push(filler.to_string());
            std::fs::write(args.out.join(name), l.join("\n") + "\n").unwrap();
        }
        creplay = Some(spawn_creplay(i + 1));
    }
    // collect results
    let mut results: HashMap<(usize, usize), serde_json::Value> = HashMap::new();
    for s in &strides {
        if let Ok(text) = std::fs::read_to_string(args.out.join(format!("run_s{}.jsonl", s))) {
            for l in text.lines() {
                if let Ok(v) = serde_json::from_str::<serde_json::Value>(l) {
                    results.insert((v["prog"].as_u64().unwrap_or(0) as usize, *s), v);
                }
            }
        }
    }
    let mut expected = args.file("expected.txt");
    let mut impl_out = args.file("impl_out.txt");
    let mut cases = args.file("cases.txt");
    let mut viol = args.file("violations.jsonl");
    let mut hist = Hist::default();
    let mut seen: HashSet<String> = HashSet::new();
    let mut nviol = 0u64;
    let mut evaluations = 0u64;
    let mut distinct: HashSet<u64> = HashSet::new();
    let mut forced_total = 0u64;
    let mut violation = |key: String, what: String, case: serde_json::Value, exp: String, obs: String, hist: &mut Hist| {
        nviol += 1;
        hist.add(&format!("violation:{}", key));
        if seen.insert(key.clone()) {
            writeln!(viol, "{}", serde_json::json!({"key": key, "what": what, "case": case, "expected": exp, "observed": obs})).unwrap();
        }
    };
    for (i, p) in progs.iter().enumerate() {
        if let Some(only) = only_prog {
            if i != only {
                continue;
            }
        }
        let known = expected_steps(p);
        // reference for the steps the generator has no closed form for: the run without forced collections
        let reference: Option<Vec<String>> = results.get(&(i, 0)).map(|v| v["outcomes"].as_array().map(|a| a.iter().map(|x| x.as_str().unwrap_or("").to_string()).collect()).unwrap_or_default());
        for s in &strides {
            let case = case_json(i, p, *s);
            hist.add(&format!("family:{}", p.family));
            hist.add(&format!("stride:{}", if *s == 0 { "off".to_string() } else { s.to_string() }));
            let exp_line: Vec<String> = known
                .iter()
                .enumerate()
                .map(|(j, k)| match k {
                    Some(x) => x.clone(),
                    None => reference.as_ref().and_then(|r| r.get(j).cloned()).unwrap_or("?".into()),
                })
                .collect();
            writeln!(expected, "{}", exp_line.join(" ;; ")).unwrap();
            writeln!(cases, "{}", case).unwrap();
            match results.get(&(i, *s)) {
                None => {
                    writeln!(impl_out, "crash").unwrap();
                    let why = crashes.iter().find(|c| c.0 == i && c.1 == *s).map(|c| c.2.clone()).unwrap_or("no result (an earlier crash stopped this stride)".into());
                    if crashes.iter().any(|c| c.0 == i && c.1 == *s) {
                        violation(format!("c05:crash:{}", p.family), format!("the process died while running a `{}` program under stride {} ({})", p.family, s, why), case, exp_line.join(" ;; "), why, &mut hist);
                    }
                }
                Some(v) => {
                    evaluations += p.steps.len() as u64;
                    forced_total += v["forced"].as_u64().unwrap_or(0);
                    let outs: Vec<String> = v["outcomes"].as_array().map(|a| a.iter().map(|x| x.as_str().unwrap_or("").to_string()).collect()).unwrap_or_default();
                    writeln!(impl_out, "{}", outs.join(" ;; ")).unwrap();
                    distinct.insert(fnv(format!("{}|{}", s, outs.join("|")).as_bytes()));
                    if outs != exp_line {
                        let j = (0..exp_line.len().max(outs.len())).find(|j| exp_line.get(*j) != outs.get(*j)).unwrap_or(0);
                        let stepname = match p.steps.get(j) {
                            Some(Step::Eval { .. }) => "eval",
                            Some(Step::LoadCell { .. }) => "load-cell",
                            Some(Step::CheckHandles) => "handles",
                            Some(Step::Load { .. }) | Some(Step::DefineCell { .. }) => "load",
                            Some(Step::StoreCell { .. }) => "store-cell",
                            _ => "step",
                        };
                        violation(
                            format!("c05:outcome:{}:{}", p.family, stepname),
                            format!("a `{}` program gives a different outcome at step {} under collection stride {} than the generator expects / than without forced collections", p.family, j, if *s == 0 { "off".to_string() } else { s.to_string() }),
                            case.clone(),
                            exp_line.get(j).cloned().unwrap_or_default(),
                            outs.get(j).cloned().unwrap_or_default(),
                            &mut hist,
                        );
                    }
                    if let Some(ps) = v["problems"].as_array() {
                        for pr in ps {
                            let k = pr[0].as_str().unwrap_or("?");
                            violation(format!("c05:{}:{}", k, p.family), format!("`{}` program, stride {}: {}", p.family, s, k), case.clone(), "no freed object reached, handles unchanged".into(), pr[1].as_str().unwrap_or("").chars().take(600).collect(), &mut hist);
                        }
                    }
                    let (base, after) = (v["base"].as_u64().unwrap_or(0), v["after"].as_u64().unwrap_or(0));
                    if base != after {
                        violation(
                            format!("c05:not-reclaimed:{}", p.family),
                            format!("after dropping every handle and collecting, allocated_memory() is {} but the baseline on the same VM was {} (`{}` program, stride {})", after, base, p.family, s),
                            case.clone(),
                            base.to_string(),
                            after.to_string(),
                            &mut hist,
                        );
                    }
                }
            }
        }
    }
    for (i, why) in &creplay_crashes {
        violation(format!("c05:replay-crash"), format!("the process died during collect-replay case {} ({})", i, why), serde_json::json!({"replay_case": i, "seed": args.seed, "tier": args.tier}), "no crash".into(), why.clone(), &mut hist);
    }
    expected.flush().unwrap();
    impl_out.flush().unwrap();
    cases.flush().unwrap();
    viol.flush().unwrap();
    gvh::out::write_json(
        &args.out.join("stats.json"),
        &serde_json::json!({
            "evaluations": evaluations,
            "distinct_nontrivial": distinct.len(),
            "programs": progs.len(),
            "strides": STRIDES,
            "forced_collections": forced_total,
            "violations_observed": nviol,
            "crashes": crashes.len(),
            "rule": "one evaluation = one step (evaluation / module load / cell store or load / handle check / explicit collection) of one program under one stride; every program allocates in loops (no trivial ones); distinct = distinct (stride, outcome vector)",
            "hist": hist.to_json(),
        }),
    );
    if args.replay.is_some() {
        println!("{}", std::fs::read_to_string(args.out.join("violations.jsonl")).unwrap_or_default());
    }
}
