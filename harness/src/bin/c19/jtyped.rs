//! json family, typed level: random record / variant declarations with
//! `#[derive(Serialize, Deserialize)]`, values of them written with std.json.ser.to_string and read
//! back with std.json.de.deserialize at the same type.
//!
//! case line:  jtyped <decls> <ty> <val> <json>
//!   decls = decl ("/" decl)*     decl = "r:" <hex field> "=" ty ("," ...)*  |  "v:" <hex ctor> "=" ty ("|" ...)*
//!   ty    = I | D (Float) | S | B | O<ty> (Option) | A<ty> (Array) | M<ty> (Map String) | T<n>;   (types end with ';' after T<n>)
//!   val   = i<int> | F<16 hex bits> | s<hex> | t | f | N | S<val> | a[vals] | m[<hex key>:val,..] | r[vals] | c<k>[val]
//!   json  = the JSON value the documented encoding gives (syntax of json.rs, floats with tokens):
//!           record -> object (members sorted by field name), variant -> its argument (untagged),
//!           None -> null, Some x -> x, map -> object.  It is the input of the Coq writer/reader model.
//! The declarations are generated so that the untagged encoding is unambiguous (the derived reader
//! tries the alternatives in order): alternatives have pairwise different JSON shapes, an Int
//! alternative precedes a Float alternative (the float reader accepts integers), no alternative and
//! no Option argument is nullable.  Under these conditions the property demands the identity
//! (floats by bit pattern).
//! Not generated: Result (std.json.ser has no serializer for it), List (no serializer), nullary or
//! multi-argument constructors (the derive macros reject them), type parameters.
use super::derive::gluon_string_literal;
use super::json::{self, J, hex, unhex};
use super::{Val, Vm};
use gluon::ThreadExt;
use gluon::vm::api::{Getable, OwnedFunction, ValueRef};
use gvh::out::Hist;
use gvh::rng::Rng;
use std::panic::{AssertUnwindSafe, catch_unwind};

#[derive(Clone, Debug, PartialEq)]
pub enum TTy {
    Int,
    Float,
    Str,
    Bool,
    Opt(Box<TTy>),
    Arr(Box<TTy>),
    Map(Box<TTy>),
    Ref(usize),
}
#[derive(Clone, Debug, PartialEq)]
pub enum TDecl {
    Record(Vec<(String, TTy)>),
    Variant(Vec<(String, TTy)>),
}
#[derive(Clone, Debug, PartialEq)]
pub enum TV {
    Int(i64),
    Float(u64),
    Str(String),
    Bool(bool),
    None,
    Some(Box<TV>),
    Arr(Vec<TV>),
    Map(Vec<(String, TV)>),
    Rec(Vec<TV>),
    Con(usize, Box<TV>),
}
#[derive(Clone, Debug)]
pub struct TCase {
    pub decls: Vec<TDecl>,
    pub ty: TTy,
    pub v: TV,
}

fn p_ty(t: &TTy) -> String {
    match t {
        TTy::Int => "I".into(),
        TTy::Float => "D".into(),
        TTy::Str => "S".into(),
        TTy::Bool => "B".into(),
        TTy::Opt(x) => format!("O{}", p_ty(x)),
        TTy::Arr(x) => format!("A{}", p_ty(x)),
        TTy::Map(x) => format!("M{}", p_ty(x)),
        TTy::Ref(n) => format!("T{};", n),
    }
}
fn parse_ty(s: &[u8], i: &mut usize) -> Option<TTy> {
    let c = *s.get(*i)?;
    *i += 1;
    Some(match c {
        b'I' => TTy::Int,
        b'D' => TTy::Float,
        b'S' => TTy::Str,
        b'B' => TTy::Bool,
        b'O' => TTy::Opt(Box::new(parse_ty(s, i)?)),
        b'A' => TTy::Arr(Box::new(parse_ty(s, i)?)),
        b'M' => TTy::Map(Box::new(parse_ty(s, i)?)),
        b'T' => {
            let st = *i;
            while s.get(*i)?.is_ascii_digit() {
                *i += 1;
            }
            let n = std::str::from_utf8(&s[st..*i]).ok()?.parse().ok()?;
            *i += 1; // ;
            TTy::Ref(n)
        }
        _ => return None,
    })
}

pub fn p_val(v: &TV) -> String {
    match v {
        TV::Int(i) => format!("i{}", i),
        TV::Float(b) => format!("F{:016x}", b),
        TV::Str(s) => format!("s{}", hex(s.as_bytes())),
        TV::Bool(true) => "t".into(),
        TV::Bool(false) => "f".into(),
        TV::None => "N".into(),
        TV::Some(x) => format!("S{}", p_val(x)),
        TV::Arr(xs) => format!("a[{}]", xs.iter().map(p_val).collect::<Vec<_>>().join(",")),
        TV::Map(kv) => format!("m[{}]", kv.iter().map(|(k, v)| format!("{}:{}", hex(k.as_bytes()), p_val(v))).collect::<Vec<_>>().join(",")),
        TV::Rec(xs) => format!("r[{}]", xs.iter().map(p_val).collect::<Vec<_>>().join(",")),
        TV::Con(k, x) => format!("c{}[{}]", k, p_val(x)),
    }
}
fn parse_val(p: &mut json::P) -> Option<TV> {
    let c = p.peek();
    p.i += 1;
    let list = |p: &mut json::P| -> Option<Vec<TV>> {
        p.i += 1; // [
        let mut xs = vec![];
        while p.peek() != b']' {
            xs.push(parse_val(p)?);
            if p.peek() == b',' {
                p.i += 1;
            }
        }
        p.i += 1;
        Some(xs)
    };
    Some(match c {
        b'i' => TV::Int(p.num()?),
        b'F' => {
            let h = std::str::from_utf8(&p.s[p.i..p.i + 16]).ok()?;
            p.i += 16;
            TV::Float(u64::from_str_radix(h, 16).ok()?)
        }
        b's' => TV::Str(String::from_utf8(unhex(&p.hexs())).ok()?),
        b't' => TV::Bool(true),
        b'f' => TV::Bool(false),
        b'N' => TV::None,
        b'S' => TV::Some(Box::new(parse_val(p)?)),
        b'a' => TV::Arr(list(p)?),
        b'r' => TV::Rec(list(p)?),
        b'c' => {
            let k = p.num()? as usize;
            let mut xs = list(p)?;
            TV::Con(k, Box::new(xs.pop()?))
        }
        b'm' => {
            p.i += 1;
            let mut kv = vec![];
            while p.peek() != b']' {
                let k = String::from_utf8(unhex(&p.hexs())).ok()?;
                p.i += 1;
                kv.push((k, parse_val(p)?));
                if p.peek() == b',' {
                    p.i += 1;
                }
            }
            p.i += 1;
            TV::Map(kv)
        }
        _ => return None,
    })
}

/// the documented encoding (see module comment)
pub fn encode(decls: &[TDecl], t: &TTy, v: &TV) -> J {
    match (t, v) {
        (_, TV::Int(i)) => J::Int(*i),
        (_, TV::Float(b)) => J::Float(*b),
        (_, TV::Str(s)) => J::Str(s.clone()),
        (_, TV::Bool(b)) => J::Bool(*b),
        (_, TV::None) => J::Null,
        (TTy::Opt(x), TV::Some(y)) => encode(decls, x, y),
        (TTy::Arr(x), TV::Arr(ys)) => J::Arr(ys.iter().map(|y| encode(decls, x, y)).collect()),
        (TTy::Map(x), TV::Map(kv)) => J::Obj(kv.iter().map(|(k, y)| (k.clone(), encode(decls, x, y))).collect()),
        (TTy::Ref(n), TV::Rec(ys)) => match &decls[*n] {
            TDecl::Record(fs) => {
                let mut kv: Vec<(String, J)> = fs.iter().zip(ys).map(|((name, ft), y)| (name.clone(), encode(decls, ft, y))).collect();
                kv.sort_by(|a, b| a.0.as_bytes().cmp(b.0.as_bytes()));
                J::Obj(kv)
            }
            _ => J::Null,
        },
        (TTy::Ref(n), TV::Con(k, y)) => match &decls[*n] {
            TDecl::Variant(alts) => encode(decls, &alts[*k].1, y),
            _ => J::Null,
        },
        _ => J::Null,
    }
}

impl TCase {
    pub fn line(&self) -> String {
        let decls = self
            .decls
            .iter()
            .map(|d| match d {
                TDecl::Record(fs) => format!("r:{}", fs.iter().map(|(n, t)| format!("{}={}", hex(n.as_bytes()), p_ty(t))).collect::<Vec<_>>().join(",")),
                TDecl::Variant(fs) => format!("v:{}", fs.iter().map(|(n, t)| format!("{}={}", hex(n.as_bytes()), p_ty(t))).collect::<Vec<_>>().join("|")),
            })
            .collect::<Vec<_>>()
            .join("/");
        format!("jtyped {} {} {} {}", decls, p_ty(&self.ty), p_val(&self.v), json::p_j(&encode(&self.decls, &self.ty, &self.v), true))
    }
    pub fn parse(a: &[&str]) -> Option<TCase> {
        let mut decls = vec![];
        for d in a[0].split('/') {
            let (kind, rest) = d.split_once(':')?;
            let sep = if kind == "r" { ',' } else { '|' };
            let mut fs = vec![];
            for f in rest.split(sep) {
                let (n, t) = f.split_once('=')?;
                fs.push((String::from_utf8(unhex(n)).ok()?, parse_ty(t.as_bytes(), &mut 0)?));
            }
            decls.push(if kind == "r" { TDecl::Record(fs) } else { TDecl::Variant(fs) });
        }
        let ty = parse_ty(a[1].as_bytes(), &mut 0)?;
        let v = parse_val(&mut json::P { s: a[2].as_bytes(), i: 0 })?;
        Some(TCase { decls, ty, v })
    }
    pub fn nontrivial(&self) -> bool {
        !matches!(self.v, TV::Int(_) | TV::Str(_) | TV::Bool(_) | TV::None)
    }
}

// ---- Gluon source ----

fn src_ty(t: &TTy, atom: bool) -> String {
    let par = |s: String| if atom { format!("({})", s) } else { s };
    match t {
        TTy::Int => "Int".into(),
        TTy::Float => "Float".into(),
        TTy::Str => "String".into(),
        TTy::Bool => "Bool".into(),
        TTy::Opt(x) => par(format!("Option {}", src_ty(x, true))),
        TTy::Arr(x) => par(format!("Array {}", src_ty(x, true))),
        TTy::Map(x) => par(format!("Map String {}", src_ty(x, true))),
        TTy::Ref(n) => format!("T{}", n),
    }
}

fn src_val(decls: &[TDecl], t: &TTy, v: &TV, floats: &mut Vec<f64>, atom: bool) -> String {
    let par = |s: String| if atom { format!("({})", s) } else { s };
    match (t, v) {
        (_, TV::Int(i)) => json::src_int(*i),
        (_, TV::Float(b)) => {
            floats.push(f64::from_bits(*b));
            format!("(array.index fs {})", floats.len() - 1)
        }
        (_, TV::Str(s)) => gluon_string_literal(s),
        (_, TV::Bool(b)) => (if *b { "True" } else { "False" }).into(),
        (_, TV::None) => "None".into(),
        (TTy::Opt(x), TV::Some(y)) => par(format!("Some {}", src_val(decls, x, y, floats, true))),
        (TTy::Arr(x), TV::Arr(ys)) => format!("[{}]", ys.iter().map(|y| src_val(decls, x, y, floats, false)).collect::<Vec<_>>().join(", ")),
        (TTy::Map(x), TV::Map(kv)) => {
            let mut s = String::from("map.empty");
            for (k, y) in kv.iter().rev() {
                let ys = src_val(decls, x, y, floats, true);
                s = format!("(map.insert {} {} {})", gluon_string_literal(k), ys, s);
            }
            s
        }
        (TTy::Ref(n), TV::Rec(ys)) => match &decls[*n] {
            // bound with its type: a bare record literal containing `None` / `[]` is generalised and
            // then rejected where a monomorphic record is expected (e.g. as a map value)
            TDecl::Record(fs) => format!(
                "(let rec_{n} : T{n} = {{ {} }} in rec_{n})",
                fs.iter().zip(ys).map(|((name, ft), y)| format!("{} = {}", name, src_val(decls, ft, y, floats, false))).collect::<Vec<_>>().join(", "),
                n = n
            ),
            _ => "?".into(),
        },
        (TTy::Ref(n), TV::Con(k, y)) => match &decls[*n] {
            TDecl::Variant(alts) => par(format!("{} {}", alts[*k].0, src_val(decls, &alts[*k].1, y, floats, true))),
            _ => "?".into(),
        },
        _ => "?".into(),
    }
}

pub fn source(c: &TCase) -> (String, Vec<f64>) {
    let mut s = String::from("let { Serialize } = import! std.json.ser\nlet { Deserialize } = import! std.json.de\nlet { Map } = import! std.map\n");
    for (i, d) in c.decls.iter().enumerate() {
        s.push_str("#[derive(Serialize, Deserialize)]\n");
        match d {
            TDecl::Record(fs) => s.push_str(&format!("type T{} = {{ {} }}\n", i, fs.iter().map(|(n, t)| format!("{} : {}", n, src_ty(t, false))).collect::<Vec<_>>().join(", "))),
            TDecl::Variant(fs) => {
                s.push_str(&format!("type T{} =\n", i));
                for (n, t) in fs {
                    s.push_str(&format!("    | {} {}\n", n, src_ty(t, true)));
                }
            }
        }
    }
    let mut floats = vec![];
    let t = src_ty(&c.ty, false);
    let v = src_val(&c.decls, &c.ty, &c.v, &mut floats, false);
    s.push_str("let ser @ { ? } = import! std.json.ser\nlet de @ { ? } = import! std.json.de\nlet map @ { ? } = import! std.map\nlet array @ { ? } = import! std.array\nlet { Result } = import! std.result\n");
    s.push_str(&format!(
        "\\fs ->\n    let v : {t} = {v}\n    let out : Result String (String, {ta}) =\n        match ser.to_string v with\n        | Err e -> Err e\n        | Ok text ->\n            let r : Result String ({t}) = de.deserialize text\n            match r with\n            | Err e -> Err e\n            | Ok back -> Ok (text, back)\n    out\n",
        t = t,
        ta = src_ty(&c.ty, true),
        v = v
    ));
    (s, floats)
}

fn canon(thread: &gluon::Thread, decls: &[TDecl], t: &TTy, v: ValueRef<'_>, out: &mut String) {
    match (t, v) {
        (TTy::Int, ValueRef::Int(i)) => out.push_str(&format!("i{}", i)),
        (TTy::Float, ValueRef::Float(f)) => out.push_str(&format!("F{:016x}", f.to_bits())),
        (TTy::Str, ValueRef::String(s)) => out.push_str(&format!("s{}", hex(s.as_bytes()))),
        (TTy::Bool, ValueRef::Data(d)) => out.push(if d.tag() == 1 { 't' } else { 'f' }),
        (TTy::Opt(x), ValueRef::Data(d)) => {
            if d.tag() == 0 {
                out.push('N')
            } else {
                out.push('S');
                canon(thread, decls, x, d.get(0).unwrap(), out)
            }
        }
        (TTy::Arr(x), ValueRef::Array(a)) => {
            out.push_str("a[");
            for (i, e) in a.iter().enumerate() {
                if i > 0 {
                    out.push(',');
                }
                canon(thread, decls, x, e.as_ref(), out);
            }
            out.push(']');
        }
        (TTy::Map(x), m) => {
            out.push_str("m[");
            let mut first = true;
            fn walk(thread: &gluon::Thread, decls: &[TDecl], x: &TTy, m: ValueRef<'_>, out: &mut String, first: &mut bool) {
                if let ValueRef::Data(d) = m {
                    if d.tag() == 1 && d.len() == 4 {
                        walk(thread, decls, x, d.get(2).unwrap(), out, first);
                        if !*first {
                            out.push(',');
                        }
                        *first = false;
                        match d.get(0) {
                            Some(ValueRef::String(k)) => out.push_str(&hex(k.as_bytes())),
                            o => out.push_str(&format!("?key:{:?}", o)),
                        }
                        out.push(':');
                        canon(thread, decls, x, d.get(1).unwrap(), out);
                        walk(thread, decls, x, d.get(3).unwrap(), out, first);
                    }
                }
            }
            walk(thread, decls, x, m, out, &mut first);
            out.push(']');
        }
        (TTy::Ref(n), ValueRef::Data(d)) => match &decls[*n] {
            TDecl::Record(fs) => {
                out.push_str("r[");
                for (i, (name, ft)) in fs.iter().enumerate() {
                    if i > 0 {
                        out.push(',');
                    }
                    match d.lookup_field(thread, name) {
                        Some(f) => canon(thread, decls, ft, f.as_ref(), out),
                        None => out.push_str(&format!("?nofield:{}", name)),
                    }
                }
                out.push(']');
            }
            TDecl::Variant(alts) => {
                let k = d.tag() as usize;
                out.push_str(&format!("c{}[", k));
                match (alts.get(k), d.get(0)) {
                    (Some((_, at)), Some(x)) => canon(thread, decls, at, x, out),
                    o => out.push_str(&format!("?alt:{:?}", o.1)),
                }
                out.push(']');
            }
        },
        (t, v) => out.push_str(&format!("?typed:{:?}:{:?}", t, v)),
    }
}

pub fn run(vm: &mut Vm, c: &TCase) -> String {
    let (src, floats) = source(c);
    let r = catch_unwind(AssertUnwindSafe(|| {
        let (fv, _) = vm.vm.run_expr::<Val>("c19jtyped", &src).map_err(|e| e.to_string())?;
        // the expected type of run_expr cannot mention a hole under an arrow: take the closure as an
        // opaque value and view it as a function
        let mut f: OwnedFunction<fn(Vec<f64>) -> Val> = Getable::from_value(&vm.vm, fv.get_variant());
        f.call(floats).map_err(|e| e.to_string())
    }));
    match r {
        Ok(Ok(v)) => {
            let thread = vm.vm.clone();
            json::render_result(&v, &|x, out| canon(&thread, &c.decls, &c.ty, x, out))
        }
        Ok(Err(e)) => format!("error {} || source: {}", e.replace('\n', " | "), src.replace('\n', " ; ")),
        Err(_) => "panic".into(),
    }
}

// ---- independent oracle: serde_json text of the encoding + a type-directed reader written from
// the documented rules (alternatives in order; the float reader accepts integers) ----

fn decode(decls: &[TDecl], t: &TTy, j: &serde_json::Value) -> Option<TV> {
    use serde_json::Value as SV;
    Some(match (t, j) {
        (TTy::Int, SV::Number(n)) if n.is_i64() || n.is_u64() => TV::Int(n.as_i64().unwrap_or_else(|| n.as_u64().unwrap() as i64)),
        (TTy::Float, SV::Number(n)) => {
            if n.is_f64() {
                TV::Float(n.as_f64()?.to_bits())
            } else {
                TV::Float((n.as_i64().unwrap_or_else(|| n.as_u64().unwrap() as i64) as f64).to_bits())
            }
        }
        (TTy::Str, SV::String(s)) => TV::Str(s.clone()),
        (TTy::Bool, SV::Bool(b)) => TV::Bool(*b),
        (TTy::Opt(_), SV::Null) => TV::None,
        (TTy::Opt(x), j) => TV::Some(Box::new(decode(decls, x, j)?)),
        (TTy::Arr(x), SV::Array(xs)) => TV::Arr(xs.iter().map(|y| decode(decls, x, y)).collect::<Option<Vec<_>>>()?),
        (TTy::Map(x), SV::Object(m)) => {
            let mut kv = vec![];
            for (k, y) in m {
                kv.push((k.clone(), decode(decls, x, y)?));
            }
            kv.sort_by(|a, b| a.0.as_bytes().cmp(b.0.as_bytes()));
            TV::Map(kv)
        }
        (TTy::Ref(n), j) => match &decls[*n] {
            TDecl::Record(fs) => {
                let m = j.as_object()?;
                let mut ys = vec![];
                for (name, ft) in fs {
                    ys.push(decode(decls, ft, m.get(name)?)?);
                }
                TV::Rec(ys)
            }
            TDecl::Variant(alts) => {
                for (k, (_, at)) in alts.iter().enumerate() {
                    if let Some(y) = decode(decls, at, j) {
                        return Some(TV::Con(k, Box::new(y)));
                    }
                }
                return None;
            }
        },
        _ => return None,
    })
}

pub fn oracle(c: &TCase) -> String {
    let text = serde_json::to_string(&json::to_serde(&encode(&c.decls, &c.ty, &c.v))).unwrap();
    let back: serde_json::Value = match serde_json::from_str(&text) {
        Ok(b) => b,
        Err(e) => return format!("error {}", e),
    };
    match decode(&c.decls, &c.ty, &back) {
        Some(v) => format!("{} {}", hex(text.as_bytes()), p_val(&v)),
        None => "error oracle cannot decode".into(),
    }
}

pub fn property(c: &TCase, impl_line: &str) -> Option<(String, String)> {
    let p: Vec<&str> = impl_line.split(' ').collect();
    let want = p_val(&c.v);
    if p.len() == 2 && !impl_line.starts_with("error") {
        if p[1] != want {
            // compare through the encodings: same shape, floats a few units in the last place off
            if let Some(got) = parse_val(&mut json::P { s: p[1].as_bytes(), i: 0 }) {
                if json::few_ulps_apart(&encode(&c.decls, &c.ty, &c.v), &encode(&c.decls, &c.ty, &got)) {
                    return Some((json::ULP_KEY.to_string(), format!("typed value {} reads back as {} (a float a few units in the last place off)", want, p[1])));
                }
            }
            return Some((format!("json:typed-round-trip:{}", c.line()), format!("typed value {} reads back as {}", want, p[1])));
        }
        None
    } else {
        Some((format!("json:typed-round-trip-fails:{}", c.line()), format!("typed ser/de of {} fails: {}", want, impl_line)))
    }
}

// ---- generator ----

/// JSON shape class of a type (for the unambiguity conditions)
fn shape(decls: &[TDecl], t: &TTy) -> &'static str {
    match t {
        TTy::Int => "int",
        TTy::Float => "float",
        TTy::Str => "string",
        TTy::Bool => "bool",
        TTy::Opt(_) => "nullable",
        TTy::Arr(_) => "array",
        TTy::Map(_) => "object",
        TTy::Ref(n) => match &decls[*n] {
            TDecl::Record(_) => "object",
            TDecl::Variant(_) => "mixed",
        },
    }
}

fn gen_ty(rng: &mut Rng, decls: &[TDecl], depth: u32) -> TTy {
    let k = if depth == 0 { rng.below(4) } else { rng.below(9) };
    match k {
        0 => TTy::Int,
        1 => TTy::Float,
        2 => TTy::Str,
        3 => TTy::Bool,
        4 => {
            // Option of a non-nullable, non-variant type
            let inner = gen_ty(rng, decls, depth - 1);
            match shape(decls, &inner) {
                "nullable" | "mixed" => TTy::Opt(Box::new(TTy::Float)),
                _ => TTy::Opt(Box::new(inner)),
            }
        }
        5 => TTy::Arr(Box::new(gen_ty(rng, decls, depth - 1))),
        6 => {
            // not a Map directly inside a Map: implicit resolution reports "possible infinite loop"
            // when serialize_map is needed twice in a row (a checker limitation, not a codec matter)
            let inner = gen_ty(rng, decls, depth - 1);
            if matches!(inner, TTy::Map(_)) { TTy::Map(Box::new(TTy::Arr(Box::new(inner)))) } else { TTy::Map(Box::new(inner)) }
        }
        _ => {
            if decls.is_empty() {
                TTy::Float
            } else {
                TTy::Ref(rng.below(decls.len() as u64) as usize)
            }
        }
    }
}

fn gen_val(rng: &mut Rng, hist: &mut Hist, decls: &[TDecl], t: &TTy, depth: u32) -> TV {
    match t {
        TTy::Int => TV::Int(json::gen_int(rng)),
        TTy::Float => TV::Float(json::gen_float(rng, hist)),
        TTy::Str => TV::Str(json::gen_str(rng)),
        TTy::Bool => TV::Bool(rng.chance(1, 2)),
        TTy::Opt(x) => {
            if rng.chance(1, 3) {
                TV::None
            } else {
                TV::Some(Box::new(gen_val(rng, hist, decls, x, depth)))
            }
        }
        TTy::Arr(x) => {
            let n = if depth == 0 { 0 } else { rng.below(4) };
            TV::Arr((0..n).map(|_| gen_val(rng, hist, decls, x, depth - 1)).collect())
        }
        TTy::Map(x) => {
            let n = if depth == 0 { 0 } else { rng.below(4) };
            let mut kv: Vec<(String, TV)> = vec![];
            for _ in 0..n {
                let k = json::gen_str(rng);
                if !kv.iter().any(|(k2, _)| *k2 == k) {
                    kv.push((k, gen_val(rng, hist, decls, x, depth - 1)));
                }
            }
            kv.sort_by(|a, b| a.0.as_bytes().cmp(b.0.as_bytes()));
            TV::Map(kv)
        }
        TTy::Ref(n) => match &decls[*n] {
            TDecl::Record(fs) => TV::Rec(fs.iter().map(|(_, ft)| gen_val(rng, hist, decls, ft, depth.saturating_sub(1))).collect()),
            TDecl::Variant(alts) => {
                let k = rng.below(alts.len() as u64) as usize;
                TV::Con(k, Box::new(gen_val(rng, hist, decls, &alts[k].1, depth.saturating_sub(1))))
            }
        },
    }
}

pub fn gen_case(rng: &mut Rng, hist: &mut Hist) -> TCase {
    let ndecl = 1 + rng.below(3) as usize;
    let mut decls: Vec<TDecl> = vec![];
    let fields = ["a", "b", "x", "y", "value", "key", "n_1", "zz"];
    let ctors = ["I", "F", "S", "B", "L", "R", "Num", "Txt"];
    for i in 0..ndecl {
        if rng.chance(1, 2) {
            // record: 1..4 distinct fields
            let n = 1 + rng.below(4) as usize;
            let mut fs: Vec<(String, TTy)> = vec![];
            for _ in 0..n {
                let name = rng.pick(&fields).to_string();
                if !fs.iter().any(|(m, _)| *m == name) {
                    fs.push((name, gen_ty(rng, &decls, 2)));
                }
            }
            decls.push(TDecl::Record(fs));
        } else {
            // variant: alternatives of pairwise different, non-nullable, non-mixed shapes; Int before Float
            let n = 1 + rng.below(4) as usize;
            let mut alts: Vec<TTy> = vec![];
            for _ in 0..n {
                // favour the Int / Float pair the property talks about
                let t = if rng.chance(1, 3) { rng.pick(&[TTy::Int, TTy::Float]).clone() } else { gen_ty(rng, &decls, 1) };
                let sh = shape(&decls, &t);
                if sh == "nullable" || sh == "mixed" || alts.iter().any(|u| shape(&decls, u) == sh) {
                    continue;
                }
                alts.push(t);
            }
            if alts.is_empty() {
                alts.push(TTy::Float);
            }
            // the float reader accepts integers: Int first
            alts.sort_by_key(|t| match t {
                TTy::Int => 0,
                TTy::Float => 1,
                _ => 2,
            });
            decls.push(TDecl::Variant(alts.into_iter().enumerate().map(|(k, t)| (format!("{}{}_{}", ctors[k % ctors.len()], i, k), t)).collect()));
        }
    }
    let ty = match rng.below(5) {
        0 => gen_ty(rng, &decls, 2),
        1 => TTy::Arr(Box::new(TTy::Ref(ndecl - 1))),
        _ => TTy::Ref(ndecl - 1),
    };
    let v = gen_val(rng, hist, &decls, &ty, 2);
    hist.add(match &decls[ndecl - 1] {
        TDecl::Record(_) => "json:typed:record",
        TDecl::Variant(_) => "json:typed:variant",
    });
    TCase { decls, ty, v }
}
