//! derive family: random variant type declarations with `#[derive(Eq, Show)]` and random values
//! of them, compiled to Gluon source, evaluated, compared with the model (Lib/Derive.v).
//!
//! case line:  derive <env> <gty> <x> <y>
//!   env  = decl ("/" decl)*          decl = ("p"|"n") ":" ctor ("|" ctor)*
//!   ctor = <hex name> ":" ty ("," ty)* | <hex name> ":"      ty = I | S | F (self) | R<n> | P
//!   gty  = I | S | D<n>[<gty>]
//!   val  = i<int> | s<hex utf8> | c<k>[ val ("," val)* ]
use super::{Val, Vm};
use gluon::ThreadExt;
use gluon::vm::api::ValueRef;
use gvh::out::Hist;
use gvh::rng::Rng;
use std::panic::{AssertUnwindSafe, catch_unwind};

#[derive(Clone, Debug, PartialEq)]
pub enum Ty {
    Int,
    Str,
    SelfT,
    Ref(usize),
    Param,
}
#[derive(Clone, Debug, PartialEq)]
pub struct Decl {
    pub param: bool,
    pub ctors: Vec<(String, Vec<Ty>)>,
}
#[derive(Clone, Debug, PartialEq)]
pub enum GTy {
    Int,
    Str,
    Data(usize, Box<GTy>),
}
#[derive(Clone, Debug, PartialEq)]
pub enum V {
    Int(i64),
    Str(String),
    Con(usize, Vec<V>),
}
#[derive(Clone, Debug)]
pub struct DCase {
    pub env: Vec<Decl>,
    pub g: GTy,
    pub x: V,
    pub y: V,
}

fn hex(b: &[u8]) -> String {
    b.iter().map(|c| format!("{:02x}", c)).collect()
}
fn unhex(s: &str) -> Vec<u8> {
    (0..s.len() / 2).map(|i| u8::from_str_radix(&s[2 * i..2 * i + 2], 16).unwrap()).collect()
}

// ---- printing / parsing of the case line ----

fn p_ty(t: &Ty) -> String {
    match t {
        Ty::Int => "I".into(),
        Ty::Str => "S".into(),
        Ty::SelfT => "F".into(),
        Ty::Ref(n) => format!("R{}", n),
        Ty::Param => "P".into(),
    }
}
fn p_gty(g: &GTy) -> String {
    match g {
        GTy::Int => "I".into(),
        GTy::Str => "S".into(),
        GTy::Data(n, p) => format!("D{}[{}]", n, p_gty(p)),
    }
}
fn p_val(v: &V) -> String {
    match v {
        V::Int(i) => format!("i{}", i),
        V::Str(s) => format!("s{}", hex(s.as_bytes())),
        V::Con(c, args) => format!("c{}[{}]", c, args.iter().map(p_val).collect::<Vec<_>>().join(",")),
    }
}

struct P<'a> {
    s: &'a [u8],
    i: usize,
}
impl<'a> P<'a> {
    fn peek(&self) -> u8 {
        *self.s.get(self.i).unwrap_or(&0)
    }
    fn eat(&mut self, c: u8) -> Option<()> {
        if self.peek() == c {
            self.i += 1;
            Some(())
        } else {
            None
        }
    }
    fn num(&mut self) -> Option<i64> {
        let st = self.i;
        if self.peek() == b'-' {
            self.i += 1;
        }
        while self.peek().is_ascii_digit() {
            self.i += 1;
        }
        std::str::from_utf8(&self.s[st..self.i]).ok()?.parse().ok()
    }
    fn hexs(&mut self) -> String {
        let st = self.i;
        while self.peek().is_ascii_hexdigit() {
            self.i += 1;
        }
        String::from_utf8_lossy(&self.s[st..self.i]).into_owned()
    }
    fn gty(&mut self) -> Option<GTy> {
        match self.peek() {
            b'I' => {
                self.i += 1;
                Some(GTy::Int)
            }
            b'S' => {
                self.i += 1;
                Some(GTy::Str)
            }
            b'D' => {
                self.i += 1;
                let n = self.num()? as usize;
                self.eat(b'[')?;
                let p = self.gty()?;
                self.eat(b']')?;
                Some(GTy::Data(n, Box::new(p)))
            }
            _ => None,
        }
    }
    fn val(&mut self) -> Option<V> {
        match self.peek() {
            b'i' => {
                self.i += 1;
                Some(V::Int(self.num()?))
            }
            b's' => {
                self.i += 1;
                let h = self.hexs();
                Some(V::Str(String::from_utf8(unhex(&h)).ok()?))
            }
            b'c' => {
                self.i += 1;
                let c = self.num()? as usize;
                self.eat(b'[')?;
                let mut args = vec![];
                while self.peek() != b']' {
                    args.push(self.val()?);
                    if self.peek() == b',' {
                        self.i += 1;
                    }
                }
                self.eat(b']')?;
                Some(V::Con(c, args))
            }
            _ => None,
        }
    }
}

impl DCase {
    pub fn line(&self) -> String {
        let env = self
            .env
            .iter()
            .map(|d| {
                format!(
                    "{}:{}",
                    if d.param { "p" } else { "n" },
                    d.ctors.iter().map(|(n, ts)| format!("{}:{}", hex(n.as_bytes()), ts.iter().map(p_ty).collect::<Vec<_>>().join(","))).collect::<Vec<_>>().join("|")
                )
            })
            .collect::<Vec<_>>()
            .join("/");
        format!("derive {} {} {} {}", env, p_gty(&self.g), p_val(&self.x), p_val(&self.y))
    }
    pub fn parse(a: &[&str]) -> Option<DCase> {
        let mut env = vec![];
        for d in a[0].split('/') {
            let (flag, rest) = d.split_once(':')?;
            let mut ctors = vec![];
            for c in rest.split('|') {
                let (n, ts) = c.split_once(':')?;
                let mut tys = vec![];
                for t in ts.split(',').filter(|t| !t.is_empty()) {
                    tys.push(match t.as_bytes()[0] {
                        b'I' => Ty::Int,
                        b'S' => Ty::Str,
                        b'F' => Ty::SelfT,
                        b'P' => Ty::Param,
                        b'R' => Ty::Ref(t[1..].parse().ok()?),
                        _ => return None,
                    });
                }
                ctors.push((String::from_utf8(unhex(n)).ok()?, tys));
            }
            env.push(Decl { param: flag == "p", ctors });
        }
        let g = P { s: a[1].as_bytes(), i: 0 }.gty()?;
        let x = P { s: a[2].as_bytes(), i: 0 }.val()?;
        let y = P { s: a[3].as_bytes(), i: 0 }.val()?;
        Some(DCase { env, g, x, y })
    }
    pub fn nontrivial(&self) -> bool {
        matches!(&self.x, V::Con(_, args) if !args.is_empty())
    }
    pub fn has_quote(&self) -> bool {
        fn q(v: &V) -> bool {
            match v {
                V::Int(_) => false,
                V::Str(s) => s.contains('"'),
                V::Con(_, a) => a.iter().any(q),
            }
        }
        q(&self.x) || q(&self.y)
    }
}

// ---- Gluon source ----

fn resolve(self_: usize, p: &GTy, t: &Ty) -> GTy {
    match t {
        Ty::Int => GTy::Int,
        Ty::Str => GTy::Str,
        Ty::SelfT => GTy::Data(self_, Box::new(p.clone())),
        Ty::Ref(n) => GTy::Data(*n, Box::new(GTy::Int)),
        Ty::Param => p.clone(),
    }
}

fn src_gty(env: &[Decl], g: &GTy, atom: bool) -> String {
    match g {
        GTy::Int => "Int".into(),
        GTy::Str => "String".into(),
        GTy::Data(n, p) => {
            if env[*n].param {
                let s = format!("T{} {}", n, src_gty(env, p, true));
                if atom { format!("({})", s) } else { s }
            } else {
                format!("T{}", n)
            }
        }
    }
}

fn src_ty(env: &[Decl], self_: usize, t: &Ty) -> String {
    match t {
        Ty::Int => "Int".into(),
        Ty::Str => "String".into(),
        Ty::SelfT => {
            if env[self_].param {
                format!("(T{} a)", self_)
            } else {
                format!("T{}", self_)
            }
        }
        Ty::Ref(n) => {
            if env[*n].param {
                format!("(T{} Int)", n)
            } else {
                format!("T{}", n)
            }
        }
        Ty::Param => "a".into(),
    }
}

pub fn gluon_string_literal(s: &str) -> String {
    let mut o = String::from("\"");
    for c in s.chars() {
        match c {
            '"' => o.push_str("\\\""),
            '\\' => o.push_str("\\\\"),
            '\n' => o.push_str("\\n"),
            '\t' => o.push_str("\\t"),
            '\r' => o.push_str("\\r"),
            c => o.push(c),
        }
    }
    o.push('"');
    o
}

fn src_val(env: &[Decl], g: &GTy, v: &V, atom: bool) -> String {
    match (g, v) {
        (_, V::Int(i)) => {
            if *i < 0 {
                // i64::MIN has no positive literal
                if *i == i64::MIN { "(0 - 9223372036854775807 - 1)".into() } else { format!("(0 - {})", -i) }
            } else {
                i.to_string()
            }
        }
        (_, V::Str(s)) => gluon_string_literal(s),
        (GTy::Data(n, p), V::Con(c, args)) => {
            let (name, tys) = &env[*n].ctors[*c];
            if args.is_empty() {
                name.clone()
            } else {
                let s = format!("{} {}", name, args.iter().zip(tys).map(|(a, t)| src_val(env, &resolve(*n, p, t), a, true)).collect::<Vec<_>>().join(" "));
                if atom { format!("({})", s) } else { s }
            }
        }
        _ => "?".into(),
    }
}

pub fn source(c: &DCase) -> String {
    let mut s = String::new();
    for (i, d) in c.env.iter().enumerate() {
        s.push_str("#[derive(Eq, Show)]\n");
        s.push_str(&format!("type T{}{} =\n", i, if d.param { " a" } else { "" }));
        for (name, tys) in &d.ctors {
            s.push_str(&format!("    | {}{}\n", name, tys.iter().map(|t| format!(" {}", src_ty(&c.env, i, t))).collect::<String>()));
        }
    }
    let t = src_gty(&c.env, &c.g, false);
    s.push_str(&format!("let x : {} = {}\n", t, src_val(&c.env, &c.g, &c.x, false)));
    s.push_str(&format!("let y : {} = {}\n", t, src_val(&c.env, &c.g, &c.y, false)));
    s.push_str("(show x, show y, x == y)\n");
    s
}

pub fn run(vm: &mut Vm, c: &DCase) -> String {
    let src = source(c);
    let r = catch_unwind(AssertUnwindSafe(|| vm.vm.run_expr::<Val>("c19derive", &src)));
    match r {
        Ok(Ok((v, _))) => match v.get_ref() {
            ValueRef::Data(d) if d.len() == 3 => match (d.get(0).unwrap(), d.get(1).unwrap(), d.get(2).unwrap()) {
                (ValueRef::String(a), ValueRef::String(b), ValueRef::Data(e)) => format!("{} {} {}", hex(a.as_bytes()), hex(b.as_bytes()), if e.tag() == 1 { "T" } else { "F" }),
                o => format!("?result:{:?}", o),
            },
            o => format!("?result:{:?}", o),
        },
        Ok(Err(e)) => format!("{} || source: {}", format!("error {}", e.to_string().replace('\n', " | ")), src.replace('\n', " ; ")),
        Err(_) => "panic".into(),
    }
}

// ---- independent oracle: structural equality + a direct rendering ----

fn show(env: &[Decl], g: &GTy, v: &V, out: &mut String) {
    match (g, v) {
        (_, V::Int(i)) => out.push_str(&i.to_string()),
        (_, V::Str(s)) => {
            out.push('"');
            out.push_str(s);
            out.push('"');
        }
        (GTy::Data(n, p), V::Con(c, args)) => {
            let (name, tys) = &env[*n].ctors[*c];
            out.push_str(name);
            for (a, t) in args.iter().zip(tys) {
                out.push_str(" (");
                show(env, &resolve(*n, p, t), a, out);
                out.push(')');
            }
        }
        _ => out.push('?'),
    }
}

pub fn oracle(c: &DCase) -> String {
    let mut a = String::new();
    let mut b = String::new();
    show(&c.env, &c.g, &c.x, &mut a);
    show(&c.env, &c.g, &c.y, &mut b);
    format!("{} {} {}", hex(a.as_bytes()), hex(b.as_bytes()), if c.x == c.y { "T" } else { "F" })
}

/// The property's own observable on the implementation's answer: distinct values must render
/// differently, and `==` must be structural equality.
pub fn property(c: &DCase, impl_line: &str) -> Option<(String, String)> {
    let p: Vec<&str> = impl_line.split(' ').collect();
    if p.len() != 3 {
        return None;
    }
    if c.x != c.y && p[0] == p[1] {
        let key = if c.has_quote() { "derive:show-not-injective:string-containing-quote".to_string() } else { format!("derive:show-not-injective:{}", c.line()) };
        return Some((key, format!("distinct values {} and {} both render as `{}`", p_val(&c.x), p_val(&c.y), String::from_utf8_lossy(&unhex(p[0])))));
    }
    if (c.x == c.y) != (p[2] == "T") {
        return Some((format!("derive:eq-not-structural:{}", c.line()), format!("`==` on {} and {} is {}", p_val(&c.x), p_val(&c.y), p[2])));
    }
    None
}

// ---- generator ----

const STR_CHARS: &[char] = &['a', 'b', ' ', '(', ')', '"', '\\', 'é', '€', '😀', ',', '0', '-', 'A'];

fn gen_string(rng: &mut Rng) -> String {
    let n = match rng.below(4) {
        0 => 0,
        1 => 1,
        _ => rng.below(6),
    };
    (0..n).map(|_| *rng.pick(STR_CHARS)).collect()
}

fn gen_int(rng: &mut Rng) -> i64 {
    match rng.below(6) {
        0 => 0,
        1 => rng.range(-9, 9),
        2 => rng.range(-1000, 1000),
        3 => *rng.pick(&[i64::MAX, i64::MIN, -1, 10, 100, -10]),
        _ => rng.range(-99, 99),
    }
}

fn gen_val(rng: &mut Rng, env: &[Decl], g: &GTy, depth: u32) -> V {
    match g {
        GTy::Int => V::Int(gen_int(rng)),
        GTy::Str => V::Str(gen_string(rng)),
        GTy::Data(n, p) => {
            let d = &env[*n];
            // at depth 0 only constructors without data arguments (each declaration has one: its last)
            let c = if depth == 0 { d.ctors.len() - 1 } else { rng.below(d.ctors.len() as u64) as usize };
            let tys = &d.ctors[c].1;
            V::Con(c, tys.iter().map(|t| gen_val(rng, env, &resolve(*n, p, t), depth.saturating_sub(1))).collect())
        }
    }
}

/// one random point mutation (same type)
fn mutate(rng: &mut Rng, env: &[Decl], g: &GTy, v: &V) -> V {
    match (g, v) {
        (GTy::Int, V::Int(i)) => V::Int(match rng.below(3) {
            0 => i.wrapping_add(1),
            1 => i.wrapping_neg(),
            _ => gen_int(rng),
        }),
        (GTy::Str, V::Str(s)) => {
            let mut cs: Vec<char> = s.chars().collect();
            match rng.below(3) {
                0 => cs.push(*rng.pick(STR_CHARS)),
                1 if !cs.is_empty() => {
                    cs.pop();
                }
                _ => {
                    if cs.is_empty() {
                        cs.push('a')
                    } else {
                        let k = rng.below(cs.len() as u64) as usize;
                        cs[k] = *rng.pick(STR_CHARS);
                    }
                }
            }
            V::Str(cs.into_iter().collect())
        }
        (GTy::Data(n, p), V::Con(c, args)) => {
            if args.is_empty() || rng.chance(1, 4) {
                gen_val(rng, env, g, 2)
            } else {
                let k = rng.below(args.len() as u64) as usize;
                let t = resolve(*n, p, &env[*n].ctors[*c].1[k]);
                let mut a2 = args.clone();
                a2[k] = mutate(rng, env, &t, &args[k]);
                V::Con(*c, a2)
            }
        }
        _ => v.clone(),
    }
}

/// Two distinct values whose renderings can only differ if String's show escapes: the text
/// `") ("` is moved from the end of one string argument to the start of the next.
fn gen_quote_shift(rng: &mut Rng, hist: &mut Hist) -> DCase {
    let name = rng.pick(&["P", "Pair", "K2"]).to_string();
    let mut tys = vec![Ty::Str, Ty::Str];
    let extra = rng.below(2) as usize;
    for _ in 0..extra {
        tys.push(Ty::Int);
    }
    let env = vec![Decl { param: false, ctors: vec![(name, tys), ("Q".to_string(), vec![])] }];
    let w = |rng: &mut Rng| -> String { (0..rng.below(3)).map(|_| *rng.pick(&['a', 'b', 'é', ' '])).collect() };
    let (u, v, t) = (w(rng), w(rng), w(rng));
    let mut xa = vec![V::Str(format!("{}\") (\"{}", u, v)), V::Str(t.clone())];
    let mut ya = vec![V::Str(u), V::Str(format!("{}\") (\"{}", v, t))];
    for _ in 0..extra {
        let i = gen_int(rng);
        xa.push(V::Int(i));
        ya.push(V::Int(i));
    }
    hist.add("derive:quote-shift");
    DCase { env, g: GTy::Data(0, Box::new(GTy::Int)), x: V::Con(0, xa), y: V::Con(0, ya) }
}

pub fn gen_case(rng: &mut Rng, hist: &mut Hist) -> DCase {
    if rng.chance(1, 20) {
        return gen_quote_shift(rng, hist);
    }
    let ndecl = 1 + rng.below(3) as usize;
    let mut env: Vec<Decl> = vec![];
    // constructor names unique over the program; some are prefixes of others
    let stems = ["A", "Ab", "A_1", "B", "Bx", "C", "Cons", "Con", "D0", "E", "Node", "Leaf", "N", "Z9_"];
    let mut used = std::collections::HashSet::new();
    for i in 0..ndecl {
        let param = rng.chance(1, 3);
        let nct = 1 + rng.below(4) as usize;
        let mut ctors = vec![];
        for k in 0..nct {
            let mut name = String::new();
            for _ in 0..20 {
                name = format!("{}{}", rng.pick(&stems), if rng.chance(1, 2) { "".to_string() } else { rng.below(3).to_string() });
                if !used.contains(&name) {
                    break;
                }
                name = format!("K{}_{}", i, k);
            }
            used.insert(name.clone());
            let last = k == nct - 1;
            let nargs = if last { rng.below(3) } else { rng.below(4) } as usize;
            let mut tys = vec![];
            for _ in 0..nargs {
                let mut pool = vec![Ty::Int, Ty::Str, Ty::Int, Ty::Str];
                if !last {
                    pool.push(Ty::SelfT);
                    pool.push(Ty::SelfT);
                    for j in 0..i {
                        pool.push(Ty::Ref(j));
                    }
                }
                if param {
                    pool.push(Ty::Param);
                    pool.push(Ty::Param);
                }
                tys.push(rng.pick(&pool).clone());
            }
            ctors.push((name, tys));
        }
        env.push(Decl { param, ctors });
    }
    let top = ndecl - 1;
    let p = match rng.below(4) {
        0 => GTy::Str,
        1 if top > 0 => GTy::Data(rng.below(top as u64) as usize, Box::new(GTy::Int)),
        _ => GTy::Int,
    };
    // a parameter that is a data type needs a base constructor too: gen_val handles it (depth 0 = last ctor)
    let g = GTy::Data(top, Box::new(if env[top].param { p } else { GTy::Int }));
    let dx = 1 + rng.below(3) as u32;
    let dy = 1 + rng.below(3) as u32;
    let x = gen_val(rng, &env, &g, dx);
    let y = match rng.below(5) {
        0 => x.clone(),
        1 | 2 => mutate(rng, &env, &g, &x),
        3 => {
            let m = mutate(rng, &env, &g, &x);
            mutate(rng, &env, &g, &m)
        }
        _ => gen_val(rng, &env, &g, dy),
    };
    hist.add(&format!("derive:decls{}", ndecl));
    hist.add(if x == y { "derive:equal" } else { "derive:different" });
    hist.add(if env[top].param { "derive:parameterised" } else { "derive:monomorphic" });
    DCase { env, g, x, y }
}
