//! C19: standard-library structures, codecs and derived instances against their models.
//!
//! One long-lived VM with the prelude.  Gluon driver functions (source text below) are called
//! from Rust through `OwnedFunction` with generated inputs; every result is rendered in a
//! canonical line format, the same the extracted model (coq/extract/c19) prints.  Each case is
//! ALSO evaluated by an independent Rust-std oracle (BTreeMap, slice::sort, str, serde_json);
//! an implementation/oracle difference is written to `oracle_diffs.txt` — that comparison is what
//! yields a concrete failing input when the model was regenerated from an edited source (and
//! therefore agrees with the edited implementation).
//!
//! Files in --out: model_in.txt, impl_out.txt, oracle_out.txt, cases.txt, families.txt (family of
//! each line), stats.json.
use gluon::vm::api::{Hole, OpaqueValue, OwnedFunction, ValueRef};
use gluon::vm::thread::RootedThread;
use gluon::{ThreadExt, new_vm};
use gvh::out::{Args, Hist, fnv};
use gvh::rng::Rng;
use std::collections::{BTreeMap, HashSet};
use std::io::Write;
use std::panic::{AssertUnwindSafe, catch_unwind};

mod derive;
mod json;
mod jtyped;
mod strs;

pub type Val = OpaqueValue<RootedThread, Hole>;

// ---------------------------------------------------------------------------------------------
// Gluon side

const DRIVER: &str = r#"
let map @ { Map, ? } = import! std.map
let list @ { List, ? } = import! std.list
let array @ { ? } = import! std.array
let { foldl, foldr } = import! std.foldable
let { (<>) } = import! std.semigroup

// ops: flat array of triples (tag, k, v); tag 0 = insert k v, tag 1 = find k (and insert k v into a
// second map m2).
// result: (finds in reverse chronological order, to_list, keys, values of the final map,
//          to_list (m <> (map_with_key (\k _ -> k) m2)))
let map_run ops : Array Int -> _ =
    let n = array.len ops
    rec let go i m m2 acc : Int -> Map Int Int -> Map Int Int -> List (Option Int) -> _ =
        if i >= n then (acc, map.to_list m, map.keys m, map.values m, map.to_list (m <> map.map_with_key (\k _ -> k) m2))
        else
            let tag = array.index ops i
            let k = array.index ops (i + 1)
            let v = array.index ops (i + 2)
            if tag == 0 then go (i + 3) (map.insert k v m) m2 acc
            else go (i + 3) m (map.insert k v m2) (Cons (map.find k m) acc)
    go 0 map.empty map.empty Nil

let list_sort xs : Array Int -> List Int = list.sort (list.of xs)
let list_filter_gt c xs : Int -> Array Int -> List Int = list.filter (\x -> x > c) (list.of xs)
let list_filter_even xs : Array Int -> List Int = list.filter (\x -> x / 2 * 2 == x) (list.of xs)
let list_foldl xs : Array Int -> Int = foldl (\a x -> a * 3 - x) 7 (list.of xs)
let list_foldr xs : Array Int -> Int = foldr (\x a -> x - a * 3) 7 (list.of xs)
let list_append xs ys : Array Int -> Array Int -> List Int = list.of xs <> list.of ys

// ---- arrays and strings: one dispatcher each, results in a tagged type ----
let string = import! std.string
let char = import! std.char
let { map } = import! std.functor
let { show } = import! std.show
let { Ordering, compare } = import! std.cmp

type R =
    | RInt Int
    | RBool Bool
    | ROpt (Option Int)
    | RStr String
    | RBytes (Array Byte)
    | RPair String String
    | RArr (Array Int)

let ord_int o =
    match o with
    | LT -> 0 - 1
    | EQ -> 0
    | GT -> 1

let arr_op op xs ys i j : Int -> Array Int -> Array Int -> Int -> Int -> R =
    if op == 0 then RInt (array.len xs)
    else if op == 1 then RInt (array.index xs i)
    else if op == 2 then RArr (array.append xs ys)
    else if op == 3 then RArr (array.slice xs i j)
    else if op == 4 then RInt (foldl (\a x -> a * 3 - x) 7 xs)
    else if op == 5 then RInt (foldr (\x a -> x - a * 3) 7 xs)
    else if op == 6 then RArr (map (\x -> x * 2 + 1) xs)
    else if op == 7 then RBool (xs == ys)
    else if op == 8 then RInt (ord_int (compare xs ys))
    else RStr (show xs)

let str_op op s t i j c : Int -> String -> String -> Int -> Int -> Char -> R =
    if op == 0 then RInt (string.len s)
    else if op == 1 then RBool (string.is_empty s)
    else if op == 2 then RBool (string.is_char_boundary s i)
    else if op == 3 then RBytes (string.as_bytes s)
    else if op == 4 then
        let (a, b) = string.split_at s i
        RPair a b
    else if op == 5 then RBool (string.contains s t)
    else if op == 6 then RBool (string.starts_with s t)
    else if op == 7 then RBool (string.ends_with s t)
    else if op == 8 then ROpt (string.find s t)
    else if op == 9 then ROpt (string.rfind s t)
    else if op == 10 then RStr (string.trim s)
    else if op == 11 then RStr (string.trim_start s)
    else if op == 12 then RStr (string.trim_end s)
    else if op == 13 then RStr (string.trim_start_matches s t)
    else if op == 14 then RStr (string.trim_end_matches s t)
    else if op == 15 then RStr (string.append s t)
    else if op == 16 then RStr (string.append_char s c)
    else if op == 17 then RStr (string.from_char c)
    else if op == 18 then RStr (string.slice s i j)
    else if op == 19 then RInt (char.to_int (string.char_at s i))
    else if op == 20 then RBool (s == t)
    else if op == 21 then RInt (ord_int (compare s t))
    else RStr (show s)

{ map_run, list_sort, list_filter_gt, list_filter_even, list_foldl, list_foldr, list_append, arr_op, str_op }
"#;

pub struct Vm {
    pub vm: RootedThread,
    pub arr_op: OwnedFunction<fn(i64, Vec<i64>, Vec<i64>, i64, i64) -> Val>,
    pub str_op: OwnedFunction<fn(i64, String, String, i64, i64, char) -> Val>,
    map_run: OwnedFunction<fn(Vec<i64>) -> Val>,
    list_sort: OwnedFunction<fn(Vec<i64>) -> Val>,
    list_filter_gt: OwnedFunction<fn(i64, Vec<i64>) -> Val>,
    list_filter_even: OwnedFunction<fn(Vec<i64>) -> Val>,
    list_foldl: OwnedFunction<fn(Vec<i64>) -> i64>,
    list_foldr: OwnedFunction<fn(Vec<i64>) -> i64>,
    list_append: OwnedFunction<fn(Vec<i64>, Vec<i64>) -> Val>,
}

/// Framework self-test aid: `mapsrc=FILE` / `listsrc=FILE` make the driver use FILE (a variant of
/// std/map.glu / std/list.glu, e.g. a seeded mutation) instead of the module built into the VM.
/// Never set by checks/c19.py; /repo's own sources are what a normal run exercises.
static ALT_SOURCES: std::sync::OnceLock<(Option<String>, Option<String>)> = std::sync::OnceLock::new();

fn driver_source() -> String {
    let mut d = DRIVER.to_string();
    if let Some((m, l)) = ALT_SOURCES.get() {
        if m.is_some() {
            d = d.replace("let map = import! std.map", "let map = import! c19altmap");
        }
        if l.is_some() {
            d = d.replace("let list @ { List, ? } = import! std.list", "let list @ { List, ? } = import! c19altlist");
        }
    }
    d
}

impl Vm {
    fn new() -> Vm {
        let vm = new_vm();
        if let Some((m, l)) = ALT_SOURCES.get() {
            if let Some(p) = m {
                vm.load_script("c19altmap", &std::fs::read_to_string(p).expect("mapsrc")).unwrap_or_else(|e| panic!("mapsrc does not compile: {}", e));
            }
            if let Some(p) = l {
                vm.load_script("c19altlist", &std::fs::read_to_string(p).expect("listsrc")).unwrap_or_else(|e| panic!("listsrc does not compile: {}", e));
            }
        }
        vm.load_script("c19drv", &driver_source()).unwrap_or_else(|e| panic!("driver does not compile: {}", e));
        macro_rules! g {
            ($n:expr) => {
                vm.get_global(concat!("c19drv.", $n)).unwrap_or_else(|e| panic!("get_global {}: {}", $n, e))
            };
        }
        Vm {
            map_run: g!("map_run"),
            list_sort: g!("list_sort"),
            list_filter_gt: g!("list_filter_gt"),
            list_filter_even: g!("list_filter_even"),
            list_foldl: g!("list_foldl"),
            list_foldr: g!("list_foldr"),
            list_append: g!("list_append"),
            arr_op: g!("arr_op"),
            str_op: g!("str_op"),
            vm,
        }
    }
}

// ---------------------------------------------------------------------------------------------
// canonical rendering of implementation values, directed by the expected shape

#[derive(Clone, Debug)]
enum Shape {
    Int,
    Str,
    Bool,
    List(Box<Shape>),
    Option(Box<Shape>),
    /// tuple or record, fields in declaration order
    Tuple(Vec<Shape>),
    Array(Box<Shape>),
}

fn hex(b: &[u8]) -> String {
    let mut s = String::from("x");
    for c in b {
        s.push_str(&format!("{:02x}", c));
    }
    s
}

fn canon(v: ValueRef<'_>, sh: &Shape, out: &mut String) {
    match (sh, v) {
        (Shape::Int, ValueRef::Int(i)) => out.push_str(&i.to_string()),
        (Shape::Str, ValueRef::String(s)) => out.push_str(&hex(s.as_bytes())),
        (Shape::Bool, ValueRef::Data(d)) => out.push_str(if d.tag() == 1 { "T" } else { "F" }),
        (Shape::List(e), v) => {
            out.push('[');
            let mut cur = v;
            let mut first = true;
            loop {
                match cur {
                    ValueRef::Data(d) if d.tag() == 0 && d.len() == 0 => break,
                    ValueRef::Data(d) if d.tag() == 1 && d.len() == 2 => {
                        if !first {
                            out.push(',');
                        }
                        first = false;
                        canon(d.get(0).unwrap(), e, out);
                        cur = d.get(1).unwrap();
                    }
                    other => {
                        out.push_str(&format!("?list:{:?}", other));
                        break;
                    }
                }
            }
            out.push(']');
        }
        (Shape::Option(e), ValueRef::Data(d)) => {
            if d.tag() == 0 && d.len() == 0 {
                out.push('N')
            } else if d.tag() == 1 && d.len() == 1 {
                out.push('S');
                canon(d.get(0).unwrap(), e, out)
            } else {
                out.push_str("?option")
            }
        }
        (Shape::Tuple(fs), ValueRef::Data(d)) if d.len() == fs.len() => {
            out.push('(');
            for (i, f) in fs.iter().enumerate() {
                if i > 0 {
                    out.push(';');
                }
                canon(d.get(i).unwrap(), f, out);
            }
            out.push(')');
        }
        (Shape::Array(e), ValueRef::Array(a)) => {
            out.push('[');
            for (i, x) in a.iter().enumerate() {
                if i > 0 {
                    out.push(',');
                }
                canon(x.as_ref(), e, out);
            }
            out.push(']');
        }
        (sh, v) => out.push_str(&format!("?shape:{:?}:{:?}", sh, v)),
    }
}

fn render(v: &Val, sh: &Shape) -> String {
    let mut s = String::new();
    canon(v.get_ref(), sh, &mut s);
    s
}

/// Exactly one line per case: control characters and Unicode line / paragraph separators (which
/// some readers treat as line breaks) are written as `\u{..}`.
pub fn one_line(s: &str) -> String {
    if !s.chars().any(|c| c.is_control() || c == '\u{2028}' || c == '\u{2029}') {
        return s.to_string();
    }
    let mut o = String::with_capacity(s.len() + 8);
    for c in s.chars() {
        if c.is_control() || c == '\u{2028}' || c == '\u{2029}' {
            o.push_str(&format!("\\u{{{:x}}}", c as u32));
        } else {
            o.push(c);
        }
    }
    o
}

pub fn err_line(e: &gluon::vm::Error) -> String {
    format!("error {}", e.to_string().replace('\n', " | "))
}

pub fn ints(xs: &[i64]) -> String {
    xs.iter().map(|x| x.to_string()).collect::<Vec<_>>().join(",")
}

fn brack(xs: &[i64]) -> String {
    format!("[{}]", ints(xs))
}

// ---------------------------------------------------------------------------------------------
// cases

#[derive(Clone, Debug)]
enum Case {
    /// (tag, k, v): tag 0 insert, 1 find
    Map(Vec<(i64, i64, i64)>),
    Sort(Vec<i64>),
    FilterGt(i64, Vec<i64>),
    FilterEven(Vec<i64>),
    LFoldl(Vec<i64>),
    LFoldr(Vec<i64>),
    LAppend(Vec<i64>, Vec<i64>),
    Arr(strs::ArrCase),
    Str(strs::StrCase),
    Derive(derive::DCase),
    Json(json::JCase),
    JTyped(jtyped::TCase),
}

impl Case {
    fn family(&self) -> &'static str {
        match self {
            Case::Map(_) => "map",
            Case::Arr(_) | Case::Str(_) => "array-string",
            Case::Derive(_) => "derive",
            Case::Json(_) | Case::JTyped(_) => "json",
            _ => "list",
        }
    }
    /// the model driver's input line (also the replayable, human-readable form)
    fn line(&self) -> String {
        match self {
            Case::Map(ops) => format!("map {}", ops.iter().map(|(t, k, v)| format!("{}:{}:{}", t, k, v)).collect::<Vec<_>>().join(",")),
            Case::Sort(xs) => format!("sort {}", ints(xs)),
            Case::FilterGt(c, xs) => format!("filter_gt {} {}", c, ints(xs)),
            Case::FilterEven(xs) => format!("filter_even {}", ints(xs)),
            Case::LFoldl(xs) => format!("lfoldl {}", ints(xs)),
            Case::LFoldr(xs) => format!("lfoldr {}", ints(xs)),
            Case::LAppend(xs, ys) => format!("lappend {} {}", ints(xs), ints(ys)),
            Case::Arr(c) => c.line(),
            Case::Str(c) => c.line(),
            Case::Derive(c) => c.line(),
            Case::Json(c) => c.line(),
            Case::JTyped(c) => c.line(),
        }
    }
    fn parse(line: &str) -> Option<Case> {
        let mut it = line.split(' ');
        let head = it.next()?;
        let rest: Vec<&str> = it.collect();
        let il = |s: &str| -> Vec<i64> { if s.is_empty() { vec![] } else { s.split(',').map(|x| x.parse().unwrap()).collect() } };
        let arg = |i: usize| -> &str { rest.get(i).copied().unwrap_or("") };
        Some(match head {
            "map" => Case::Map(
                arg(0)
                    .split(',')
                    .filter(|s| !s.is_empty())
                    .map(|t| {
                        let p: Vec<i64> = t.split(':').map(|x| x.parse().unwrap()).collect();
                        (p[0], p[1], p[2])
                    })
                    .collect(),
            ),
            "sort" => Case::Sort(il(arg(0))),
            "filter_gt" => Case::FilterGt(arg(0).parse().ok()?, il(arg(1))),
            "filter_even" => Case::FilterEven(il(arg(0))),
            "lfoldl" => Case::LFoldl(il(arg(0))),
            "lfoldr" => Case::LFoldr(il(arg(0))),
            "lappend" => Case::LAppend(il(arg(0)), il(arg(1))),
            "arr" if rest.len() == 5 => Case::Arr(strs::ArrCase::parse(&rest)?),
            "str" if rest.len() == 6 => Case::Str(strs::StrCase::parse(&rest)?),
            "derive" if rest.len() == 4 => Case::Derive(derive::DCase::parse(&rest)?),
            "json" if rest.len() == 1 => Case::Json(json::JCase::parse(&rest)?),
            "jsontext" if rest.len() == 2 => Case::Json(json::JCase::parse_text(&rest)?),
            "jtyped" if rest.len() == 4 => Case::JTyped(jtyped::TCase::parse(&rest)?),
            _ => return None,
        })
    }
    /// smaller variants of the case (halves first, then single deletions)
    fn shrinks(&self) -> Vec<Case> {
        fn subs<T: Clone>(xs: &[T]) -> Vec<Vec<T>> {
            let n = xs.len();
            let mut v = vec![];
            if n >= 4 {
                v.push(xs[..n / 2].to_vec());
                v.push(xs[n / 2..].to_vec());
            }
            for i in 0..n {
                let mut y = xs.to_vec();
                y.remove(i);
                v.push(y);
            }
            v
        }
        match self {
            Case::Map(ops) => subs(ops).into_iter().map(Case::Map).collect(),
            Case::Sort(xs) => subs(xs).into_iter().map(Case::Sort).collect(),
            Case::FilterGt(c, xs) => subs(xs).into_iter().map(|x| Case::FilterGt(*c, x)).collect(),
            Case::FilterEven(xs) => subs(xs).into_iter().map(Case::FilterEven).collect(),
            Case::LFoldl(xs) => subs(xs).into_iter().map(Case::LFoldl).collect(),
            Case::LFoldr(xs) => subs(xs).into_iter().map(Case::LFoldr).collect(),
            Case::LAppend(xs, ys) => {
                let mut v: Vec<Case> = subs(xs).into_iter().map(|x| Case::LAppend(x, ys.clone())).collect();
                v.extend(subs(ys).into_iter().map(|y| Case::LAppend(xs.clone(), y)));
                v
            }
            Case::Arr(c) => c.shrinks().into_iter().map(Case::Arr).collect(),
            Case::Str(c) => c.shrinks().into_iter().map(Case::Str).collect(),
            Case::Derive(_) | Case::Json(_) | Case::JTyped(_) => vec![],
        }
    }
    fn nontrivial(&self) -> bool {
        match self {
            Case::Map(ops) => ops.iter().filter(|o| o.0 == 0).count() >= 2,
            Case::Sort(xs) | Case::FilterEven(xs) | Case::LFoldl(xs) | Case::LFoldr(xs) | Case::FilterGt(_, xs) => xs.len() >= 2,
            Case::LAppend(xs, ys) => xs.len() + ys.len() >= 2,
            Case::Arr(c) => c.nontrivial(),
            Case::Str(c) => c.nontrivial(),
            Case::Derive(c) => c.nontrivial(),
            Case::Json(c) => c.nontrivial(),
            Case::JTyped(c) => c.nontrivial(),
        }
    }
}

fn map_shape() -> Shape {
    let kv = Shape::Tuple(vec![Shape::Int, Shape::Int]);
    Shape::Tuple(vec![
        Shape::List(Box::new(Shape::Option(Box::new(Shape::Int)))),
        Shape::List(Box::new(kv.clone())),
        Shape::List(Box::new(Shape::Int)),
        Shape::List(Box::new(Shape::Int)),
        Shape::List(Box::new(kv)),
    ])
}

fn run_impl(vm: &mut Vm, c: &Case) -> String {
    match c {
        Case::Arr(a) => return strs::run_arr(vm, a),
        Case::Str(a) => return strs::run_str(vm, a),
        Case::Derive(a) => return derive::run(vm, a),
        Case::Json(a) => return json::run(vm, a),
        Case::JTyped(a) => return jtyped::run(vm, a),
        _ => {}
    }
    let li = Shape::List(Box::new(Shape::Int));
    let r = catch_unwind(AssertUnwindSafe(|| match c {
        Case::Map(ops) => {
            let flat: Vec<i64> = ops.iter().flat_map(|(t, k, v)| [*t, *k, *v]).collect();
            vm.map_run.call(flat).map(|v| render(&v, &map_shape()))
        }
        Case::Sort(xs) => vm.list_sort.call(xs.clone()).map(|v| render(&v, &li)),
        Case::FilterGt(k, xs) => vm.list_filter_gt.call(*k, xs.clone()).map(|v| render(&v, &li)),
        Case::FilterEven(xs) => vm.list_filter_even.call(xs.clone()).map(|v| render(&v, &li)),
        Case::LFoldl(xs) => vm.list_foldl.call(xs.clone()).map(|v| v.to_string()),
        Case::LFoldr(xs) => vm.list_foldr.call(xs.clone()).map(|v| v.to_string()),
        Case::LAppend(xs, ys) => vm.list_append.call(xs.clone(), ys.clone()).map(|v| render(&v, &li)),
        Case::Arr(_) | Case::Str(_) | Case::Derive(_) | Case::Json(_) | Case::JTyped(_) => unreachable!(),
    }));
    match r {
        Ok(Ok(s)) => s,
        Ok(Err(e)) => err_line(&e),
        Err(_) => "panic".to_string(),
    }
}

/// Independent oracle written against Rust std only (BTreeMap, sort, iterators).
fn run_oracle(c: &Case) -> String {
    match c {
        Case::Map(ops) => {
            let mut m: BTreeMap<i64, i64> = BTreeMap::new();
            let mut m2: BTreeMap<i64, i64> = BTreeMap::new();
            let mut finds: Vec<String> = vec![];
            for (t, k, v) in ops {
                if *t == 0 {
                    m.insert(*k, *v);
                } else {
                    m2.insert(*k, *v);
                    finds.push(match m.get(k) {
                        Some(v) => format!("S{}", v),
                        None => "N".into(),
                    });
                }
            }
            finds.reverse();
            // right-biased union of m with m2 whose values were replaced by their keys
            let mut u = m.clone();
            for k in m2.keys() {
                u.insert(*k, *k);
            }
            format!(
                "([{}];[{}];[{}];[{}];[{}])",
                finds.join(","),
                m.iter().map(|(k, v)| format!("({};{})", k, v)).collect::<Vec<_>>().join(","),
                m.keys().map(|k| k.to_string()).collect::<Vec<_>>().join(","),
                m.values().map(|k| k.to_string()).collect::<Vec<_>>().join(","),
                u.iter().map(|(k, v)| format!("({};{})", k, v)).collect::<Vec<_>>().join(",")
            )
        }
        Case::Sort(xs) => {
            let mut v = xs.clone();
            v.sort();
            brack(&v)
        }
        Case::FilterGt(k, xs) => brack(&xs.iter().copied().filter(|x| x > k).collect::<Vec<_>>()),
        Case::FilterEven(xs) => brack(&xs.iter().copied().filter(|x| x % 2 == 0).collect::<Vec<_>>()),
        Case::LFoldl(xs) => xs.iter().fold(7i64, |a, x| a * 3 - x).to_string(),
        Case::LFoldr(xs) => xs.iter().rev().fold(7i64, |a, x| x - a * 3).to_string(),
        Case::LAppend(xs, ys) => {
            let mut v = xs.clone();
            v.extend(ys);
            brack(&v)
        }
        Case::Arr(c) => strs::oracle_arr(c),
        Case::Str(c) => strs::oracle_str(c),
        Case::Derive(c) => derive::oracle(c),
        Case::Json(c) => json::oracle(c),
        Case::JTyped(c) => jtyped::oracle(c),
    }
}

/// The property's own observable evaluated on the implementation's answer (no model involved):
/// (key, description) of a failure.
fn property_failure(c: &Case, impl_line: &str) -> Option<(String, String)> {
    match c {
        Case::Derive(d) => derive::property(d, impl_line),
        Case::Json(j) => json::property(j, impl_line),
        Case::JTyped(j) => jtyped::property(j, impl_line),
        _ => None,
    }
}

// ---------------------------------------------------------------------------------------------
// generators

fn gen_ints(rng: &mut Rng, hist: &mut Hist) -> Vec<i64> {
    let kind = rng.below(8);
    let n = match rng.below(10) {
        0 => 0,
        1 => 1,
        2 => 2,
        3..=6 => rng.below(12) as usize,
        _ => rng.below(120) as usize,
    };
    let mut xs: Vec<i64> = match kind {
        0 => (0..n).map(|_| rng.range(-3, 3)).collect(),       // many duplicates
        1 => (0..n).map(|_| rng.range(-1000, 1000)).collect(), // mostly distinct
        2 => (0..n as i64).collect(),                          // sorted
        3 => (0..n as i64).rev().collect(),                    // reverse sorted
        4 => vec![rng.range(-5, 5); n],                        // constant
        5 => (0..n).map(|_| *rng.pick(&[i64::MIN, i64::MAX, 0, -1, 1, i64::MAX - 1, i64::MIN + 1])).collect(),
        _ => (0..n).map(|_| rng.range(-20, 20)).collect(),
    };
    if kind == 6 && n > 1 {
        xs.sort();
        let i = rng.below(n as u64) as usize;
        let j = rng.below(n as u64) as usize;
        xs.swap(i, j); // almost sorted
    }
    hist.add(&format!("ints:kind{}", kind));
    hist.add(&format!("ints:len{}", if n == 0 { "0".into() } else if n < 3 { n.to_string() } else if n < 12 { "3-11".into() } else { "12+".into() }));
    xs
}

/// small values only: the fold drivers multiply by 3 per element
fn gen_small_ints(rng: &mut Rng) -> Vec<i64> {
    let n = rng.below(20) as usize;
    (0..n).map(|_| rng.range(-9, 9)).collect()
}

fn gen_map_ops(rng: &mut Rng, hist: &mut Hist, thorough: bool) -> Vec<(i64, i64, i64)> {
    let n = match rng.below(10) {
        0 => 0,
        1 => rng.below(4),
        2..=5 => rng.below(30),
        _ => rng.below(201),
    } as usize;
    // colliding keys: drawn from a small range (sometimes a slightly larger one)
    let key_range = match rng.below(4) {
        0 => 3,
        1 => 8,
        2 => 20,
        _ => {
            if thorough {
                200
            } else {
                60
            }
        }
    };
    let order = rng.below(4); // 0 random, 1 ascending, 2 descending, 3 random
    let mut next = 0i64;
    let mut ops = vec![];
    for _ in 0..n {
        let k = match order {
            1 => {
                next += 1;
                next % key_range
            }
            2 => {
                next -= 1;
                next.rem_euclid(key_range)
            }
            _ => rng.range(0, key_range - 1),
        } - key_range / 2;
        if rng.chance(1, 4) {
            ops.push((1, if rng.chance(1, 5) { k + key_range } else { k }, 0));
        } else {
            ops.push((0, k, rng.range(-99, 99)));
        }
    }
    hist.add(&format!("map:keyrange{}", key_range));
    hist.add(&format!("map:ops{}", if n == 0 { "0" } else if n < 10 { "1-9" } else if n < 50 { "10-49" } else { "50-200" }));
    ops
}

fn corpus_cases() -> Vec<Case> {
    let mut v = vec![];
    for dir in ["/verif/corpus/C19"] {
        if let Ok(rd) = std::fs::read_dir(dir) {
            let mut files: Vec<_> = rd.filter_map(|e| e.ok()).map(|e| e.path()).collect();
            files.sort();
            for f in files {
                if f.extension().map(|e| e == "txt").unwrap_or(false) {
                    for line in std::fs::read_to_string(&f).unwrap_or_default().lines() {
                        let line = line.trim();
                        if line.is_empty() || line.starts_with('#') {
                            continue;
                        }
                        match Case::parse(line) {
                            Some(c) => v.push(c),
                            None => panic!("corpus line not understood: {}", line),
                        }
                    }
                }
            }
        }
    }
    v
}

fn main() {
    let args = Args::parse();
    let _ = ALT_SOURCES.set((args.extra.get("mapsrc").cloned(), args.extra.get("listsrc").cloned()));
    let mut vm = Vm::new();

    if let Some(path) = &args.replay {
        let v: serde_json::Value = serde_json::from_str(&std::fs::read_to_string(path).expect("replay file")).expect("json");
        let line = v["case"]["line"].as_str().expect("case.line").to_string();
        let c = Case::parse(&line).expect("case line");
        println!("case: {}", line);
        let r = run_impl(&mut vm, &c);
        println!("impl:   {}", r);
        println!("oracle: {}", run_oracle(&c));
        match property_failure(&c, &r) {
            Some((key, what)) => println!("property: FAILS [{}] {}", key, what),
            None => println!("property: no direct failure on this input"),
        }
        match &c {
            Case::Derive(d) => println!("gluon source:\n{}", derive::source(d)),
            Case::Json(j) => println!("gluon source (called with the float leaves / the text bytes):\n{}", json::source(j).0),
            Case::JTyped(j) => println!("gluon source (called with the float leaves):\n{}", jtyped::source(j).0),
            _ => {}
        }
        println!("expected: {}", v["expected"].as_str().unwrap_or("?"));
        return;
    }

    // shrink mode: for each case line of the file on which implementation and Rust-std oracle
    // disagree, greedily drop operations / elements while they still disagree
    if let Some(path) = args.extra.get("shrink") {
        for line in std::fs::read_to_string(path).expect("shrink file").lines() {
            let mut c = match Case::parse(line) {
                Some(c) => c,
                None => continue,
            };
            let bad = |vm: &mut Vm, c: &Case| run_impl(vm, c) != run_oracle(c);
            if bad(&mut vm, &c) {
                let mut progress = true;
                let mut budget = 3000;
                while progress && budget > 0 {
                    progress = false;
                    for cand in c.shrinks() {
                        budget -= 1;
                        if bad(&mut vm, &cand) {
                            c = cand;
                            progress = true;
                            break;
                        }
                    }
                }
            }
            println!("shrunk\t{}\t{}\t{}", c.line(), run_impl(&mut vm, &c), run_oracle(&c));
        }
        return;
    }

    let only: Option<String> = args.extra.get("family").cloned();
    let scale: u64 = if args.thorough() { 50 } else { 4 };
    let mut rng = Rng::new(args.seed);
    let mut hist = Hist::default();
    let mut cases: Vec<Case> = corpus_cases();
    let n_corpus = cases.len();

    for _ in 0..(700 * scale) {
        cases.push(Case::Map(gen_map_ops(&mut rng, &mut hist, args.thorough())));
    }
    for _ in 0..(500 * scale) {
        cases.push(Case::Sort(gen_ints(&mut rng, &mut hist)));
    }
    for _ in 0..(150 * scale) {
        let xs = gen_ints(&mut rng, &mut hist);
        let c = if xs.is_empty() || rng.chance(1, 3) { rng.range(-20, 20) } else { *rng.pick(&xs) };
        cases.push(Case::FilterGt(c, xs));
        cases.push(Case::FilterEven(gen_ints(&mut rng, &mut hist)));
    }
    for _ in 0..(60 * scale) {
        cases.push(Case::LFoldl(gen_small_ints(&mut rng)));
        cases.push(Case::LFoldr(gen_small_ints(&mut rng)));
        cases.push(Case::LAppend(gen_ints(&mut rng, &mut hist), gen_ints(&mut rng, &mut hist)));
    }
    for _ in 0..(400 * scale) {
        let xs = gen_ints(&mut rng, &mut hist);
        let ys = gen_ints(&mut rng, &mut hist);
        cases.push(Case::Arr(strs::gen_arr_case(&mut rng, &mut hist, xs, ys)));
    }
    for _ in 0..(1500 * scale) {
        cases.push(Case::Str(strs::gen_str_case(&mut rng, &mut hist)));
    }
    for _ in 0..(600 * scale) {
        cases.push(Case::Derive(derive::gen_case(&mut rng, &mut hist)));
    }
    for _ in 0..(300 * scale) {
        cases.push(Case::Json(json::gen_case(&mut rng, &mut hist)));
    }
    for _ in 0..(150 * scale) {
        cases.push(Case::Json(json::gen_text_case(&mut rng, &mut hist)));
    }
    for _ in 0..(250 * scale) {
        cases.push(Case::JTyped(jtyped::gen_case(&mut rng, &mut hist)));
    }
    if let Some(f) = &only {
        cases.retain(|c| c.family() == f);
    }

    let mut model_in = args.file("model_in.txt");
    let mut impl_out = args.file("impl_out.txt");
    let mut oracle_out = args.file("oracle_out.txt");
    let mut cases_f = args.file("cases.txt");
    let mut fam_f = args.file("families.txt");
    let mut prop_f = args.file("property_failures.txt");
    let mut distinct = HashSet::new();
    let mut nontrivial = 0u64;
    let mut per_family: BTreeMap<String, u64> = BTreeMap::new();
    for (i, c) in cases.iter().enumerate() {
        if i % 2000 == 1999 {
            vm = Vm::new();
        }
        let line = c.line();
        let r = run_impl(&mut vm, c);
        let o = run_oracle(c);
        let (line, r, o) = (one_line(&line), one_line(&r), one_line(&o));
        writeln!(model_in, "{}", line).unwrap();
        writeln!(impl_out, "{}", r).unwrap();
        writeln!(oracle_out, "{}", o).unwrap();
        writeln!(cases_f, "{}", line).unwrap();
        writeln!(fam_f, "{}", c.family()).unwrap();
        if let Some((key, what)) = property_failure(c, &r) {
            writeln!(prop_f, "{}\t{}\t{}\t{}", c.family(), one_line(&key), one_line(&line), one_line(&what.replace('\t', " "))).unwrap();
            hist.add("property-failure");
        }
        *per_family.entry(c.family().to_string()).or_insert(0) += 1;
        hist.add(&format!("family:{}", c.family()));
        hist.add(if r.starts_with("error") || r == "panic" { "impl:error" } else { "impl:ok" });
        if c.nontrivial() && distinct.insert(fnv(line.as_bytes())) {
            nontrivial += 1;
        }
    }
    model_in.flush().unwrap();
    impl_out.flush().unwrap();
    oracle_out.flush().unwrap();
    cases_f.flush().unwrap();
    fam_f.flush().unwrap();
    prop_f.flush().unwrap();
    gvh::out::write_json(
        &args.out.join("stats.json"),
        &serde_json::json!({
            "evaluations": cases.len(),
            "corpus": n_corpus,
            "distinct_nontrivial": nontrivial,
            "per_family": per_family,
            "rule": "non-trivial = at least two inserts (map) / two elements (list, array) / a non-empty string / a constructor with arguments (derive) / a compound value (json); distinct by canonical case line",
            "hist": hist.to_json(),
        }),
    );
}
