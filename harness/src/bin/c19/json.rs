//! json family: std.json.ser.to_string followed by std.json.de.deserialize on float-free values.
//!
//! case line:  json <value>
//!   value = n | t | f | i<int> | s<hex utf8> | a[ value ("," value)* ] | o[ <hex key> ":" value ("," ...)* ]
//! Object keys are distinct and sorted (bytewise) in the case line; the Gluon literal inserts them
//! into std.map in a random order given by the permutation suffix `@<perm>`? no: insertion order is
//! the reverse of the sorted order, so the BST the value starts from is not the one `de` builds.
//!
//! result line:  <hex of the serialised text> <value read back, same syntax> | error ...
use super::derive::gluon_string_literal;
use super::{Val, Vm};
use gluon::ThreadExt;
use gluon::vm::api::ValueRef;
use gvh::out::Hist;
use gvh::rng::Rng;
use std::panic::{AssertUnwindSafe, catch_unwind};

#[derive(Clone, Debug, PartialEq)]
pub enum J {
    Null,
    Bool(bool),
    Int(i64),
    Str(String),
    Arr(Vec<J>),
    Obj(Vec<(String, J)>),
}

fn hex(b: &[u8]) -> String {
    b.iter().map(|c| format!("{:02x}", c)).collect()
}
fn unhex(s: &str) -> Vec<u8> {
    (0..s.len() / 2).map(|i| u8::from_str_radix(&s[2 * i..2 * i + 2], 16).unwrap()).collect()
}

pub fn p_j(v: &J) -> String {
    match v {
        J::Null => "n".into(),
        J::Bool(true) => "t".into(),
        J::Bool(false) => "f".into(),
        J::Int(i) => format!("i{}", i),
        J::Str(s) => format!("s{}", hex(s.as_bytes())),
        J::Arr(xs) => format!("a[{}]", xs.iter().map(p_j).collect::<Vec<_>>().join(",")),
        J::Obj(kv) => format!("o[{}]", kv.iter().map(|(k, v)| format!("{}:{}", hex(k.as_bytes()), p_j(v))).collect::<Vec<_>>().join(",")),
    }
}

struct P<'a> {
    s: &'a [u8],
    i: usize,
}
impl<'a> P<'a> {
    fn peek(&self) -> u8 {
        *self.s.get(self.i).unwrap_or(&0)
    }
    fn hexs(&mut self) -> String {
        let st = self.i;
        while self.peek().is_ascii_hexdigit() {
            self.i += 1;
        }
        String::from_utf8_lossy(&self.s[st..self.i]).into_owned()
    }
    fn val(&mut self) -> Option<J> {
        let c = self.peek();
        self.i += 1;
        match c {
            b'n' => Some(J::Null),
            b't' => Some(J::Bool(true)),
            b'f' => Some(J::Bool(false)),
            b'i' => {
                let st = self.i;
                if self.peek() == b'-' {
                    self.i += 1;
                }
                while self.peek().is_ascii_digit() {
                    self.i += 1;
                }
                Some(J::Int(std::str::from_utf8(&self.s[st..self.i]).ok()?.parse().ok()?))
            }
            b's' => Some(J::Str(String::from_utf8(unhex(&self.hexs())).ok()?)),
            b'a' => {
                self.i += 1; // [
                let mut xs = vec![];
                while self.peek() != b']' {
                    xs.push(self.val()?);
                    if self.peek() == b',' {
                        self.i += 1;
                    }
                }
                self.i += 1;
                Some(J::Arr(xs))
            }
            b'o' => {
                self.i += 1;
                let mut kv = vec![];
                while self.peek() != b']' {
                    let k = String::from_utf8(unhex(&self.hexs())).ok()?;
                    self.i += 1; // :
                    kv.push((k, self.val()?));
                    if self.peek() == b',' {
                        self.i += 1;
                    }
                }
                self.i += 1;
                Some(J::Obj(kv))
            }
            _ => None,
        }
    }
}

#[derive(Clone, Debug)]
pub struct JCase {
    pub v: J,
}

impl JCase {
    pub fn line(&self) -> String {
        format!("json {}", p_j(&self.v))
    }
    pub fn parse(a: &[&str]) -> Option<JCase> {
        Some(JCase { v: P { s: a[0].as_bytes(), i: 0 }.val()? })
    }
    pub fn nontrivial(&self) -> bool {
        matches!(&self.v, J::Arr(x) if !x.is_empty()) || matches!(&self.v, J::Obj(x) if !x.is_empty())
    }
}

fn src_j(v: &J) -> String {
    match v {
        J::Null => "Null".into(),
        J::Bool(b) => format!("(Bool {})", if *b { "True" } else { "False" }),
        J::Int(i) => {
            if *i == i64::MIN {
                "(Int (0 - 9223372036854775807 - 1))".into()
            } else if *i < 0 {
                format!("(Int (0 - {}))", -i)
            } else {
                format!("(Int {})", i)
            }
        }
        J::Str(s) => format!("(String {})", gluon_string_literal(s)),
        J::Arr(xs) => format!("(Array [{}])", xs.iter().map(src_j).collect::<Vec<_>>().join(", ")),
        J::Obj(kv) => {
            // insert in reverse sorted order: a left-leaning tree, unlike the one `de` builds
            let mut s = String::from("map.empty");
            for (k, v) in kv.iter().rev() {
                s = format!("(map.insert {} {} {})", gluon_string_literal(k), src_j(v), s);
            }
            format!("(Object {})", s)
        }
    }
}

pub fn source(c: &JCase) -> String {
    format!(
        "let {{ Value }} = import! std.json\nlet ser = import! std.json.ser\nlet de = import! std.json.de\nlet map = import! std.map\nlet {{ Result }} = import! std.result\nlet v : Value = {}\nmatch ser.to_string ?ser.serialize_value v with\n| Err e -> Err e\n| Ok text ->\n    match de.deserialize_with de.value text with\n    | Err e -> Err e\n    | Ok back -> Ok (text, back)\n",
        src_j(&c.v)
    )
}

/// canonical rendering of a std.json.Value in the VM (tags: Null 0, Bool 1, Int 2, Float 3,
/// String 4, Array 5, Object 6); the map is walked in order (Tip 0 / Bin k v l r 1)
fn canon_value(v: ValueRef<'_>, out: &mut String) {
    let d = match v {
        ValueRef::Data(d) => d,
        o => {
            out.push_str(&format!("?value:{:?}", o));
            return;
        }
    };
    match d.tag() {
        0 => out.push('n'),
        1 => match d.get(0) {
            Some(ValueRef::Data(b)) => out.push(if b.tag() == 1 { 't' } else { 'f' }),
            o => out.push_str(&format!("?bool:{:?}", o)),
        },
        2 => match d.get(0) {
            Some(ValueRef::Int(i)) => out.push_str(&format!("i{}", i)),
            o => out.push_str(&format!("?int:{:?}", o)),
        },
        3 => match d.get(0) {
            Some(ValueRef::Float(f)) => out.push_str(&format!("F{:016x}", f.to_bits())),
            o => out.push_str(&format!("?float:{:?}", o)),
        },
        4 => match d.get(0) {
            Some(ValueRef::String(s)) => out.push_str(&format!("s{}", hex(s.as_bytes()))),
            o => out.push_str(&format!("?string:{:?}", o)),
        },
        5 => match d.get(0) {
            Some(ValueRef::Array(a)) => {
                out.push_str("a[");
                for (i, x) in a.iter().enumerate() {
                    if i > 0 {
                        out.push(',');
                    }
                    canon_value(x.as_ref(), out);
                }
                out.push(']');
            }
            o => out.push_str(&format!("?array:{:?}", o)),
        },
        6 => {
            out.push_str("o[");
            let mut first = true;
            fn walk(m: ValueRef<'_>, out: &mut String, first: &mut bool) {
                if let ValueRef::Data(d) = m {
                    if d.tag() == 1 && d.len() == 4 {
                        walk(d.get(2).unwrap(), out, first);
                        if !*first {
                            out.push(',');
                        }
                        *first = false;
                        match d.get(0) {
                            Some(ValueRef::String(k)) => out.push_str(&hex(k.as_bytes())),
                            o => out.push_str(&format!("?key:{:?}", o)),
                        }
                        out.push(':');
                        canon_value(d.get(1).unwrap(), out);
                        walk(d.get(3).unwrap(), out, first);
                    }
                }
            }
            walk(d.get(0).unwrap(), out, &mut first);
            out.push(']');
        }
        t => out.push_str(&format!("?tag{}", t)),
    }
}

pub fn run(vm: &mut Vm, c: &JCase) -> String {
    let src = source(c);
    let r = catch_unwind(AssertUnwindSafe(|| vm.vm.run_expr::<Val>("c19json", &src)));
    match r {
        Ok(Ok((v, _))) => match v.get_ref() {
            // Result e t = | Err e | Ok t
            ValueRef::Data(d) if d.tag() == 1 && d.len() == 1 => match d.get(0) {
                Some(ValueRef::Data(p)) if p.len() == 2 => match p.get(0) {
                    Some(ValueRef::String(text)) => {
                        let mut s = format!("{} ", hex(text.as_bytes()));
                        canon_value(p.get(1).unwrap(), &mut s);
                        s
                    }
                    o => format!("?text:{:?}", o),
                },
                o => format!("?pair:{:?}", o),
            },
            ValueRef::Data(d) if d.tag() == 0 && d.len() == 1 => match d.get(0) {
                Some(ValueRef::String(e)) => format!("error {}", e.replace('\n', " | ")),
                o => format!("?err:{:?}", o),
            },
            o => format!("?result:{:?}", o),
        },
        Ok(Err(e)) => format!("{} || source: {}", format!("error {}", e.to_string().replace('\n', " | ")), src.replace('\n', " ; ")),
        Err(_) => "panic".into(),
    }
}

fn to_serde(v: &J) -> serde_json::Value {
    match v {
        J::Null => serde_json::Value::Null,
        J::Bool(b) => serde_json::Value::Bool(*b),
        J::Int(i) => serde_json::Value::Number((*i).into()),
        J::Str(s) => serde_json::Value::String(s.clone()),
        J::Arr(xs) => serde_json::Value::Array(xs.iter().map(to_serde).collect()),
        J::Obj(kv) => serde_json::Value::Object(kv.iter().map(|(k, v)| (k.clone(), to_serde(v))).collect()),
    }
}
fn from_serde(v: &serde_json::Value) -> J {
    match v {
        serde_json::Value::Null => J::Null,
        serde_json::Value::Bool(b) => J::Bool(*b),
        serde_json::Value::Number(n) => J::Int(n.as_i64().unwrap_or(0)),
        serde_json::Value::String(s) => J::Str(s.clone()),
        serde_json::Value::Array(xs) => J::Arr(xs.iter().map(from_serde).collect()),
        serde_json::Value::Object(m) => {
            let mut kv: Vec<(String, J)> = m.iter().map(|(k, v)| (k.clone(), from_serde(v))).collect();
            kv.sort_by(|a, b| a.0.as_bytes().cmp(b.0.as_bytes()));
            J::Obj(kv)
        }
    }
}

/// serde_json on its own data model as the cross-check (objects sorted by key).
pub fn oracle(c: &JCase) -> String {
    let sv = to_serde(&c.v);
    let text = serde_json::to_string(&sv).unwrap();
    let back: serde_json::Value = serde_json::from_str(&text).unwrap();
    format!("{} {}", hex(text.as_bytes()), p_j(&from_serde(&back)))
}

/// The property itself on the implementation's answer: reading back what was written is the identity.
pub fn property(c: &JCase, impl_line: &str) -> Option<(String, String)> {
    let p: Vec<&str> = impl_line.split(' ').collect();
    if p.len() == 2 && !impl_line.starts_with("error") {
        if p[1] != p_j(&c.v) {
            return Some((format!("json:round-trip:{}", p_j(&c.v)), format!("de (ser v) = {} for v = {}", p[1], p_j(&c.v))));
        }
        None
    } else {
        Some((format!("json:round-trip-fails:{}", p_j(&c.v)), format!("ser/de of {} fails: {}", p_j(&c.v), impl_line)))
    }
}

const CHARS: &[char] = &['a', 'b', 'k', ' ', '"', '\\', '/', '\n', '\t', '\r', 'é', '€', '😀', '\u{7f}', '\u{2028}', '{', '}', '[', ']', ':', ',', '0'];
// control characters that have no Gluon string escape are passed raw inside the literal
const CTRL: &[char] = &['\u{1}', '\u{8}', '\u{c}', '\u{1f}'];

fn gen_str(rng: &mut Rng) -> String {
    let n = match rng.below(4) {
        0 => 0,
        1 => 1,
        _ => rng.below(7),
    };
    (0..n).map(|_| if rng.chance(1, 12) { *rng.pick(CTRL) } else { *rng.pick(CHARS) }).collect()
}

fn gen_j(rng: &mut Rng, depth: u32) -> J {
    let k = if depth == 0 { rng.below(4) } else { rng.below(7) };
    match k {
        0 => J::Null,
        1 => J::Bool(rng.chance(1, 2)),
        2 => J::Int(match rng.below(5) {
            0 => 0,
            1 => *rng.pick(&[i64::MAX, i64::MIN, -1, 1]),
            2 => rng.range(-9, 9),
            _ => rng.range(-100000, 100000),
        }),
        3 => J::Str(gen_str(rng)),
        4 | 5 => J::Arr((0..rng.below(4)).map(|_| gen_j(rng, depth - 1)).collect()),
        _ => {
            let mut kv: Vec<(String, J)> = vec![];
            for _ in 0..rng.below(5) {
                let k = gen_str(rng);
                if !kv.iter().any(|(k2, _)| *k2 == k) {
                    kv.push((k, gen_j(rng, depth - 1)));
                }
            }
            kv.sort_by(|a, b| a.0.as_bytes().cmp(b.0.as_bytes()));
            J::Obj(kv)
        }
    }
}

pub fn gen_case(rng: &mut Rng, hist: &mut Hist) -> JCase {
    let depth = rng.below(4) as u32;
    let v = gen_j(rng, depth);
    hist.add(&format!("json:depth{}", depth));
    hist.add(match &v {
        J::Null | J::Bool(_) | J::Int(_) | J::Str(_) => "json:scalar",
        J::Arr(_) => "json:array",
        J::Obj(_) => "json:object",
    });
    JCase { v }
}
