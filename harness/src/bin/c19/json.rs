//! json family, value level: std.json.ser.to_string followed by std.json.de.deserialize on
//! std.json.Value, every value class (null, bool, int, FLOAT, string, array, object), and reading
//! of re-spelled texts (white space, \u escapes, surrogate pairs, exponent spellings).
//!
//! case lines
//!   json <value>                        ser then de of the value
//!   jsontext <value> <hex text>         de of a re-spelling of ser(value); must read back as <value>
//!   value = n | t | f | i<int> | F<16 hex digits: f64 bits>:<hex of the decimal token> | s<hex utf8>
//!         | a[ value ("," value)* ] | o[ <hex key> ":" value ("," ...)* ]
//! Object keys are distinct and sorted (bytewise); the Gluon literal inserts them in reverse order, so
//! the BST the value starts from is not the one `de` builds.  Floats are finite (JSON has no NaN/inf)
//! and reach the Gluon program through an `Array Float` argument (no float literal is lexed).
//! The decimal token of a float in the case line is serde_json's own rendering: the Coq model carries
//! float tokens opaquely (Lib/Json.v JFloat); what IS checked independently for floats is the
//! round-trip property on the implementation, by BIT equality of the f64 read back.
//!
//! result line:  <hex of the serialised text> <value read back, floats as F<bits>> | error ...
use super::derive::gluon_string_literal;
use super::{Val, Vm};
use gluon::ThreadExt;
use gluon::vm::api::{Getable, OwnedFunction, ValueRef};
use gvh::out::Hist;
use gvh::rng::Rng;
use std::panic::{AssertUnwindSafe, catch_unwind};

#[derive(Clone, Debug, PartialEq)]
pub enum J {
    Null,
    Bool(bool),
    Int(i64),
    /// bit pattern
    Float(u64),
    Str(String),
    Arr(Vec<J>),
    Obj(Vec<(String, J)>),
}

pub fn hex(b: &[u8]) -> String {
    b.iter().map(|c| format!("{:02x}", c)).collect()
}
pub fn unhex(s: &str) -> Vec<u8> {
    (0..s.len() / 2).map(|i| u8::from_str_radix(&s[2 * i..2 * i + 2], 16).unwrap()).collect()
}

/// serde_json's decimal token of a finite float (used opaquely by the model)
pub fn float_token(bits: u64) -> String {
    serde_json::to_string(&f64::from_bits(bits)).unwrap()
}

/// rendering with (`tok` = true: case lines) or without (results) the float tokens
pub fn p_j(v: &J, tok: bool) -> String {
    match v {
        J::Null => "n".into(),
        J::Bool(true) => "t".into(),
        J::Bool(false) => "f".into(),
        J::Int(i) => format!("i{}", i),
        J::Float(b) => {
            if tok {
                format!("F{:016x}:{}", b, hex(float_token(*b).as_bytes()))
            } else {
                format!("F{:016x}", b)
            }
        }
        J::Str(s) => format!("s{}", hex(s.as_bytes())),
        J::Arr(xs) => format!("a[{}]", xs.iter().map(|x| p_j(x, tok)).collect::<Vec<_>>().join(",")),
        J::Obj(kv) => format!("o[{}]", kv.iter().map(|(k, v)| format!("{}:{}", hex(k.as_bytes()), p_j(v, tok))).collect::<Vec<_>>().join(",")),
    }
}

pub struct P<'a> {
    pub s: &'a [u8],
    pub i: usize,
}
impl<'a> P<'a> {
    pub fn peek(&self) -> u8 {
        *self.s.get(self.i).unwrap_or(&0)
    }
    pub fn hexs(&mut self) -> String {
        let st = self.i;
        while self.peek().is_ascii_hexdigit() {
            self.i += 1;
        }
        String::from_utf8_lossy(&self.s[st..self.i]).into_owned()
    }
    pub fn num(&mut self) -> Option<i64> {
        let st = self.i;
        if self.peek() == b'-' {
            self.i += 1;
        }
        while self.peek().is_ascii_digit() {
            self.i += 1;
        }
        std::str::from_utf8(&self.s[st..self.i]).ok()?.parse().ok()
    }
    pub fn val(&mut self) -> Option<J> {
        let c = self.peek();
        self.i += 1;
        match c {
            b'n' => Some(J::Null),
            b't' => Some(J::Bool(true)),
            b'f' => Some(J::Bool(false)),
            b'i' => Some(J::Int(self.num()?)),
            b'F' => {
                let h = std::str::from_utf8(&self.s[self.i..self.i + 16]).ok()?;
                let bits = u64::from_str_radix(h, 16).ok()?;
                self.i += 16;
                if self.peek() == b':' {
                    self.i += 1;
                    self.hexs();
                }
                Some(J::Float(bits))
            }
            b's' => Some(J::Str(String::from_utf8(unhex(&self.hexs())).ok()?)),
            b'a' => {
                self.i += 1; // [
                let mut xs = vec![];
                while self.peek() != b']' {
                    xs.push(self.val()?);
                    if self.peek() == b',' {
                        self.i += 1;
                    }
                }
                self.i += 1;
                Some(J::Arr(xs))
            }
            b'o' => {
                self.i += 1;
                let mut kv = vec![];
                while self.peek() != b']' {
                    let k = String::from_utf8(unhex(&self.hexs())).ok()?;
                    self.i += 1; // :
                    kv.push((k, self.val()?));
                    if self.peek() == b',' {
                        self.i += 1;
                    }
                }
                self.i += 1;
                Some(J::Obj(kv))
            }
            _ => None,
        }
    }
}

#[derive(Clone, Debug)]
pub struct JCase {
    pub v: J,
    /// Some(text): read this re-spelling of ser(v) instead of serialising
    pub text: Option<String>,
}

fn has_float(v: &J) -> bool {
    match v {
        J::Float(_) => true,
        J::Arr(x) => x.iter().any(has_float),
        J::Obj(x) => x.iter().any(|(_, v)| has_float(v)),
        _ => false,
    }
}

impl JCase {
    pub fn line(&self) -> String {
        match &self.text {
            None => format!("json {}", p_j(&self.v, true)),
            Some(t) => format!("jsontext {} {}", p_j(&self.v, true), hex(t.as_bytes())),
        }
    }
    pub fn parse(a: &[&str]) -> Option<JCase> {
        Some(JCase { v: P { s: a[0].as_bytes(), i: 0 }.val()?, text: None })
    }
    pub fn parse_text(a: &[&str]) -> Option<JCase> {
        Some(JCase { v: P { s: a[0].as_bytes(), i: 0 }.val()?, text: Some(String::from_utf8(unhex(a[1])).ok()?) })
    }
    pub fn nontrivial(&self) -> bool {
        matches!(&self.v, J::Arr(x) if !x.is_empty()) || matches!(&self.v, J::Obj(x) if !x.is_empty()) || has_float(&self.v) || self.text.is_some()
    }
}

pub fn src_int(i: i64) -> String {
    if i == i64::MIN {
        "(0 - 9223372036854775807 - 1)".into()
    } else if i < 0 {
        format!("(0 - {})", -i)
    } else {
        i.to_string()
    }
}

fn src_j(v: &J, floats: &mut Vec<f64>) -> String {
    match v {
        J::Null => "Null".into(),
        J::Bool(b) => format!("(Bool {})", if *b { "True" } else { "False" }),
        J::Int(i) => format!("(Int {})", src_int(*i)),
        J::Float(b) => {
            floats.push(f64::from_bits(*b));
            format!("(Float (array.index fs {}))", floats.len() - 1)
        }
        J::Str(s) => format!("(String {})", gluon_string_literal(s)),
        J::Arr(xs) => format!("(Array [{}])", xs.iter().map(|x| src_j(x, floats)).collect::<Vec<_>>().join(", ")),
        J::Obj(kv) => {
            // insert in reverse sorted order: a left-leaning tree, unlike the one `de` builds
            let mut s = String::from("map.empty");
            for (k, v) in kv.iter().rev() {
                let vs = src_j(v, floats);
                s = format!("(map.insert {} {} {})", gluon_string_literal(k), vs, s);
            }
            format!("(Object {})", s)
        }
    }
}

const PRELUDE: &str = "let { Value } = import! std.json\nlet ser = import! std.json.ser\nlet de = import! std.json.de\nlet map = import! std.map\nlet array = import! std.array\nlet { Result } = import! std.result\n";

/// (Gluon source of a function `Array Float -> Array Byte -> Result String (String, Value)`, float arguments)
pub fn source(c: &JCase) -> (String, Vec<f64>) {
    let mut floats = vec![];
    let lit = src_j(&c.v, &mut floats);
    let body = match &c.text {
        None => format!(
            "let v : Value = {}\n    match ser.to_string ?ser.serialize_value v with\n    | Err e -> Err e\n    | Ok text ->\n        match de.deserialize_with de.value text with\n        | Err e -> Err e\n        | Ok back -> Ok (text, back)\n",
            lit
        ),
        // the text arrives as bytes (no Gluon string literal can spell every text)
        Some(_) => "match string.from_utf8 bs with\n    | Err _ -> Err \"not utf8\"\n    | Ok text ->\n        match de.deserialize_with de.value text with\n        | Err e -> Err e\n        | Ok back -> Ok (text, back)\n".to_string(),
    };
    // the result type is spelled out: without it the checker reports an escaping skolem for the pair
    let body = body.replace("\n", "\n    ");
    (format!("{}let string = import! std.string\n\\fs bs ->\n    let out : Result String (String, Value) =\n        {}\n    out\n", PRELUDE, body.trim_end()), floats)
}

/// canonical rendering of a std.json.Value in the VM (tags: Null 0, Bool 1, Int 2, Float 3,
/// String 4, Array 5, Object 6); the map is walked in order (Tip 0 / Bin k v l r 1)
pub fn canon_value(v: ValueRef<'_>, out: &mut String) {
    let d = match v {
        ValueRef::Data(d) => d,
        o => {
            out.push_str(&format!("?value:{:?}", o));
            return;
        }
    };
    match d.tag() {
        0 => out.push('n'),
        1 => match d.get(0) {
            Some(ValueRef::Data(b)) => out.push(if b.tag() == 1 { 't' } else { 'f' }),
            o => out.push_str(&format!("?bool:{:?}", o)),
        },
        2 => match d.get(0) {
            Some(ValueRef::Int(i)) => out.push_str(&format!("i{}", i)),
            o => out.push_str(&format!("?int:{:?}", o)),
        },
        3 => match d.get(0) {
            Some(ValueRef::Float(f)) => out.push_str(&format!("F{:016x}", f.to_bits())),
            o => out.push_str(&format!("?float:{:?}", o)),
        },
        4 => match d.get(0) {
            Some(ValueRef::String(s)) => out.push_str(&format!("s{}", hex(s.as_bytes()))),
            o => out.push_str(&format!("?string:{:?}", o)),
        },
        5 => match d.get(0) {
            Some(ValueRef::Array(a)) => {
                out.push_str("a[");
                for (i, x) in a.iter().enumerate() {
                    if i > 0 {
                        out.push(',');
                    }
                    canon_value(x.as_ref(), out);
                }
                out.push(']');
            }
            o => out.push_str(&format!("?array:{:?}", o)),
        },
        6 => {
            out.push_str("o[");
            let mut first = true;
            fn walk(m: ValueRef<'_>, out: &mut String, first: &mut bool) {
                if let ValueRef::Data(d) = m {
                    if d.tag() == 1 && d.len() == 4 {
                        walk(d.get(2).unwrap(), out, first);
                        if !*first {
                            out.push(',');
                        }
                        *first = false;
                        match d.get(0) {
                            Some(ValueRef::String(k)) => out.push_str(&hex(k.as_bytes())),
                            o => out.push_str(&format!("?key:{:?}", o)),
                        }
                        out.push(':');
                        canon_value(d.get(1).unwrap(), out);
                        walk(d.get(3).unwrap(), out, first);
                    }
                }
            }
            walk(d.get(0).unwrap(), out, &mut first);
            out.push(']');
        }
        t => out.push_str(&format!("?tag{}", t)),
    }
}

/// `Result String (String, X)` -> "<hex text> <canon X>" | "error .."
pub fn render_result(v: &Val, canon: &dyn Fn(ValueRef<'_>, &mut String)) -> String {
    match v.get_ref() {
        // Result e t = | Err e | Ok t
        ValueRef::Data(d) if d.tag() == 1 && d.len() == 1 => match d.get(0) {
            Some(ValueRef::Data(p)) if p.len() == 2 => match p.get(0) {
                Some(ValueRef::String(text)) => {
                    let mut s = format!("{} ", hex(text.as_bytes()));
                    canon(p.get(1).unwrap(), &mut s);
                    s
                }
                o => format!("?text:{:?}", o),
            },
            o => format!("?pair:{:?}", o),
        },
        ValueRef::Data(d) if d.tag() == 0 && d.len() == 1 => match d.get(0) {
            Some(ValueRef::String(e)) => format!("error {}", e.replace('\n', " | ")),
            o => format!("?err:{:?}", o),
        },
        o => format!("?result:{:?}", o),
    }
}

pub fn run(vm: &mut Vm, c: &JCase) -> String {
    let (src, floats) = source(c);
    let bytes: Vec<u8> = c.text.clone().unwrap_or_default().into_bytes();
    let r = catch_unwind(AssertUnwindSafe(|| {
        let (fv, _) = vm.vm.run_expr::<Val>("c19json", &src).map_err(|e| e.to_string())?;
        // the expected type of run_expr cannot mention a hole under an arrow: take the closure as an
        // opaque value and view it as a function
        let mut f: OwnedFunction<fn(Vec<f64>, Vec<u8>) -> Val> = Getable::from_value(&vm.vm, fv.get_variant());
        f.call(floats, bytes).map_err(|e| e.to_string())
    }));
    match r {
        Ok(Ok(v)) => render_result(&v, &canon_value),
        Ok(Err(e)) => format!("error {} || source: {}", e.replace('\n', " | "), src.replace('\n', " ; ")),
        Err(_) => "panic".into(),
    }
}

pub fn to_serde(v: &J) -> serde_json::Value {
    match v {
        J::Null => serde_json::Value::Null,
        J::Bool(b) => serde_json::Value::Bool(*b),
        J::Int(i) => serde_json::Value::Number((*i).into()),
        J::Float(b) => serde_json::Value::Number(serde_json::Number::from_f64(f64::from_bits(*b)).expect("finite")),
        J::Str(s) => serde_json::Value::String(s.clone()),
        J::Arr(xs) => serde_json::Value::Array(xs.iter().map(to_serde).collect()),
        J::Obj(kv) => serde_json::Value::Object(kv.iter().map(|(k, v)| (k.clone(), to_serde(v))).collect()),
    }
}
pub fn from_serde(v: &serde_json::Value) -> J {
    match v {
        serde_json::Value::Null => J::Null,
        serde_json::Value::Bool(b) => J::Bool(*b),
        serde_json::Value::Number(n) => {
            if let Some(i) = n.as_i64() {
                J::Int(i)
            } else if let Some(u) = n.as_u64() {
                J::Int(u as i64)
            } else {
                J::Float(n.as_f64().unwrap().to_bits())
            }
        }
        serde_json::Value::String(s) => J::Str(s.clone()),
        serde_json::Value::Array(xs) => J::Arr(xs.iter().map(from_serde).collect()),
        serde_json::Value::Object(m) => {
            let mut kv: Vec<(String, J)> = m.iter().map(|(k, v)| (k.clone(), from_serde(v))).collect();
            kv.sort_by(|a, b| a.0.as_bytes().cmp(b.0.as_bytes()));
            J::Obj(kv)
        }
    }
}

/// serde_json on its own data model as the cross-check (objects sorted by key): its text for the
/// value and its reading of the text (of the given re-spelling for jsontext cases).
pub fn oracle(c: &JCase) -> String {
    let text = match &c.text {
        None => serde_json::to_string(&to_serde(&c.v)).unwrap(),
        Some(t) => t.clone(),
    };
    match serde_json::from_str::<serde_json::Value>(&text) {
        Ok(back) => format!("{} {}", hex(text.as_bytes()), p_j(&from_serde(&back), false)),
        Err(e) => format!("error {}", e),
    }
}

/// Do `want` and `got` differ only in float leaves, each off by at most 8 units in the last place (same sign)?
pub fn few_ulps_apart(want: &J, got: &J) -> bool {
    fn go(a: &J, b: &J, n: &mut u32) -> bool {
        match (a, b) {
            (J::Float(x), J::Float(y)) => {
                if x == y {
                    true
                } else if (x >> 63) == (y >> 63) && (x.max(y) - x.min(y)) <= 8 {
                    *n += 1;
                    true
                } else {
                    false
                }
            }
            (J::Arr(x), J::Arr(y)) => x.len() == y.len() && x.iter().zip(y).all(|(p, q)| go(p, q, n)),
            (J::Obj(x), J::Obj(y)) => x.len() == y.len() && x.iter().zip(y).all(|((k1, p), (k2, q))| k1 == k2 && go(p, q, n)),
            (a, b) => a == b,
        }
    }
    let mut n = 0;
    go(want, got, &mut n) && n > 0
}

/// key of the one class of float inexactness found on the unchanged tree (serde_json is built
/// without its `float_roundtrip` feature): everything else is keyed by the failing input
pub const ULP_KEY: &str = "json:float-reads-back-a-few-ulps-off";

/// The property itself on the implementation's answer: reading back what was written (or a
/// re-spelling of it) is the identity; floats are compared by bit pattern.
pub fn property(c: &JCase, impl_line: &str) -> Option<(String, String)> {
    let p: Vec<&str> = impl_line.split(' ').collect();
    let want = p_j(&c.v, false);
    let class = |v: &J| -> &'static str {
        if has_float(v) { "value-with-float" } else { "float-free-value" }
    };
    let kind = if c.text.is_some() { "respelled-text" } else { "round-trip" };
    if p.len() == 2 && !impl_line.starts_with("error") {
        if p[1] != want {
            if let Some(got) = (P { s: p[1].as_bytes(), i: 0 }).val() {
                if few_ulps_apart(&c.v, &got) {
                    return Some((ULP_KEY.to_string(), format!("{} reads back as {} (a float a few units in the last place off)", want, p[1])));
                }
            }
            return Some((format!("json:{}:{}:{}", kind, class(&c.v), c.line()), format!("reads back as {} instead of {}", p[1], want)));
        }
        None
    } else {
        Some((format!("json:{}-fails:{}:{}", kind, class(&c.v), c.line()), format!("ser/de of {} fails: {}", want, impl_line)))
    }
}

// ---- generators ----

const CHARS: &[char] = &['a', 'b', 'k', ' ', '"', '\\', '/', '\n', '\t', '\r', 'é', '€', '😀', '𝄞', '\u{7f}', '\u{2028}', '\u{ffff}', '{', '}', '[', ']', ':', ',', '0', 'e', '.'];
// control characters that have no Gluon string escape are passed raw inside the literal
const CTRL: &[char] = &['\u{1}', '\u{8}', '\u{c}', '\u{1f}'];

pub fn gen_str(rng: &mut Rng) -> String {
    let n = match rng.below(4) {
        0 => 0,
        1 => 1,
        _ => rng.below(7),
    };
    (0..n).map(|_| if rng.chance(1, 12) { *rng.pick(CTRL) } else { *rng.pick(CHARS) }).collect()
}

pub fn gen_int(rng: &mut Rng) -> i64 {
    match rng.below(7) {
        0 => 0,
        1 => *rng.pick(&[i64::MAX, i64::MIN, -1, 1]),
        2 => rng.range(-9, 9),
        // integers around and beyond 2^53 (not exactly representable as f64)
        3 => *rng.pick(&[9007199254740992i64, 9007199254740993, -9007199254740993, 9007199254740991, 1 << 62, (1 << 62) + 1]),
        _ => rng.range(-100000, 100000),
    }
}

/// finite floats of every class named by the property: whole numbers, negative zero, values that
/// print with an exponent, large / small magnitudes, subnormals, integers beyond 2^53, random bits
pub fn gen_float(rng: &mut Rng, hist: &mut Hist) -> u64 {
    let (class, f): (&str, f64) = match rng.below(10) {
        0 => ("whole-small", rng.range(-20, 20) as f64),
        1 => ("whole-large", *rng.pick(&[1e15, -1e15, 9007199254740992.0, 9007199254740994.0, 1e16, 1e19, 9.223372036854775807e18, -9.223372036854775808e18, 1.8446744073709552e19, 1e21, 1e22, 123456789012345680000.0])),
        2 => ("neg-zero", -0.0),
        3 => ("fraction", *rng.pick(&[0.5, 1.5, -2.25, 0.1, 0.2, 0.3, 1.0 / 3.0, 2.0 / 3.0, 3.14159, 1e-7, 123.456, -0.001])),
        4 => ("exponent", *rng.pick(&[1e300, -1e300, 1e-300, 1.5e200, 2.5e-200, 1e100, 1e-5, 1e-7, 6.02214076e23, 1.7976931348623157e308])),
        5 => ("subnormal-tiny", *rng.pick(&[5e-324, 2.2250738585072014e-308, 2.225073858507201e-308, 1e-310, -5e-324])),
        6 => ("int-valued-mix", (rng.range(-1000000, 1000000) * 1000) as f64),
        7 => ("near-whole", rng.range(-100, 100) as f64 + *rng.pick(&[0.5, 0.25, 1e-9, -1e-9])),
        _ => {
            // random finite bit pattern
            let mut b = rng.next_u64();
            while !f64::from_bits(b).is_finite() {
                b = rng.next_u64();
            }
            ("random-bits", f64::from_bits(b))
        }
    };
    hist.add(&format!("json:float:{}", class));
    f.to_bits()
}

fn gen_j(rng: &mut Rng, hist: &mut Hist, depth: u32) -> J {
    let k = if depth == 0 { rng.below(6) } else { rng.below(10) };
    match k {
        0 => J::Null,
        1 => J::Bool(rng.chance(1, 2)),
        2 => J::Int(gen_int(rng)),
        3 => J::Str(gen_str(rng)),
        4 | 5 => J::Float(gen_float(rng, hist)),
        6 | 7 => {
            // ints and floats side by side
            let n = rng.below(4);
            J::Arr((0..n).map(|_| if depth > 1 || rng.chance(1, 2) { gen_j(rng, hist, depth - 1) } else if rng.chance(1, 2) { J::Int(gen_int(rng)) } else { J::Float(gen_float(rng, hist)) }).collect())
        }
        _ => {
            let mut kv: Vec<(String, J)> = vec![];
            for _ in 0..rng.below(5) {
                let k = gen_str(rng);
                if !kv.iter().any(|(k2, _)| *k2 == k) {
                    kv.push((k, gen_j(rng, hist, depth - 1)));
                }
            }
            kv.sort_by(|a, b| a.0.as_bytes().cmp(b.0.as_bytes()));
            J::Obj(kv)
        }
    }
}

pub fn gen_case(rng: &mut Rng, hist: &mut Hist) -> JCase {
    let depth = rng.below(4) as u32;
    let v = gen_j(rng, hist, depth);
    hist.add(&format!("json:depth{}", depth));
    hist.add(match &v {
        J::Float(_) => "json:float",
        J::Null | J::Bool(_) | J::Int(_) | J::Str(_) => "json:scalar",
        J::Arr(_) => "json:array",
        J::Obj(_) => "json:object",
    });
    JCase { v, text: None }
}

// ---- re-spelled texts: white space, escapes, exponent spellings ----

fn ws(rng: &mut Rng, out: &mut String) {
    for _ in 0..rng.below(3) {
        if rng.chance(1, 2) {
            out.push(*rng.pick(&[' ', '\t', '\n', '\r']));
        }
    }
}

fn respell_str(rng: &mut Rng, s: &str, out: &mut String) {
    out.push('"');
    for c in s.chars() {
        let esc = rng.below(4);
        match c {
            '"' => out.push_str("\\\""),
            '\\' => out.push_str("\\\\"),
            '/' if esc == 0 => out.push_str("\\/"),
            '\n' if esc != 1 => out.push_str("\\n"),
            '\t' if esc != 1 => out.push_str("\\t"),
            '\r' if esc != 1 => out.push_str("\\r"),
            '\u{8}' if esc != 1 => out.push_str("\\b"),
            '\u{c}' if esc != 1 => out.push_str("\\f"),
            c if (c as u32) < 0x20 || esc == 1 => {
                // \uXXXX, astral characters as a surrogate pair; upper or lower case hex
                let mut buf = [0u16; 2];
                for u in c.encode_utf16(&mut buf) {
                    if rng.chance(1, 2) {
                        out.push_str(&format!("\\u{:04x}", u));
                    } else {
                        out.push_str(&format!("\\u{:04X}", u));
                    }
                }
            }
            c => out.push(c),
        }
    }
    out.push('"');
}

fn respell(rng: &mut Rng, v: &J, out: &mut String) {
    match v {
        J::Null => out.push_str("null"),
        J::Bool(b) => out.push_str(if *b { "true" } else { "false" }),
        J::Int(i) => out.push_str(&i.to_string()),
        J::Float(b) => {
            let t = float_token(*b);
            // same number, other spelling: an explicit zero exponent
            match rng.below(4) {
                0 if !t.contains('e') => out.push_str(&format!("{}e0", t)),
                1 if !t.contains('e') => out.push_str(&format!("{}E+0", t)),
                2 if t.contains('e') => out.push_str(&t.replace('e', "E")),
                _ => out.push_str(&t),
            }
        }
        J::Str(s) => respell_str(rng, s, out),
        J::Arr(xs) => {
            out.push('[');
            ws(rng, out);
            for (i, x) in xs.iter().enumerate() {
                if i > 0 {
                    out.push(',');
                    ws(rng, out);
                }
                respell(rng, x, out);
                ws(rng, out);
            }
            out.push(']');
        }
        J::Obj(kv) => {
            out.push('{');
            ws(rng, out);
            // any member order denotes the same object
            let mut idx: Vec<usize> = (0..kv.len()).collect();
            if rng.chance(1, 2) {
                idx.reverse();
            }
            for (n, i) in idx.iter().enumerate() {
                if n > 0 {
                    out.push(',');
                    ws(rng, out);
                }
                respell_str(rng, &kv[*i].0, out);
                ws(rng, out);
                out.push(':');
                ws(rng, out);
                respell(rng, &kv[*i].1, out);
                ws(rng, out);
            }
            out.push('}');
        }
    }
}

pub fn gen_text_case(rng: &mut Rng, hist: &mut Hist) -> JCase {
    let depth = rng.below(4) as u32;
    let v = gen_j(rng, hist, depth);
    let mut t = String::new();
    ws(rng, &mut t);
    respell(rng, &v, &mut t);
    ws(rng, &mut t);
    hist.add("json:respelled-text");
    JCase { v, text: Some(t) }
}
