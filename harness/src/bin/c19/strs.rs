//! array-string family: std.array / std.string functions through one Gluon dispatcher each
//! (`arr_op`, `str_op` in the driver source of main.rs), results in the tagged type `R`.
use super::{Vm, err_line, ints};
use gluon::vm::api::ValueRef;
use gvh::out::Hist;
use gvh::rng::Rng;
use std::panic::{AssertUnwindSafe, catch_unwind};

pub const ARR_OPS: &[&str] = &["len", "index", "append", "slice", "foldl", "foldr", "map", "eq", "cmp", "show"];
pub const STR_OPS: &[&str] = &[
    "len", "is_empty", "boundary", "bytes", "split_at", "contains", "starts_with", "ends_with", "find", "rfind", "trim", "trim_start",
    "trim_end", "trim_start_matches", "trim_end_matches", "append", "append_char", "from_char", "slice", "char_at", "eq", "cmp", "show",
];

#[derive(Clone, Debug)]
pub struct ArrCase {
    pub op: usize,
    pub xs: Vec<i64>,
    pub ys: Vec<i64>,
    pub i: i64,
    pub j: i64,
}

#[derive(Clone, Debug)]
pub struct StrCase {
    pub op: usize,
    pub s: Vec<char>,
    pub t: Vec<char>,
    pub i: i64,
    pub j: i64,
    pub c: char,
}

fn cps(s: &[char]) -> String {
    if s.is_empty() { "_".into() } else { s.iter().map(|c| (*c as u32).to_string()).collect::<Vec<_>>().join(".") }
}
fn parse_cps(s: &str) -> Vec<char> {
    if s == "_" || s.is_empty() { vec![] } else { s.split('.').map(|x| char::from_u32(x.parse().unwrap()).unwrap()).collect() }
}
fn il(s: &str) -> Vec<i64> {
    if s == "_" || s.is_empty() { vec![] } else { s.split(',').map(|x| x.parse().unwrap()).collect() }
}
fn ints_(xs: &[i64]) -> String {
    if xs.is_empty() { "_".into() } else { ints(xs) }
}

impl ArrCase {
    pub fn line(&self) -> String {
        format!("arr {} {} {} {} {}", ARR_OPS[self.op], ints_(&self.xs), ints_(&self.ys), self.i, self.j)
    }
    pub fn parse(a: &[&str]) -> Option<ArrCase> {
        Some(ArrCase { op: ARR_OPS.iter().position(|o| *o == a[0])?, xs: il(a[1]), ys: il(a[2]), i: a[3].parse().ok()?, j: a[4].parse().ok()? })
    }
    pub fn nontrivial(&self) -> bool {
        self.xs.len() >= 2
    }
    pub fn shrinks(&self) -> Vec<ArrCase> {
        let mut v = vec![];
        // only operations without index arguments can lose elements safely
        if !matches!(ARR_OPS[self.op], "index" | "slice") {
            for k in 0..self.xs.len() {
                let mut c = self.clone();
                c.xs.remove(k);
                v.push(c);
            }
            for k in 0..self.ys.len() {
                let mut c = self.clone();
                c.ys.remove(k);
                v.push(c);
            }
        }
        v
    }
}

impl StrCase {
    pub fn line(&self) -> String {
        format!("str {} {} {} {} {} {}", STR_OPS[self.op], cps(&self.s), cps(&self.t), self.i, self.j, self.c as u32)
    }
    pub fn parse(a: &[&str]) -> Option<StrCase> {
        Some(StrCase {
            op: STR_OPS.iter().position(|o| *o == a[0])?,
            s: parse_cps(a[1]),
            t: parse_cps(a[2]),
            i: a[3].parse().ok()?,
            j: a[4].parse().ok()?,
            c: char::from_u32(a[5].parse().ok()?)?,
        })
    }
    pub fn nontrivial(&self) -> bool {
        !self.s.is_empty()
    }
    pub fn shrinks(&self) -> Vec<StrCase> {
        let mut v = vec![];
        if !matches!(STR_OPS[self.op], "boundary" | "split_at" | "slice" | "char_at") {
            for k in 0..self.s.len() {
                let mut c = self.clone();
                c.s.remove(k);
                v.push(c);
            }
            for k in 0..self.t.len() {
                let mut c = self.clone();
                c.t.remove(k);
                if !(c.t.is_empty() && STR_OPS[self.op].ends_with("_matches")) {
                    v.push(c);
                }
            }
        }
        v
    }
}

fn hexs(b: &[u8]) -> String {
    let mut s = String::from("x");
    for c in b {
        s.push_str(&format!("{:02x}", c));
    }
    s
}

/// canonical rendering of the Gluon result type
/// `R = | RInt Int | RBool Bool | ROpt (Option Int) | RStr String | RBytes (Array Byte) | RPair String String | RArr (Array Int)`
pub fn canon_r(v: ValueRef<'_>) -> String {
    let d = match v {
        ValueRef::Data(d) => d,
        other => return format!("?R:{:?}", other),
    };
    let f = |i: usize| d.get(i).unwrap();
    match (d.tag(), d.len()) {
        (0, 1) => match f(0) {
            ValueRef::Int(i) => format!("i{}", i),
            o => format!("?int:{:?}", o),
        },
        (1, 1) => match f(0) {
            ValueRef::Data(b) => (if b.tag() == 1 { "T" } else { "F" }).to_string(),
            o => format!("?bool:{:?}", o),
        },
        (2, 1) => match f(0) {
            ValueRef::Data(o) if o.len() == 0 => "N".into(),
            ValueRef::Data(o) => match o.get(0) {
                Some(ValueRef::Int(i)) => format!("S{}", i),
                o => format!("?opt:{:?}", o),
            },
            o => format!("?opt:{:?}", o),
        },
        (3, 1) => match f(0) {
            ValueRef::String(s) => hexs(s.as_bytes()),
            o => format!("?str:{:?}", o),
        },
        (4, 1) => match f(0) {
            ValueRef::Array(a) => {
                let mut bs = vec![];
                for x in a.iter() {
                    match x.as_ref() {
                        ValueRef::Byte(b) => bs.push(b),
                        o => return format!("?byte:{:?}", o),
                    }
                }
                format!("b{}", hexs(&bs))
            }
            o => format!("?bytes:{:?}", o),
        },
        (5, 2) => match (f(0), f(1)) {
            (ValueRef::String(a), ValueRef::String(b)) => format!("({};{})", hexs(a.as_bytes()), hexs(b.as_bytes())),
            o => format!("?pair:{:?}", o),
        },
        (6, 1) => match f(0) {
            ValueRef::Array(a) => {
                let mut xs = vec![];
                for x in a.iter() {
                    match x.as_ref() {
                        ValueRef::Int(i) => xs.push(i.to_string()),
                        o => return format!("?elem:{:?}", o),
                    }
                }
                format!("[{}]", xs.join(","))
            }
            o => format!("?arr:{:?}", o),
        },
        (t, n) => format!("?R:tag{}:{}", t, n),
    }
}

pub fn run_arr(vm: &mut Vm, c: &ArrCase) -> String {
    let r = catch_unwind(AssertUnwindSafe(|| vm.arr_op.call(c.op as i64, c.xs.clone(), c.ys.clone(), c.i, c.j).map(|v| canon_r(v.get_ref()))));
    match r {
        Ok(Ok(s)) => s,
        Ok(Err(e)) => err_line(&e),
        Err(_) => "panic".into(),
    }
}

pub fn run_str(vm: &mut Vm, c: &StrCase) -> String {
    let s: String = c.s.iter().collect();
    let t: String = c.t.iter().collect();
    let r = catch_unwind(AssertUnwindSafe(|| vm.str_op.call(c.op as i64, s, t, c.i, c.j, c.c).map(|v| canon_r(v.get_ref()))));
    match r {
        Ok(Ok(s)) => s,
        Ok(Err(e)) => err_line(&e),
        Err(_) => "panic".into(),
    }
}

fn brack(xs: &[i64]) -> String {
    format!("[{}]", ints(xs))
}

/// Rust slices / iterators as the independent oracle
pub fn oracle_arr(c: &ArrCase) -> String {
    let (xs, ys, i, j) = (&c.xs, &c.ys, c.i as usize, c.j as usize);
    match ARR_OPS[c.op] {
        "len" => format!("i{}", xs.len()),
        "index" => format!("i{}", xs[i]),
        "append" => brack(&[xs.clone(), ys.clone()].concat()),
        "slice" => brack(&xs[i..j]),
        "foldl" => format!("i{}", xs.iter().fold(7i64, |a, x| a * 3 - x)),
        "foldr" => format!("i{}", xs.iter().rev().fold(7i64, |a, x| x - a * 3)),
        "map" => brack(&xs.iter().map(|x| x * 2 + 1).collect::<Vec<_>>()),
        "eq" => (if xs == ys { "T" } else { "F" }).into(),
        "cmp" => format!("i{}", match xs.cmp(ys) { std::cmp::Ordering::Less => -1, std::cmp::Ordering::Equal => 0, std::cmp::Ordering::Greater => 1 }),
        "show" => hexs(format!("[{}]", xs.iter().map(|x| x.to_string()).collect::<Vec<_>>().join(", ")).as_bytes()),
        _ => "-".into(),
    }
}

/// The string primitives ARE thin wrappers of Rust's `str`, so a `str` oracle would be the
/// implementation itself.  The oracle here is written on `Vec<char>` (scalar values) and byte
/// offsets computed from `len_utf8`, without using any `str` searching / trimming function.
pub fn oracle_str(c: &StrCase) -> String {
    let s = &c.s;
    let t = &c.t;
    let w = |x: &[char]| -> usize { x.iter().map(|c| c.len_utf8()).sum() };
    let enc = |x: &[char]| -> String { hexs(x.iter().collect::<String>().as_bytes()) };
    // char index of byte offset i, if i is a boundary
    let at = |x: &[char], i: usize| -> Option<usize> {
        let mut off = 0;
        for (k, ch) in x.iter().enumerate() {
            if off == i {
                return Some(k);
            }
            off += ch.len_utf8();
        }
        if off == i { Some(x.len()) } else { None }
    };
    let prefix = |p: &[char], x: &[char]| x.len() >= p.len() && &x[..p.len()] == p;
    let opt = |o: Option<usize>| match o {
        Some(k) => format!("S{}", k),
        None => "N".into(),
    };
    let b = |x: bool| (if x { "T" } else { "F" }).to_string();
    let ws = |ch: &char| ch.is_whitespace();
    let i = c.i as usize;
    let j = c.j as usize;
    match STR_OPS[c.op] {
        "len" => format!("i{}", w(s)),
        "is_empty" => b(s.is_empty()),
        "boundary" => b(at(s, i).is_some()),
        "bytes" => format!("b{}", enc(s)),
        "split_at" => match at(s, i) {
            Some(k) => format!("({};{})", enc(&s[..k]), enc(&s[k..])),
            None => "error".into(),
        },
        "contains" => b((0..=s.len()).any(|k| prefix(t, &s[k..]))),
        "starts_with" => b(prefix(t, s)),
        "ends_with" => b(s.len() >= t.len() && &s[s.len() - t.len()..] == &t[..]),
        "find" => opt((0..=s.len()).find(|k| prefix(t, &s[*k..])).map(|k| w(&s[..k]))),
        "rfind" => opt((0..=s.len()).rev().find(|k| prefix(t, &s[*k..])).map(|k| w(&s[..k]))),
        "trim" | "trim_start" | "trim_end" => {
            let mut a = 0;
            let mut e = s.len();
            if STR_OPS[c.op] != "trim_end" {
                while a < e && ws(&s[a]) {
                    a += 1;
                }
            }
            if STR_OPS[c.op] != "trim_start" {
                while e > a && ws(&s[e - 1]) {
                    e -= 1;
                }
            }
            enc(&s[a..e])
        }
        "trim_start_matches" => {
            let mut a = 0;
            while !t.is_empty() && prefix(t, &s[a..]) {
                a += t.len();
            }
            enc(&s[a..])
        }
        "trim_end_matches" => {
            let mut e = s.len();
            while !t.is_empty() && e >= t.len() && &s[e - t.len()..e] == &t[..] {
                e -= t.len();
            }
            enc(&s[..e])
        }
        "append" => enc(&[s.clone(), t.clone()].concat()),
        "append_char" => {
            let mut v = s.clone();
            v.push(c.c);
            enc(&v)
        }
        "from_char" => enc(&[c.c]),
        "slice" => match (at(s, i), at(s, j)) {
            (Some(a), Some(e)) if a <= e => enc(&s[a..e]),
            _ => "error".into(),
        },
        "char_at" => match at(s, i) {
            Some(k) if k < s.len() => format!("i{}", s[k] as u32),
            _ => "error".into(),
        },
        "eq" => b(s == t),
        "cmp" => format!("i{}", match s.cmp(t) { std::cmp::Ordering::Less => -1, std::cmp::Ordering::Equal => 0, std::cmp::Ordering::Greater => 1 }),
        "show" => {
            let mut v = vec!['"'];
            v.extend(s.iter());
            v.push('"');
            enc(&v)
        }
        _ => "-".into(),
    }
}

// ---- generators ----

const ALPHABET: &[char] = &[
    'a', 'b', 'a', 'b', 'c', ' ', ' ', '\t', '\n', 'x', 'é', 'ß', '€', '✓', '😀', '𝄞', '\u{a0}', '\u{3000}', '\u{2003}', '\u{85}', '\u{200b}', '"', '\\', '(', ')',
    '\u{7f}', '\u{80}', '\u{7ff}', '\u{800}', '\u{ffff}', '\u{10000}', '\u{10ffff}', '\u{0}', '\r', '\u{b}', '\u{c}', '\u{1680}', '\u{2028}', '\u{feff}',
];

pub fn gen_string(rng: &mut Rng, hist: &mut Hist) -> Vec<char> {
    let n = match rng.below(8) {
        0 => 0,
        1 => 1,
        2..=5 => rng.below(8),
        _ => rng.below(40),
    } as usize;
    let kind = rng.below(4);
    let s: Vec<char> = (0..n)
        .map(|_| match kind {
            0 => *rng.pick(&ALPHABET[..6]),   // ascii with repeats and blanks
            1 => *rng.pick(&ALPHABET[..12]),  // some multi-byte
            2 => *rng.pick(ALPHABET),         // everything incl. boundary code points
            _ => *rng.pick(&['a', 'b', 'é']), // tiny alphabet: many pattern matches
        })
        .collect();
    hist.add(&format!("str:len{}", if n == 0 { "0" } else if n < 4 { "1-3" } else if n < 12 { "4-11" } else { "12+" }));
    hist.add(if s.iter().any(|c| c.len_utf8() > 1) { "str:multibyte" } else { "str:ascii" });
    s
}

fn gen_pattern(rng: &mut Rng, s: &[char], nonempty: bool) -> Vec<char> {
    let mut p: Vec<char> = match rng.below(4) {
        0 if !s.is_empty() => {
            // a substring of s
            let a = rng.below(s.len() as u64) as usize;
            let l = 1 + rng.below(3.min((s.len() - a) as u64)) as usize;
            s[a..a + l].to_vec()
        }
        1 => vec![],
        2 => (0..1 + rng.below(2)).map(|_| *rng.pick(&['a', 'b', 'é', ' '])).collect(),
        _ => (0..rng.below(3)).map(|_| *rng.pick(ALPHABET)).collect(),
    };
    if nonempty && p.is_empty() {
        p.push(*rng.pick(&['a', 'b', 'é', ' ']));
    }
    p
}

fn boundaries(s: &[char]) -> Vec<usize> {
    let mut v = vec![0];
    let mut off = 0;
    for c in s {
        off += c.len_utf8();
        v.push(off);
    }
    v
}

pub fn gen_str_case(rng: &mut Rng, hist: &mut Hist) -> StrCase {
    let op = rng.below(STR_OPS.len() as u64) as usize;
    let name = STR_OPS[op];
    let s = gen_string(rng, hist);
    let t = match name {
        "trim_start_matches" | "trim_end_matches" => {
            // make repeated matches likely: s := t^k ++ s ++ t^k
            gen_pattern(rng, &s, true)
        }
        "append" | "eq" | "cmp" => {
            if rng.chance(1, 3) {
                let mut t = s.clone();
                if !t.is_empty() && rng.chance(1, 2) {
                    let k = rng.below(t.len() as u64) as usize;
                    t[k] = *rng.pick(ALPHABET);
                } else if rng.chance(1, 2) {
                    t.push(*rng.pick(ALPHABET));
                }
                t
            } else {
                gen_string(rng, hist)
            }
        }
        _ => gen_pattern(rng, &s, false),
    };
    let mut s = s;
    if name.ends_with("_matches") && rng.chance(2, 3) {
        let k = rng.below(3) as usize;
        let mut v = vec![];
        for _ in 0..k {
            v.extend(t.iter());
        }
        v.extend(s.iter());
        for _ in 0..k {
            v.extend(t.iter());
        }
        s = v;
    }
    let bs = boundaries(&s);
    let total = *bs.last().unwrap();
    let (i, j) = match name {
        // any offset incl. non-boundaries and one past the end: is_char_boundary is total
        "boundary" => (rng.below(total as u64 + 3) as i64, 0),
        "split_at" => (*rng.pick(&bs) as i64, 0),
        "char_at" => (if bs.len() > 1 { bs[rng.below(bs.len() as u64 - 1) as usize] as i64 } else { -1 }, 0),
        "slice" => {
            let a = rng.below(bs.len() as u64) as usize;
            let e = a + rng.below((bs.len() - a) as u64) as usize;
            (bs[a] as i64, bs[e] as i64)
        }
        _ => (0, 0),
    };
    let mut c = StrCase { op, s, t, i, j, c: *rng.pick(ALPHABET) };
    if name == "char_at" && c.i < 0 {
        // char_at on the empty string has no valid index: use `len` instead
        c.op = 0;
        c.i = 0;
    }
    hist.add(&format!("str:op:{}", STR_OPS[c.op]));
    c
}

pub fn gen_arr_case(rng: &mut Rng, hist: &mut Hist, big: Vec<i64>, other: Vec<i64>) -> ArrCase {
    let op = rng.below(ARR_OPS.len() as u64) as usize;
    let name = ARR_OPS[op];
    let mut xs = big;
    let mut ys = other;
    if matches!(name, "foldl" | "foldr" | "map") {
        xs = xs.iter().take(20).map(|x| x.rem_euclid(19) - 9).collect();
    }
    if matches!(name, "eq" | "cmp") && rng.chance(1, 2) {
        ys = xs.clone();
        if !ys.is_empty() && rng.chance(1, 2) {
            let k = rng.below(ys.len() as u64) as usize;
            ys[k] = ys[k].wrapping_add(rng.range(-1, 1));
        } else if rng.chance(1, 3) {
            ys.pop();
        }
    }
    let n = xs.len();
    let (i, j) = match name {
        "index" => {
            if n == 0 {
                (-1, 0)
            } else {
                (rng.below(n as u64) as i64, 0)
            }
        }
        "slice" => {
            let a = rng.below(n as u64 + 1);
            let e = a + rng.below(n as u64 + 1 - a);
            (a as i64, e as i64)
        }
        _ => (0, 0),
    };
    let mut c = ArrCase { op, xs, ys, i, j };
    if name == "index" && c.i < 0 {
        c.op = 0;
        c.i = 0;
    }
    hist.add(&format!("arr:op:{}", ARR_OPS[c.op]));
    c
}
